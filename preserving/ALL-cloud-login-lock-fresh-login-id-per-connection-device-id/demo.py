"""Minimal conforming NetHome Plus server used by the demo scripts (httpx.MockTransport, no network)."""
import hashlib
import json
from urllib.parse import parse_qsl

import httpx

APP_KEY = "3742e9e5842d4ad59c2db887e12449f9"


class FakeNetHome:
    def __init__(self, accounts, tokens, script=None):
        self.accounts = dict(accounts)      # account -> password
        self.tokens = list(tokens)          # list of dict(udpId, token, key)
        self.script = list(script or [])    # per-request faults: "timeout", 500, ("api", code), None
        self.login_ids = {}
        self.sessions = set()
        self.requests = []                  # (path, fields)
        self.violations = []
        self.clients = 0
        self._n = 0

    # -- client factory handed to the library
    def client(self, *args, **kwargs):
        self.clients += 1
        return httpx.AsyncClient(transport=httpx.MockTransport(self.handle))

    def _reply(self, result=None, code=0, msg="ok"):
        body = {"errorCode": str(code), "msg": msg}
        if code == 0:
            body["result"] = result
        return httpx.Response(200, text=json.dumps(body))

    def handle(self, request: httpx.Request) -> httpx.Response:
        path = request.url.path
        pairs = parse_qsl(request.content.decode("utf-8"), keep_blank_values=True)
        fields = dict(pairs)
        self.requests.append((path, dict(fields)))
        if len(fields) != len(pairs):
            self.violations.append(f"{path}: duplicate form field")

        # Scripted faults
        fault = self.script.pop(0) if self.script else None
        if fault == "timeout":
            raise httpx.ReadTimeout("scripted timeout", request=request)
        if isinstance(fault, int):
            return httpx.Response(fault, text="scripted failure")
        if isinstance(fault, tuple):
            return self._reply(code=fault[1], msg="scripted api error")

        # Signature
        sign = fields.pop("sign", None)
        query = "&".join(f"{k}={v}" for k, v in sorted(fields.items()))
        expect = hashlib.sha256((path + query + APP_KEY).encode()).hexdigest()
        if sign != expect:
            self.violations.append(f"{path}: bad sign")
            return self._reply(code=3301, msg="bad sign")
        for f in ("appId", "src", "format", "clientType", "language", "deviceId", "stamp", "sessionId"):
            if f not in fields:
                self.violations.append(f"{path}: missing {f}")
        if fields.get("appId") != "1017" or len(fields.get("stamp", "")) != 14:
            self.violations.append(f"{path}: bad appId/stamp")

        if path == "/v1/user/login/id/get":
            acct = fields.get("loginAccount")
            if acct not in self.accounts:
                return self._reply(code=3102, msg="no such account")
            self._n += 1
            lid = f"lid{self._n:04d}-{hashlib.md5(acct.encode()).hexdigest()[:8]}"
            self.login_ids.setdefault(acct, []).append(lid)
            return self._reply({"loginId": lid})

        if path == "/v1/user/login":
            acct = fields.get("loginAccount")
            lids = self.login_ids.get(acct)
            if not lids:
                self.violations.append("login without login id")
                return self._reply(code=3101, msg="no login id")
            m1 = hashlib.sha256(self.accounts[acct].encode()).hexdigest()
            want = [hashlib.sha256((lid + m1 + APP_KEY).encode()).hexdigest() for lid in lids]
            if fields.get("password") not in want:
                return self._reply(code=3101, msg="bad password")
            self._n += 1
            sid = f"sess{self._n:04d}"
            self.sessions.add(sid)
            return self._reply({"sessionId": sid, "userId": "1"})

        if path == "/v1/iot/secure/getToken":
            if fields.get("sessionId") not in self.sessions:
                self.violations.append("getToken with bad session")
                return self._reply(code=3106, msg="invalid session")
            return self._reply({"tokenlist": self.tokens})

        return httpx.Response(404, text="nope")


# ---------------------------------------------------------------- demo 4
import asyncio

from msmart.cloud import ApiError, CloudError, NetHomePlusCloud

ACCOUNTS = {"user@example.com": "pw 1", "other@example.com": "pw 2"}
UDPID = "4fbe0d4139de99dd88a0285e14657045"
TOKENS = [{"udpId": UDPID, "token": "T1", "key": "K1"}]


def paths(srv):
    return [p for p, _ in srv.requests]


async def main():
    # Plain login, second login is a no-op
    srv = FakeNetHome(ACCOUNTS, TOKENS)
    c = NetHomePlusCloud("US", account="user@example.com", password="pw 1", get_async_client=srv.client)
    await c.login()
    assert paths(srv) == ["/v1/user/login/id/get", "/v1/user/login"]
    first = c._session_id
    await c.login()
    assert len(srv.requests) == 2
    assert await c.get_token(UDPID) == ("T1", "K1")
    assert srv.requests[-1][1]["sessionId"] == first

    # Forced login gives a new session that later requests use
    n = len(srv.requests)
    await c.login(force=True)
    assert c._session_id != first and c._session_id in srv.sessions
    assert paths(srv)[-1] == "/v1/user/login" and 1 <= len(srv.requests) - n <= 2
    assert await c.get_token(UDPID) == ("T1", "K1")
    assert srv.requests[-1][1]["sessionId"] == c._session_id
    assert not srv.violations, srv.violations

    # One device id per connection on every request, 16 hex digits
    ids = {f["deviceId"] for _, f in srv.requests}
    assert len(ids) == 1 and len(ids.pop()) == 16

    # Concurrent logins end with a valid session and only conforming requests
    srv = FakeNetHome(ACCOUNTS, TOKENS)
    c = NetHomePlusCloud("US", account="other@example.com", password="pw 2", get_async_client=srv.client)
    await asyncio.gather(c.login(), c.login(), c.login())
    assert c._session_id in srv.sessions and c._session
    assert set(paths(srv)) == {"/v1/user/login/id/get", "/v1/user/login"} and 2 <= len(srv.requests) <= 6
    got = await asyncio.gather(*(c.get_token(UDPID) for _ in range(3)))
    assert got == [("T1", "K1")] * 3
    assert not srv.violations, srv.violations

    # A failed login leaves no session; fixing the password then works on the same instance
    srv = FakeNetHome(ACCOUNTS, TOKENS)
    c = NetHomePlusCloud("US", account="user@example.com", password="nope", get_async_client=srv.client)
    for _ in range(2):
        try:
            await c.login()
            raise SystemExit("expected ApiError")
        except ApiError as e:
            assert e.code == 3101
        assert not c._session and c._session_id == ""
    c._password = "pw 1"
    await c.login()
    assert c._session_id in srv.sessions
    assert await c.get_token(UDPID) == ("T1", "K1")
    assert not srv.violations, srv.violations

    # Timeouts during login: at most three attempts per request, then CloudError; recovery afterwards
    srv = FakeNetHome(ACCOUNTS, TOKENS, script=["timeout"] * 3)
    c = NetHomePlusCloud("US", account="user@example.com", password="pw 1", get_async_client=srv.client)
    try:
        await c.login()
        raise SystemExit("expected CloudError")
    except CloudError:
        pass
    assert len(srv.requests) == 3 and not c._session
    srv.script = [None, "timeout", "timeout", "timeout"]
    try:
        await c.login()
        raise SystemExit("expected CloudError")
    except CloudError:
        pass
    assert paths(srv)[3:] == ["/v1/user/login/id/get"] + ["/v1/user/login"] * 3
    await c.login()
    assert c._session_id in srv.sessions and not srv.violations
    print("demo4 OK")


asyncio.run(main())
