"""Demonstration for C03 (V2 packet integrity).

Builds authentic V2 packets independently of the library, then checks that
  * the authentic packet decodes to exactly the frame that was sent,
  * every single-bit flip, a sweep of single-byte substitutions, every
    truncation length and random multi-byte corruptions are rejected with
    ProtocolError (and never produce a frame),
both directly at _Packet.decode and end-to-end through LAN.send using an
in-memory transport (no sockets).
"""
import asyncio
import logging
import os
import random
import sys
from hashlib import md5

from Crypto.Cipher import AES
from Crypto.Util import Padding

from msmart.lan import LAN, ProtocolError, _LanProtocol, _Packet

logging.disable(logging.CRITICAL)

SIGN_KEY = b"xhdiwjnchekd4d512chdjx5d8e4c394D2D7S"
ENC_KEY = md5(SIGN_KEY).digest()


def device_packet(frame: bytes, rng: random.Random) -> bytes:
    """Build a packet the way a device would, without using the library."""
    payload = AES.new(ENC_KEY, AES.MODE_ECB).encrypt(Padding.pad(frame, 16))
    length = 40 + len(payload) + 16
    header = b"\x5a\x5a\x01\x11" + length.to_bytes(2, "little") + b"\x20\x80"
    header += bytes(rng.randrange(256) for _ in range(32))
    body = header + payload
    return body + md5(body + SIGN_KEY).digest()


def expect_rejected(data: bytes, what: str) -> None:
    try:
        frame = _Packet.decode(data)
    except ProtocolError:
        return
    except Exception as e:  # pylint: disable=broad-except
        raise AssertionError(f"{what}: wrong exception {type(e).__name__}: {e}")
    raise AssertionError(f"{what}: accepted, decoded to {frame.hex()}")


def check_decode(rng: random.Random) -> int:
    count = 0
    for n in list(range(0, 50)) + [63, 64, 65, 200, 255]:
        frame = bytes(rng.randrange(256) for _ in range(n))
        packet = device_packet(frame, rng)

        # Authentic packet is accepted and decodes to the sent frame
        assert _Packet.decode(packet) == frame, f"authentic len {n}"
        assert _Packet.decode(bytearray(packet)) == frame

        # Every truncation length
        for k in range(len(packet)):
            expect_rejected(packet[:k], f"truncate {n}/{k}")
            count += 1

        if n in (0, 1, 15, 16, 17, 33, 64):
            # Every single bit flip
            for bit in range(len(packet) * 8):
                bad = bytearray(packet)
                bad[bit // 8] ^= 1 << (bit % 8)
                expect_rejected(bytes(bad), f"flip {n}/{bit}")
                count += 1

            # Byte substitutions at every position
            for pos in range(len(packet)):
                for val in {0x00, 0xFF, 0x5A, 0x10, packet[pos] ^ 0x80, rng.randrange(256)}:
                    if val == packet[pos]:
                        continue
                    bad = bytearray(packet)
                    bad[pos] = val
                    expect_rejected(bytes(bad), f"subst {n}/{pos}/{val}")
                    count += 1

        # Random multi byte corruptions
        for _ in range(200):
            bad = bytearray(packet)
            for pos in rng.sample(range(len(packet)), rng.randint(2, 8)):
                bad[pos] ^= rng.randrange(1, 256)
            expect_rejected(bytes(bad), f"multi {n}")
            count += 1

    return count


class FakeTransport:
    """Transport that answers every write with canned chunks."""

    def __init__(self, protocol, chunks) -> None:
        self._protocol = protocol
        self._chunks = chunks
        self._closing = False
        self.writes = 0

    def get_extra_info(self, _name):
        return ("127.0.0.1", 6444)

    def is_closing(self) -> bool:
        return self._closing

    def close(self) -> None:
        self._closing = True

    def write(self, _data) -> None:
        self.writes += 1
        loop = asyncio.get_event_loop()
        for chunk in self._chunks:
            loop.call_soon(self._protocol.data_received, chunk)


async def send_with(chunks, frame=b"\xaa\x01\x02") -> tuple:
    lan = LAN("127.0.0.1", 6444, 1234)

    async def _connect() -> None:
        protocol = _LanProtocol()
        protocol.connection_made(FakeTransport(protocol, chunks))
        lan._protocol = protocol  # pylint: disable=protected-access

    lan._connect = _connect  # pylint: disable=protected-access
    try:
        return await lan.send(frame), None
    except Exception as e:  # pylint: disable=broad-except
        return None, e


async def check_send(rng: random.Random) -> int:
    count = 0
    for n in (0, 7, 16, 35, 100):
        frame = bytes(rng.randrange(256) for _ in range(n))
        packet = device_packet(frame, rng)

        responses, err = await send_with([packet])
        assert err is None, f"authentic send: {err!r}"
        assert responses == [frame], responses

        bad_packets = []
        for _ in range(60):
            bad = bytearray(packet)
            bad[rng.randrange(len(bad))] ^= 1 << rng.randrange(8)
            bad_packets.append(bytes(bad))
        # Flip every bit of the marker and length fields and of the first signature byte
        for bit in list(range(0, 16)) + list(range(32, 48)) + list(range((len(packet) - 16) * 8, (len(packet) - 15) * 8)):
            bad = bytearray(packet)
            bad[bit // 8] ^= 1 << (bit % 8)
            bad_packets.append(bytes(bad))
        for k in (1, 5, 6, 39, 40, 41, len(packet) - 17, len(packet) - 16, len(packet) - 1):
            bad_packets.append(packet[:k])

        for bad in bad_packets:
            responses, err = await send_with([bad])
            assert responses is None, f"corrupted packet accepted: {responses}"
            assert isinstance(err, ProtocolError), f"wrong error {err!r}"
            count += 1

        # Corrupted packet followed by an authentic one is still an error
        responses, err = await send_with([bad_packets[0], packet])
        assert responses is None and isinstance(err, ProtocolError), (responses, err)
        count += 1

    return count


def main() -> int:
    seed = int(os.environ.get("DEMO_SEED", "20240917"))
    rng = random.Random(seed)
    n_decode = check_decode(rng)
    n_send = asyncio.run(check_send(rng))
    print(f"OK: {n_decode} corrupted packets rejected by _Packet.decode, "
          f"{n_send} rejected by LAN.send, all authentic packets decoded exactly")
    return 0


if __name__ == "__main__":
    sys.exit(main())
