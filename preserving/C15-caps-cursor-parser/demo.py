"""Demonstration for property C15: capability records are interpreted independently
of each other and the result does not depend on where the device splits the list
between the first and the 'additional' capabilities response.

Run: PYTHONPATH=<worktree> /venv/bin/python demo.py
Exits 0 when every comparison holds.
"""
import asyncio
import logging
import random
import sys

from msmart import crc8
from msmart.device import AirConditioner as AC
from msmart.device.AC.command import CapabilitiesResponse, CapabilityId, Response
from msmart.frame import Frame

logging.disable(logging.CRITICAL)

KNOWN_IDS = [int(c) for c in CapabilityId]
UNKNOWN_IDS = [0x0001, 0x00FF, 0x0226, 0x1234, 0xFFFF, 0x0300]

ATTRS = [
    "min_target_temperature", "max_target_temperature",
    "supported_operation_modes", "supported_fan_speeds", "supports_custom_fan_speed",
    "supports_breeze_away", "supports_breeze_mild", "supports_breezeless",
    "supported_swing_modes", "supports_horizontal_swing_angle", "supports_vertical_swing_angle",
    "supports_eco", "supports_ieco", "supports_turbo", "supports_freeze_protection",
    "supports_purifier", "supports_display_control", "supports_filter_reminder",
    "supports_humidity", "supports_target_humidity", "supports_self_clean",
    "supported_rate_selects", "supported_aux_modes",
]


def record(cap_id: int, data: bytes) -> bytes:
    return bytes([cap_id & 0xFF, cap_id >> 8, len(data)]) + data


def payload(records, more: bool) -> bytes:
    return bytes([0xB5, len(records)]) + b"".join(records) + bytes([1 if more else 0, 0])


def frame(body: bytes) -> bytes:
    body = body + bytes([crc8.calculate(body)])
    hdr = bytearray(10)
    hdr[0] = 0xAA
    hdr[1] = 10 + len(body)
    hdr[2] = 0xAC
    hdr[9] = 0x03
    out = bytes(hdr) + body
    return out + bytes([Frame.checksum(out[1:])])


def parse(body: bytes) -> CapabilitiesResponse:
    resp = Response.construct(frame(body))
    assert isinstance(resp, CapabilitiesResponse), type(resp)
    return resp


def reference(records) -> dict:
    """Interpret every record alone, merge in order."""
    merged = {}
    for r in records:
        merged.update(dict(parse(payload([r], False)).raw_capabilities))
    return merged


class FakeDevice(AC):
    """Air conditioner whose transport is replaced by a scripted device."""

    def __init__(self, first, second=None):
        super().__init__("127.0.0.1", 1, 6444)
        self._first, self._second = first, second
        self.requests = []
        # AirConditioner calls Device._send_command via super(), so script the transport below it
        self._lan.send = self._scripted_send

    async def _scripted_send(self, data, *args, **kwargs):
        self.requests.append(data)
        body = data[10:-2]
        if body[:3] == bytes([0xB5, 0x01, 0x00]):
            return [frame(payload(self._first, self._second is not None))]
        if body[:3] == bytes([0xB5, 0x01, 0x01]) and self._second is not None:
            return [frame(payload(self._second, False))]
        return []


def snapshot(dev) -> dict:
    snap = {}
    for a in ATTRS:
        v = getattr(dev, a)
        snap[a] = sorted(v, key=repr) if isinstance(v, list) else v
    return snap


def run_device(first, second=None) -> dict:
    dev = FakeDevice(first, second)
    asyncio.run(dev.get_capabilities())
    assert len(dev.requests) == (1 if second is None else 2), dev.requests
    return snapshot(dev)


def random_record(rng) -> bytes:
    kind = rng.random()
    if kind < 0.10:
        return record(rng.choice(KNOWN_IDS + UNKNOWN_IDS), b"")
    if kind < 0.25:
        return record(rng.choice(UNKNOWN_IDS), bytes(rng.randrange(256) for _ in range(rng.randint(1, 10))))
    if kind < 0.45:
        return record(int(CapabilityId.TEMPERATURES), bytes(rng.randrange(256) for _ in range(rng.randint(1, 10))))
    size = rng.choice([1, 1, 1, 2, 3, 10])
    return record(rng.choice(KNOWN_IDS), bytes(rng.randrange(256) for _ in range(size)))


def check_list(records, with_device: bool) -> None:
    want = reference(records)

    # One response
    got = dict(parse(payload(records, False)).raw_capabilities)
    assert got == want, (records, got, want)

    # Every split, at the response level
    for k in range(len(records) + 1):
        a = parse(payload(records[:k], True))
        b = parse(payload(records[k:], False))
        assert a.additional_capabilities is True
        assert b.additional_capabilities is False
        a.merge(b)
        assert dict(a.raw_capabilities) == want, (records, k)

    # Every split, through get_capabilities() on a fresh device
    if with_device:
        whole = run_device(records)
        for k in range(len(records) + 1):
            assert run_device(records[:k], records[k:]) == whole, (records, k)


def main() -> int:
    rng = random.Random(15)

    # Every known id with every value, alone and next to an odd neighbour
    for cap_id in KNOWN_IDS:
        for v in range(256):
            r = record(cap_id, bytes([v]))
            alone = dict(parse(payload([r], False)).raw_capabilities)
            for neighbour in (record(0x1234, b"\x01\x02\x03"), record(cap_id, b""),
                              record(int(CapabilityId.TEMPERATURES), b"\x20\x3c")):
                got = dict(parse(payload([neighbour, r, neighbour], False)).raw_capabilities)
                assert got == alone, (hex(cap_id), v)

    # Temperature records of every size
    for size in range(0, 11):
        data = bytes([0x22, 0x3A, 0x24, 0x38, 0x20, 0x3C, 0x01, 0x00, 0x00, 0x00][:size])
        recs = [record(int(CapabilityId.PRESET_ECO), b"\x01"), record(int(CapabilityId.TEMPERATURES), data),
                record(int(CapabilityId.ANION), b"\x01")]
        check_list(recs, True)

    # Hand picked lists
    fixed = [
        [],
        [record(0x0212, b"")],
        [record(0xFFFF, bytes(10)), record(0x0214, b"\x01")],
        [record(0x0214, b"\x01"), record(0x0214, b"\x02")],
        [record(0x0210, b"\x07"), record(0x0040, b"\x00"), record(0x0210, b"\x01")],
        [record(0x0048, b"\x02"), record(0x0048, b"\x00"), record(0x0043, b"\x01"), record(0x0042, b"\x01")],
    ]
    for recs in fixed:
        check_list(recs, True)

    # Random lists of up to 12 records
    for n in range(250):
        recs = [random_record(rng) for _ in range(rng.randint(0, 12))]
        check_list(recs, n % 5 == 0)

    print("C15 demo: all comparisons hold")
    return 0


if __name__ == "__main__":
    sys.exit(main())
