import contextlib
import io
import logging
import socket
import struct
import sys
import threading
import time

from msmart import cli
from msmart import crc8
from msmart.frame import Frame
from msmart.lan import Security, _Packet


def _frame(frame_type, payload):
    """payload (without message id) -> full frame with id, CRC-8 and checksum."""
    body = bytes(payload) + bytes([0x55])
    body += bytes([crc8.calculate(body)])
    hdr = bytearray(10)
    hdr[0] = 0xAA
    hdr[1] = len(body) + 10
    hdr[2] = 0xAC
    hdr[9] = frame_type
    frame = bytearray(hdr + body)
    frame.append(Frame.checksum(frame[1:]))
    return bytes(frame)


class FakeAC:
    """A small V2 air conditioner listening on a loopback address (TCP 6444 by default)."""

    def __init__(self, ip, port=6444, device_id=0x112233445566, **state):
        self.ip, self.port, self.device_id = ip, port, device_id
        self.state = dict(power=True, mode=2, temp=22.0, fan=60, swing=0, eco=False, turbo=False,
                          sleep=False, fahrenheit=False, freeze=False, follow_me=False, purifier=False,
                          humidity=45, aux=False, indep_aux=False, display=True)
        self.state.update(state)
        self.props = {0x0009: 25, 0x000A: 0}   # vertical / horizontal swing angle
        self.log = []                           # what the unit received, in order
        self.silent_for = 0                     # swallow this many requests without replying
        self.silent_kinds = None                # ... only of these kinds (None = any)
        self.connections = 0
        self._srv = socket.socket(socket.AF_INET, socket.SOCK_STREAM)
        self._srv.setsockopt(socket.SOL_SOCKET, socket.SO_REUSEADDR, 1)
        self._srv.bind((ip, port))
        self.port = self._srv.getsockname()[1]
        self._srv.listen(8)
        self._stop = False
        threading.Thread(target=self._accept, daemon=True).start()

    def close(self):
        self._stop = True
        with contextlib.suppress(OSError):
            self._srv.close()

    def kinds(self):
        return [e[0] for e in self.log]

    # ---- network
    def _accept(self):
        while not self._stop:
            try:
                conn, _ = self._srv.accept()
            except OSError:
                return
            self.connections += 1
            threading.Thread(target=self._serve, args=(conn,), daemon=True).start()

    def _serve(self, conn):
        buf = b""
        with conn:
            while True:
                try:
                    data = conn.recv(4096)
                except OSError:
                    return
                if not data:
                    return
                buf += data
                while len(buf) >= 6:
                    size = int.from_bytes(buf[4:6], "little")
                    if len(buf) < size:
                        break
                    packet, buf = buf[:size], buf[size:]
                    frame = _Packet.decode(packet)
                    for reply in self._handle(frame):
                        conn.sendall(_Packet.encode(self.device_id, reply))

    # ---- protocol
    def _state_frame(self, frame_type=0x03):
        s = self.state
        p = bytearray(24)
        p[0] = 0xC0
        p[1] = 0x01 if s["power"] else 0
        whole = int(s["temp"])
        half = 0x10 if s["temp"] - whole else 0
        if 17 <= whole <= 30:
            p[2] = ((whole - 16) & 0xF) | half | (s["mode"] << 5)
        else:
            p[2] = half | (s["mode"] << 5)
            p[13] = (whole - 12) & 0x1F
        p[3] = s["fan"]
        p[4], p[5] = 0x7F, 0x7F
        p[7] = 0x30 | s["swing"]
        p[8] = (0x20 if s["turbo"] else 0) | (0x80 if s["follow_me"] else 0) | (0x40 if s["indep_aux"] else 0)
        p[9] = (0x10 if s["eco"] else 0) | (0x20 if s["purifier"] else 0) | (0x08 if s["aux"] else 0)
        p[10] = (0x01 if s["sleep"] else 0) | (0x04 if s["fahrenheit"] else 0)
        p[11], p[12] = 50 + 2 * 23, 50 + 2 * 30
        p[14] = 0x00 if s["display"] else 0x70
        p[19] = s["humidity"]
        p[21] = 0x80 if s["freeze"] else 0
        return _frame(frame_type, p)

    def _handle(self, frame):
        body = frame[10:-1]
        kind, reply = "other", []
        if body[0] == 0x41 and body[1] == 0x81:
            kind, reply = "get_state", [self._state_frame()]
        elif body[0] == 0x41 and body[1] == 0x21:
            kind = "group_query"
        elif body[0] == 0x41:
            kind = "toggle_display"
        elif body[0] == 0x40:
            kind = "set_state"
        elif body[0] == 0xB5:
            kind = "capabilities"
        elif body[0] == 0xB1:
            kind = "get_props"
        elif body[0] == 0xB0:
            kind = "set_props"

        if self.silent_for > 0 and (self.silent_kinds is None or kind in self.silent_kinds):
            self.silent_for -= 1
            self.log.append((kind + "/unanswered", None))
            return []

        if kind == "toggle_display":
            self.state["display"] = not self.state["display"]
            self.log.append((kind, {"beep": bool(body[1] & 0x40)}))
            reply = [self._state_frame()]
        elif kind == "set_state":
            s = self.state
            s["power"] = bool(body[1] & 0x01)
            whole = (body[2] & 0xF) + 16 if body[18] & 0x1F == 0 else (body[18] & 0x1F) + 12
            s["temp"] = whole + (0.5 if body[2] & 0x10 else 0.0)
            s["mode"] = body[2] >> 5
            s["fan"] = body[3]
            s["swing"] = body[7] & 0xF
            s["follow_me"] = bool(body[8] & 0x80)
            s["turbo"] = bool(body[8] & 0x20) or bool(body[10] & 0x02)
            s["eco"] = bool(body[9] & 0x80)
            s["purifier"] = bool(body[9] & 0x20)
            s["aux"] = bool(body[9] & 0x08)
            s["sleep"] = bool(body[10] & 0x01)
            s["fahrenheit"] = bool(body[10] & 0x04)
            s["humidity"] = body[19] & 0x7F
            s["freeze"] = bool(body[21] & 0x80)
            s["indep_aux"] = bool(body[22] & 0x08)
            self.log.append((kind, dict(s, beep=bool(body[1] & 0x40))))
            reply = [self._state_frame(0x02)]
        elif kind == "capabilities":
            recs = [(0x0214, 1), (0x0215, 1), (0x0210, 1), (0x0212, 1), (0x021A, 1),
                    (0x0213, 1), (0x0224, 1), (0x0009, 1), (0x000A, 1)]
            p = bytearray([0xB5, len(recs)])
            for cid, value in recs:
                p += struct.pack("<H", cid) + bytes([1, value])
            p += b"\x00"
            self.log.append((kind, None))
            reply = [_frame(0x03, p)]
        elif kind in ("get_props", "set_props"):
            count, rest, out = body[1], body[2:], []
            for _ in range(count):
                (pid,) = struct.unpack("<H", rest[0:2])
                if kind == "set_props":
                    size = rest[2]
                    value = rest[3:3 + size]
                    rest = rest[3 + size:]
                    if pid in self.props:
                        self.props[pid] = value[0]
                    out.append((pid, value))
                else:
                    rest = rest[2:]
                    out.append((pid, bytes([self.props.get(pid, 0)])))
            p = bytearray([body[0], len(out)])
            for pid, value in out:
                p += struct.pack("<H", pid) + bytes([0, len(value)]) + value
            self.log.append((kind, {pid: value.hex() for pid, value in out}))
            reply = [_frame(0x03 if kind == "get_props" else 0x02, p)]
        else:
            self.log.append((kind, None))
        return reply


def run_cli(*argv):
    """Run `msmart-ng <argv>` in-process; return (exit code, captured log text)."""
    root = logging.getLogger()
    for h in list(root.handlers):
        root.removeHandler(h)
    stream = io.StringIO()
    handler = logging.StreamHandler(stream)
    root.addHandler(handler)
    root.setLevel(logging.DEBUG if "-d" in argv else logging.INFO)
    old_argv = sys.argv
    sys.argv = ["msmart-ng", *argv]
    try:
        try:
            cli.main()
            code = 0
        except SystemExit as e:
            code = 0 if e.code is None else e.code
    finally:
        sys.argv = old_argv
        root.removeHandler(handler)
    return code, stream.getvalue()


def check(cond, what):
    if not cond:
        print("FAIL:", what)
        sys.exit(1)
    print("ok:", what)


def start_fake(base, **kw):
    """Start a FakeAC on the first free loopback address 127.83.<base>.N (the CLI always uses TCP 6444)."""
    for n in range(10, 250):
        try:
            return FakeAC(f"127.83.{base}.{n}", **kw)
        except OSError:
            continue
    raise RuntimeError("no free loopback address")


def free_ip(base):
    """A loopback address on which nothing listens on 6444."""
    for n in range(250, 10, -1):
        ip = f"127.83.{base}.{n}"
        with socket.socket() as s:
            if s.connect_ex((ip, 6444)) != 0:
                return ip
    raise RuntimeError("no unused loopback address")

# ---------------------------------------------------------------- demo 2: unanswered exchanges seen from the command line
dev = start_fake(12)

# 1. a responsive unit: one state query, one state write, exit 0
code, out = run_cli("control", dev.ip, "target_temperature=19", "swing_mode=vertical", "beep=1")
check(code == 0, "control exits 0")
check(dev.state["temp"] == 19.0 and dev.state["swing"] == 0xC, "requested state reached")
check(dev.kinds() == ["get_state", "set_state"], "exchanges: state query, state write")
check(dev.log[-1][1]["beep"] is True and dev.log[-1][1]["fan"] == 60, "beep carried, fan untouched")

# 2. the unit ignores a whole exchange worth of state queries, then answers again
dev.log.clear()
dev.silent_for, dev.silent_kinds = 3, ("get_state",)
t0 = time.time()
code, out = run_cli("control", dev.ip, "power_state=0")
print("   took %.1f s, exit %s, unit saw %s" % (time.time() - t0, code, dev.kinds()))
check(code in (0, 1), "exit status is 0 (applied) or 1 (reported offline)")
if code == 0:
    check(dev.state["power"] is False and dev.kinds().count("set_state") == 1, "applied once after the unit woke up")
else:
    check(dev.state["power"] is True and "set_state" not in dev.kinds(), "reported offline: nothing written")
check(dev.kinds()[:3] == ["get_state/unanswered"] * 3, "first query transmitted three times")
dev.state["power"] = True

# 3. the unit ignores the state write (all three transmissions), then answers again
dev.log.clear()
dev.silent_for, dev.silent_kinds = 3, ("set_state",)
code, out = run_cli("control", dev.ip, "fan_speed=80", "turbo=true")
print("   exit %s, unit saw %s" % (code, dev.kinds()))
check(code == 0, "exit 0")
check(dev.kinds().count("set_state/unanswered") == 3, "state write transmitted three times")
check(dev.kinds().count("set_state") in (0, 1), "at most one further, answered, state write")
if dev.kinds().count("set_state"):
    check(dev.state["fan"] == 80 and dev.state["turbo"] is True and dev.state["temp"] == 19.0, "second statement of the settings arrived")
dev.silent_for, dev.silent_kinds = 0, None

# 4. nobody there: exit 1 and of course nothing written
code, out = run_cli("control", free_ip(12), "eco=1")
check(code == 1 and "not online" in out, "unreachable unit -> 'not online', exit 1")

# 5. capability query of a manually addressed unit
dev.log.clear()
code, out = run_cli("query", dev.ip, "--capabilities")
print("   exit %s, unit saw %s" % (code, dev.kinds()))
check(code in (0, 1) and "capabilities" in dev.kinds(), "capabilities were queried")
if code == 0:
    check("supported_modes" in out and "supports_eco" in out, "capabilities printed")

# 6. state query prints the state
code, out = run_cli("query", dev.ip)
check(code == 0 and "'fan_speed'" in out, "state query prints the state")

# 7. bad command lines never reach the unit
dev.log.clear()
before = dev.connections
for bad in (["display=1"], ["filter_alert=0"], ["target_temperature=warm"], ["swing_mode=7"]):
    code, out = run_cli("control", dev.ip, *bad)
    check(code not in (0, None), f"{bad} rejected")
check(dev.connections == before and dev.log == [], "nothing sent for rejected command lines")

dev.close()
print("demo 2 OK")
