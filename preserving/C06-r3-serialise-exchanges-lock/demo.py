"""Demonstration for C06 (V3 handshake) - change 3: one exchange at a time per LAN object.

Runs a small simulated V3 unit on 127.0.0.1 and checks the property through
Device.authenticate / LAN.authenticate / LAN.send.  Exits 0 on the original code
and with the change applied.
"""
import asyncio
import copy
import logging
import os
import sys
import time
from hashlib import sha256

from Crypto.Cipher import AES

from msmart.base_device import Device
from msmart.const import DeviceType
from msmart.lan import LAN, AuthenticationError, _LanProtocolV3, _Packet

logging.disable(logging.CRITICAL)

DEVICE_ID = 0x1234567890


def cbc(key):
    return AES.new(key, AES.MODE_CBC, iv=bytes(16))


def v3_packet(ptype, body, pad=0):
    """8370 | size | 20 | pad<<4|type | body (body includes the 2 byte id)."""
    return b"\x83\x70" + (len(body) - 2).to_bytes(2, "big") + b"\x20" + bytes([pad << 4 | ptype]) + body


class SimUnit:
    """Simulated V3 unit. `mode` selects how the handshake reply is produced."""

    def __init__(self, token, key):
        self.token, self.key = token, key
        self.mode = "genuine"
        self.arg = None
        self.types_seen = []       # packet types received, all connections
        self.connections = 0
        self.session_key = None    # session key of the latest genuine handshake
        self.frames = []           # frames received in accepted encrypted requests
        self.rejected = 0
        self._server = None

    async def start(self):
        self._server = await asyncio.start_server(self._serve, "127.0.0.1", 0)
        return self._server.sockets[0].getsockname()[1]

    async def stop(self):
        self._server.close()
        await self._server.wait_closed()

    async def _serve(self, reader, writer):
        self.connections += 1
        session = None
        try:
            while True:
                header = await reader.readexactly(6)
                size = int.from_bytes(header[2:4], "big")
                body = await reader.readexactly(size + 2)
                ptype = header[5] & 0xF
                self.types_seen.append(ptype)
                if ptype == 0x0:
                    session = await self._handshake(header, body, writer)
                    if session == "close":
                        return
                elif ptype == 0x6:
                    self._request(header, body, writer, session)
                await writer.drain()
        except (asyncio.IncompleteReadError, ConnectionError):
            pass
        finally:
            writer.close()

    async def _handshake(self, header, body, writer):
        token = body[2:]
        mode, arg = self.mode, self.arg
        if mode == "silent":
            return None
        if mode == "close":
            writer.close()
            return "close"
        if mode == "error" or token != self.token:
            writer.write(v3_packet(0xF, body[:2] + b"ERROR"))
            return None
        nonce = os.urandom(32)
        key = self.key if mode != "otherkey" else os.urandom(32)
        reply = bytearray(cbc(key).encrypt(nonce) + sha256(nonce).digest())
        session = bytes(a ^ b for a, b in zip(nonce, self.key))
        if mode == "flip":
            reply[arg // 8] ^= 1 << (arg % 8)
        elif mode == "length":
            reply = reply[:arg] if arg <= 64 else reply + os.urandom(arg - 64)
        if mode == "type":
            # Some other packet type carrying the very same bytes
            writer.write(v3_packet(arg, body[:2] + bytes(reply)))
            return None
        writer.write(v3_packet(0x1, body[:2] + bytes(reply)))
        if mode == "genuine":
            self.session_key = session
            return session
        return None

    def _request(self, header, body, writer, session):
        if session is None:
            self.rejected += 1
            writer.write(v3_packet(0xF, body[:2] + b"ERROR"))
            return
        enc, rx_hash = body[:-32], body[-32:]
        plain = cbc(session).decrypt(enc)
        if sha256(header + plain).digest() != rx_hash:
            self.rejected += 1
            writer.write(v3_packet(0xF, b"\x00\x00ERROR"))
            return
        pad = header[5] >> 4
        frame = _Packet.decode(plain[2:len(plain) - pad])
        self.frames.append(frame)
        # Echo the frame back in an encrypted response
        data = _Packet.encode(DEVICE_ID, frame)
        rem = (len(data) + 2) % 16
        pad = 16 - rem if rem else 0
        hdr = b"\x83\x70" + (len(data) + pad + 32).to_bytes(2, "big") + b"\x20" + bytes([pad << 4 | 0x3])
        payload = plain[:2] + data + os.urandom(pad)
        writer.write(hdr + cbc(session).encrypt(payload) + sha256(hdr + payload).digest())


def check(cond, what):
    if not cond:
        print("FAIL:", what)
        sys.exit(1)


def new_device(port):
    return Device(ip="127.0.0.1", port=port, device_id=DEVICE_ID, device_type=DeviceType.AIR_CONDITIONER)


async def expect_success(unit, port, token, key, as_hex):
    unit.mode = "genuine"
    dev = new_device(port)
    before = len(unit.types_seen)
    if as_hex:
        await dev.authenticate(token.hex(), key.hex())
    else:
        await dev.authenticate(token, key)
    lan = dev._lan
    check(isinstance(lan._protocol, _LanProtocolV3) and lan._protocol.authenticated, "authenticated after genuine reply")
    check(lan._protocol._local_key == unit.session_key, "client and unit hold the same session key")
    check(dev.token == token.hex() and dev.key == key.hex(), "token/key stored after success")
    check(lan.token == token and lan.key == key, "LAN token/key are bytes")
    check(unit.types_seen[before:] == [0x0], "only a handshake request was sent")
    frame = bytes.fromhex("aa21ac8d000000000003418100ff03ff000200000000000000000000000003016971")
    responses = await lan.send(frame)
    check(unit.frames[-1] == frame and unit.rejected == 0, "unit accepted the encrypted request")
    check(responses == [frame], "encrypted response decoded")
    lan._disconnect()
    return dev


async def expect_failure(unit, port, token, key, mode, arg=None, *, client_key=None, via_lan=False):
    unit.mode, unit.arg = mode, arg
    dev = new_device(port)
    before = len(unit.types_seen)
    frames = len(unit.frames)
    try:
        if via_lan:
            await dev._lan.authenticate(token, client_key or key)
        else:
            await dev.authenticate(token, client_key or key)
    except AuthenticationError:
        pass
    else:
        check(False, f"authentication must fail for {mode} {arg}")
    lan = dev._lan
    check(lan._protocol is None or not lan._protocol.authenticated, f"unauthenticated after {mode} {arg}")
    check(lan._protocol is None or lan._protocol._local_key is None, f"no session key after {mode} {arg}")
    check(dev.token is None and dev.key is None, f"token/key not stored after {mode} {arg}")
    check(all(t == 0x0 for t in unit.types_seen[before:]) and len(unit.frames) == frames,
          f"only handshake requests sent for {mode} {arg}")
    lan._disconnect()


async def main():
    started = time.monotonic()
    token, key = os.urandom(64), os.urandom(32)
    unit = SimUnit(token, key)
    port = await unit.start()

    # Genuine replies: bytes and hex-string forms
    await expect_success(unit, port, token, key, as_hex=False)
    await expect_success(unit, port, token, key, as_hex=True)

    # Altered replies
    for bit in list(range(0, 512, 41)) + [255, 256, 511]:
        await expect_failure(unit, port, token, key, "flip", bit, via_lan=bit % 2 == 0)
    for length in (0, 1, 32, 63, 65, 80):
        await expect_failure(unit, port, token, key, "length", length)
    for ptype in (0xF, 0x3, 0x6, 0x0, 0x2):
        await expect_failure(unit, port, token, key, "type", ptype, via_lan=True)
    await expect_failure(unit, port, token, key, "error")
    await expect_failure(unit, port, token, key, "otherkey")
    await expect_failure(unit, port, token, key, "genuine", client_key=os.urandom(32))

    # Stored credentials survive a failed attempt with other credentials
    dev = await expect_success(unit, port, token, key, as_hex=False)
    unit.mode = "otherkey"
    try:
        await dev.authenticate(token, os.urandom(32))
    except AuthenticationError:
        pass
    else:
        check(False, "forged reply must fail on a device with stored credentials")
    check(dev.token == token.hex() and dev.key == key.hex(), "stored token/key not replaced")
    dev._lan._disconnect()

    # Change specific: two tasks using one object, several objects at once, copies.
    frame = bytes.fromhex("aa21ac8d000000000003418100ff03ff000200000000000000000000000003016971")
    other = bytes.fromhex("aa20ac00000000000003418100ff03ff00020000000000000000000000000301cd")
    unit.mode = "genuine"
    dev = new_device(port)
    await dev.authenticate(token, key)
    accepted = len(unit.frames)
    results = await asyncio.gather(dev._lan.send(frame), dev._lan.send(other))
    check(all(len(r) >= 1 for r in results), "overlapping sends both got a response")
    check(all(f in (frame, other) for r in results for f in r), "responses are echoes")
    check(unit.rejected == 0, "unit accepted every encrypted request of overlapping sends")
    check({frame, other} <= set(unit.frames[accepted:]), "unit received both frames")
    check(dev._lan._protocol._local_key == unit.session_key, "session key still shared")

    # Several devices authenticate at the same time, one of them against a forged reply
    devices = [new_device(port) for _ in range(3)]
    await asyncio.gather(*(d.authenticate(token, key) for d in devices))
    for d in devices:
        check(d.token == token.hex() and d._lan._protocol.authenticated, "parallel devices authenticated")
        check(await d._lan.send(frame) == [frame], "parallel devices can send")
        d._lan._disconnect()
    check(unit.rejected == 0, "nothing rejected")

    # A failed attempt while the object is otherwise idle leaves it usable
    unit.mode = "flip"
    unit.arg = 7
    try:
        await dev._lan.authenticate(os.urandom(64), os.urandom(32))
    except AuthenticationError:
        pass
    else:
        check(False, "altered reply must fail")
    check(dev.token == token.hex() and dev.key == key.hex(), "stored token/key not replaced")
    unit.mode = "genuine"
    dev._lan._disconnect()
    check(await dev._lan.send(frame) == [frame], "object usable after a failed attempt")
    check(dev._lan._protocol._local_key == unit.session_key, "same session key")
    dev._lan._disconnect()

    # Copies of an idle object keep the credentials and work on their own
    twin = copy.deepcopy(dev)
    check(twin._lan is not dev._lan and twin.token == dev.token and twin.key == dev.key, "deep copy keeps credentials")
    check(await twin._lan.send(frame) == [frame], "deep copy authenticates and sends on its own")
    check(twin._lan._protocol._local_key == unit.session_key, "deep copy shares the key with the unit")
    check(dev._lan._protocol is None, "original untouched by its copy")
    twin._lan._disconnect()

    await asyncio.sleep(0.05)
    await unit.stop()
    print(f"demo ok in {time.monotonic() - started:.1f}s, {unit.connections} connections")


if __name__ == "__main__":
    asyncio.run(main())
