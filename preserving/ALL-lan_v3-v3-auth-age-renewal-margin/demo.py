"""Demo for change 4: V3 session lifetime - re-handshake once the 12 h authentication lifetime elapsed."""
import asyncio
import datetime as real_datetime
import logging
import random
import sys
from hashlib import sha256

from Crypto.Cipher import AES

import msmart.lan as lan_module
from msmart.lan import LAN, _LanProtocolV3, _Packet

logging.disable(logging.CRITICAL)

RNG = random.Random(11)
FRAME = bytes.fromhex("aa23ac00000000000303c00145660000003c0010045c6800000000000000000000018426")


class Clock(real_datetime.datetime):
    """datetime replacement whose now() can be moved forward."""
    offset = real_datetime.timedelta(0)

    @classmethod
    def now(cls, tz=None):
        return real_datetime.datetime.now(tz) + cls.offset


def cbc(key):
    return AES.new(key, AES.MODE_CBC, iv=bytes(16))


class FakeDevice:
    """Transport stand-in: answers handshakes, and data requests with an encrypted state response."""

    def __init__(self, key):
        self.key = key
        self.log = []  # (kind, counter, session key in force)
        self.session = None
        self.proto = None
        self._closing = False

    def get_extra_info(self, name):
        return ("10.0.0.1", 6444)

    def is_closing(self):
        return self._closing

    def close(self):
        self._closing = True

    def write(self, data):
        data = bytes(data)
        ptype = data[5] & 0xF
        if ptype == 0x0:
            self.log.append(("handshake", int.from_bytes(data[6:8], "big"), data[8:]))
            nonce = RNG.randbytes(32)
            self.session = bytes(a ^ b for a, b in zip(nonce, self.key))
            reply = b"\x83\x70\x00\x40\x20\x01" + data[6:8] + cbc(self.key).encrypt(nonce) + sha256(nonce).digest()
        else:
            assert ptype == 0x6 and self.session is not None, "data before handshake"
            plain = cbc(self.session).decrypt(data[6:-32])
            assert sha256(data[:6] + plain).digest() == data[-32:], "not encrypted under the latest session key"
            self.log.append(("data", int.from_bytes(plain[:2], "big"), None))
            body = _Packet.encode(1234, FRAME)
            pad = -(len(body) + 2) % 16
            header = b"\x83\x70" + (len(body) + pad + 32).to_bytes(2, "big") + b"\x20" + bytes([pad << 4 | 0x3])
            plain = plain[:2] + body + bytes(pad)
            reply = header + cbc(self.session).encrypt(plain) + sha256(header + plain).digest()
        asyncio.get_running_loop().call_soon(self.proto.data_received, reply)


async def main():
    lan_module.datetime = Clock
    token, key = RNG.randbytes(64), RNG.randbytes(32)

    # A protocol that never authenticated is not authenticated, with or without a key
    proto = _LanProtocolV3()
    assert not proto.authenticated
    proto._local_key = bytes(32)
    assert not proto.authenticated

    lan = LAN("10.0.0.1", 6444, 1234)
    lan._protocol_version = 3
    lan._token, lan._key = token, key
    devices = []

    async def connect():
        dev = FakeDevice(key)
        dev.proto = _LanProtocolV3()
        dev.proto.connection_made(dev)
        devices.append(dev)
        lan._protocol = dev.proto
    lan._connect = connect

    # First exchange: handshake then data. Second exchange: data only
    assert await lan.send(FRAME) == [FRAME]
    assert await lan.send(FRAME) == [FRAME]
    dev = devices[0]
    assert [(k, c) for k, c, _ in dev.log] == [("handshake", 0), ("data", 1), ("data", 2)]
    assert dev.log[0][2] == token
    assert lan._protocol.authenticated

    # One hour later the session is still good
    Clock.offset += real_datetime.timedelta(hours=1)
    assert lan._protocol.authenticated
    assert await lan.send(FRAME) == [FRAME]
    assert [(k, c) for k, c, _ in dev.log][3:] == [("data", 3)]

    # Past the 12 h lifetime: not authenticated any more, next exchange starts with a handshake
    Clock.offset += real_datetime.timedelta(hours=11, seconds=1)
    assert not lan._protocol.authenticated
    old_session = dev.session
    assert await lan.send(FRAME) == [FRAME]
    assert [(k, c) for k, c, _ in dev.log][4:] == [("handshake", 4), ("data", 5)]
    assert dev.log[4][2] == token
    assert dev.session != old_session and lan._protocol._local_key == dev.session
    assert lan._protocol.authenticated
    assert len(devices) == 1, "same connection"

    # A much bigger jump behaves the same
    Clock.offset += real_datetime.timedelta(days=3)
    assert not lan._protocol.authenticated
    assert await lan.send(FRAME) == [FRAME]
    assert [(k, c) for k, c, _ in dev.log][6:] == [("handshake", 6), ("data", 7)]

    print("ok")
    return 0


if __name__ == "__main__":
    sys.exit(asyncio.run(main()))
