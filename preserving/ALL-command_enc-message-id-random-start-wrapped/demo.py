"""Demo for change 4: message id sequencing of commands.

Emits long mixed sequences of every command class and checks that the message id (second to
last body byte) advances by exactly one modulo 256 from command to command, wherever the
sequence happens to start, that the body CRC covers it, and that overriding
Command._message_id (as the project's tests do) selects the next id.
"""
import sys

import msmart.crc8 as crc8
from msmart.device.AC.command import (Command, GetCapabilitiesCommand,
                                      GetEnergyUsageCommand,
                                      GetHumidityCommand,
                                      GetPropertiesCommand, GetStateCommand,
                                      PropertyId, SetPropertiesCommand,
                                      SetStateCommand, ToggleDisplayCommand)
from msmart.frame import Frame

FACTORIES = [
    GetStateCommand,
    GetEnergyUsageCommand,
    GetHumidityCommand,
    GetCapabilitiesCommand,
    lambda: GetCapabilitiesCommand(True),
    ToggleDisplayCommand,
    SetStateCommand,
    lambda: GetPropertiesCommand([PropertyId.SWING_UD_ANGLE, PropertyId.IECO]),
    lambda: SetPropertiesCommand({PropertyId.SWING_LR_ANGLE: 50, PropertyId.BUZZER: True}),
]


def message_id(frame: bytes) -> int:
    with memoryview(frame) as mv:
        Frame.validate(mv)
    body = frame[10:-1]
    assert crc8.calculate(body[:-1]) == body[-1]
    return body[-2]


def main() -> int:
    # Wherever the process starts, ids advance by one modulo 256 for > 256 commands
    first = previous = message_id(GetStateCommand().tobytes())
    seen = {first}
    for i in range(1, 700):
        # Construction order differs from emission order for some of them
        cmds = [f() for f in (FACTORIES[i % len(FACTORIES)], FACTORIES[(i * 7) % len(FACTORIES)])]
        for cmd in cmds:
            current = message_id(cmd.tobytes())
            assert current == (previous + 1) % 256, (i, previous, current)
            previous = current
            seen.add(current)
    assert seen == set(range(256))

    # Overriding the class attribute selects the id of the next command
    for start, expect in ((0x10, [0x11, 0x12, 0x13]), (0xFE, [0xFF, 0x00, 0x01]),
                          (0, [1, 2, 3]), (0xFF, [0, 1, 2])):
        Command._message_id = start
        got = [message_id(GetStateCommand().tobytes()) for _ in expect]
        assert got == expect, (start, got)

    # The frame used by the project's own test
    Command._message_id = 0x10
    frame = GetStateCommand().tobytes()
    assert frame[10:-1] == bytes.fromhex("418100ff03ff00020000000000000000000000000311f4")

    # The same command object serialised twice is two messages
    cmd = GetHumidityCommand()
    a, b = message_id(cmd.tobytes()), message_id(cmd.tobytes())
    assert b == (a + 1) % 256

    print(f"first id of this process: {first}; OK")
    return 0


if __name__ == "__main__":
    sys.exit(main())
