"""Demonstration for C20: `msmart-ng control` applies setting=value pairs as documented.

Runs msmart.cli.main() with crafted argv against an in-process simulated air conditioner
(Device._send_command is routed to the simulator, so no sockets are used).
Exits 0 when every check holds.
"""
import contextlib
import io
import logging
import random
import sys

import msmart.base_device
import msmart.cli
import msmart.crc8 as crc8
from msmart.device import AirConditioner as AC

logging.disable(logging.CRITICAL)


def _frame(frame_type: int, payload: bytes) -> bytes:
    payload = payload + bytes([crc8.calculate(payload)])
    header = bytearray(10)
    header[0] = 0xAA
    header[1] = len(payload) + 10
    header[2] = 0xAC
    header[9] = frame_type
    frame = bytearray(header + payload)
    frame.append((~sum(frame[1:]) + 1) & 0xFF)
    return bytes(frame)


class SimAC:
    """Just enough of an air conditioner: state query, set state, display toggle, set properties."""

    FIELDS = ("power", "temp", "mode", "fan", "swing", "eco", "turbo", "sleep", "fahrenheit",
              "follow_me", "purifier", "humidity", "freeze", "aux", "indep_aux", "display")

    def __init__(self, rng: random.Random) -> None:
        self.power = rng.random() < .5
        self.temp = rng.choice([17.0, 18.5, 22.0, 25.5, 30.0])
        self.mode = rng.choice([1, 2, 3, 4, 5])
        self.fan = rng.choice([20, 40, 60, 80, 100, 102, 33, 71])
        self.swing = rng.choice([0x0, 0x3, 0xC, 0xF])
        self.eco = rng.random() < .5
        self.turbo = rng.random() < .5
        self.sleep = rng.random() < .5
        self.fahrenheit = rng.random() < .5
        self.follow_me = rng.random() < .5
        self.purifier = rng.random() < .5
        self.humidity = rng.choice([35, 40, 55, 70])
        self.freeze = rng.random() < .5
        self.aux = False
        self.indep_aux = False
        self.display = rng.random() < .5
        self.props = {}       # property id -> raw bytes written
        self.sent = []        # every frame received from the library
        self.toggles = 0
        self.sets = 0
        self.last_beep = None

    def snapshot(self) -> dict:
        return {k: getattr(self, k) for k in self.FIELDS}

    def _state(self) -> bytes:
        p = bytearray(23)
        p[0] = 0xC0
        p[1] = 0x01 if self.power else 0
        whole = int(self.temp)
        half = 0x10 if self.temp - whole else 0
        if 17 <= whole <= 30:
            p[2] = ((whole - 16) & 0xF) | half | (self.mode << 5)
        else:
            p[2] = half | (self.mode << 5)
            p[13] = (whole - 12) & 0x1F
        p[3] = self.fan
        p[4], p[5] = 0x7F, 0x7F
        p[7] = 0x30 | self.swing
        p[8] = (0x20 if self.turbo else 0) | (0x40 if self.indep_aux else 0) | (0x80 if self.follow_me else 0)
        p[9] = (0x10 if self.eco else 0) | (0x20 if self.purifier else 0) | (0x08 if self.aux else 0)
        p[10] = (0x01 if self.sleep else 0) | (0x04 if self.fahrenheit else 0)
        p[11], p[12] = 0xFF, 0xFF
        p[14] = 0 if self.display else 0x70
        p[19] = self.humidity
        p[21] = 0x80 if self.freeze else 0
        return _frame(0x03, bytes(p))

    def handle(self, data: bytes) -> list:
        self.sent.append(data)
        frame_type, p = data[9], data[10:-2]
        if p[0] == 0x41 and p[1] == 0x81:                       # state query
            return [self._state()]
        if p[0] == 0x41 and (p[1] & ~0x40) == 0x02 and p[4] == 0x02:   # display toggle
            self.toggles += 1
            self.display = not self.display
            self.last_beep = bool(p[1] & 0x40)
            return [self._state()]
        if p[0] == 0x40 and frame_type == 0x02:                 # set state
            self.sets += 1
            self.last_beep = bool(p[1] & 0x40)
            self.power = bool(p[1] & 0x01)
            alt = p[18] & 0x1F
            self.temp = float(alt + 12 if alt else (p[2] & 0xF) + 16) + (0.5 if p[2] & 0x10 else 0)
            self.mode = (p[2] >> 5) & 0x7
            self.fan = p[3]
            self.swing = p[7] & 0xF
            self.follow_me = bool(p[8] & 0x80)
            self.turbo = bool(p[8] & 0x20) or bool(p[10] & 0x02)
            self.eco = bool(p[9] & 0x80)
            self.purifier = bool(p[9] & 0x20)
            self.aux = bool(p[9] & 0x08)
            self.sleep = bool(p[10] & 0x01)
            self.fahrenheit = bool(p[10] & 0x04)
            self.humidity = p[19] & 0x7F
            self.freeze = bool(p[21] & 0x80)
            self.indep_aux = bool(p[22] & 0x08)
            return [self._state()]
        if p[0] == 0xB0 and frame_type == 0x02:                 # set properties
            rest = p[2:]
            for _ in range(p[1]):
                pid, size = rest[0] | (rest[1] << 8), rest[2]
                self.props[pid] = bytes(rest[3:3 + size])
                rest = rest[3 + size:]
            return [_frame(0x02, bytes([0xB0, 0x00]))]
        return []


SIM = None


async def _fake_send(self, command):
    return SIM.handle(command.tobytes())

msmart.base_device.Device._send_command = _fake_send


def run(*settings, seed=0, extra=()):
    """Run `msmart-ng control 10.0.0.9 <settings>`; return (exit status, simulator, state before)."""
    global SIM
    SIM = SimAC(random.Random(seed))
    before = SIM.snapshot()
    argv = ["msmart-ng", "control", "10.0.0.9", *extra, *settings]
    old = sys.argv
    sys.argv = argv
    try:
        with contextlib.redirect_stderr(io.StringIO()), contextlib.redirect_stdout(io.StringIO()):
            msmart.cli.main()
        status = 0
    except SystemExit as e:
        status = 0 if e.code is None else e.code
    except Exception:
        status = 1  # uncaught exception -> interpreter exits with status 1
    finally:
        sys.argv = old
    return status, SIM, before


FAILURES = []


def check(cond, what):
    if not cond:
        FAILURES.append(what)
        print("FAIL:", what)


def expect_applied(settings, changes, seed=0):
    """Settings accepted; device ends as reported before, except for `changes`."""
    status, sim, before = run(*settings, seed=seed)
    want = {**before, **changes}
    check(status == 0, f"{settings}: exit status {status}")
    check(sim.snapshot() == want, f"{settings}: state {sim.snapshot()} != {want}")
    return sim


def expect_rejected(*settings):
    status, sim, before = run(*settings)
    check(status != 0, f"{settings}: exit status is zero")
    check(sim.sent == [], f"{settings}: {len(sim.sent)} frames sent before rejection")
    check(sim.snapshot() == before, f"{settings}: state changed")


def spellings(name):
    return {name, name.lower(), name.upper(), name.capitalize(), name.swapcase(),
            "".join(c.upper() if i % 2 else c.lower() for i, c in enumerate(name))}


ENUMS = {
    "operational_mode": (AC.OperationalMode, "mode"),
    "fan_speed": (AC.FanSpeed, "fan"),
    "swing_mode": (AC.SwingMode, "swing"),
}

BOOLS = {
    "power_state": "power", "eco": "eco", "turbo": "turbo", "sleep": "sleep", "fahrenheit": "fahrenheit",
    "follow_me": "follow_me", "purifier": "purifier", "freeze_protection": "freeze",
}

BOOL_SPELLINGS = {"True": True, "False": False, "true": True, "false": False, "TRUE": True,
                  "FALSE": False, "tRuE": True, "1": True, "0": False}


def common_checks():
    seed = 0
    # Enumerated settings by member name in any case and by value
    for setting, (enum, field) in ENUMS.items():
        for name, member in enum.__members__.items():
            for text in sorted(spellings(name)):
                seed += 1
                expect_applied([f"{setting}={text}"], {field: int(member)}, seed)
            seed += 1
            expect_applied([f"{setting}={int(member)}"], {field: int(member)}, seed)
        expect_rejected(f"{setting}=banana")
        expect_rejected(f"{setting}=")
    expect_rejected("operational_mode=0")
    expect_rejected("operational_mode=7")
    expect_rejected("swing_mode=5")

    # Raw integers for the fan speed
    for raw in (1, 33, 50, 99, 101):
        seed += 1
        expect_applied([f"fan_speed={raw}"], {"fan": raw}, seed)

    # Aux heat is an enumeration spread over two bits
    expect_applied(["aux_mode=aux_heat"], {"aux": True, "indep_aux": False}, 3)
    expect_applied(["aux_mode=2"], {"aux": False, "indep_aux": True}, 4)
    expect_applied(["aux_mode=OFF"], {"aux": False, "indep_aux": False}, 5)

    # Enumerations carried as properties
    sim = expect_applied(["rate_select=level_3"], {}, 6)
    check(sim.props.get(0x48) == bytes([40]), "rate_select=level_3 property not written")
    sim = expect_applied(["vertical_swing_angle=50", "horizontal_swing_angle=Pos_5"], {}, 7)
    check(sim.props.get(0x09) == bytes([50]) and sim.props.get(0x0A) == bytes([100]), "swing angles not written")
    expect_rejected("rate_select=3")

    # Numbers
    for text, temp in (("17", 17.0), ("20.5", 20.5), ("30", 30.0), ("30.0", 30.0), ("16", 16.0), ("24.5", 24.5)):
        seed += 1
        expect_applied([f"target_temperature={text}"], {"temp": temp}, seed)
    for text, hum in (("35", 35), ("100", 100), ("0", 0), ("55", 55)):
        seed += 1
        expect_applied([f"target_humidity={text}"], {"humidity": hum}, seed)
    expect_rejected("target_temperature=warm")
    expect_rejected("target_humidity=damp")

    # Booleans
    for setting, field in BOOLS.items():
        for text, value in BOOL_SPELLINGS.items():
            seed += 1
            expect_applied([f"{setting}={text}"], {field: value}, seed)
        expect_rejected(f"{setting}=maybe")
    for text, value in BOOL_SPELLINGS.items():
        sim = expect_applied([f"beep={text}"], {}, 9)
        check(sim.sets == 1 and sim.last_beep is value, f"beep={text}: beep flag {sim.last_beep}")

    # Display: toggled only when different; nothing else is written for a display-only command
    for seed in range(20, 28):
        for text, value in BOOL_SPELLINGS.items():
            status, sim, before = run(f"display_on={text}", seed=seed)
            check(status == 0, f"display_on={text}: exit status {status}")
            check(sim.snapshot() == {**before, "display": value}, f"display_on={text}: wrong final state")
            check(sim.toggles == (1 if before["display"] != value else 0), f"display_on={text}: {sim.toggles} toggles")
            check(sim.sets == 0, f"display_on={text}: state written without a setting")

    # Pairs of settings
    expect_applied(["operational_mode=cool", "target_temperature=20.5"], {"mode": 2, "temp": 20.5}, 30)
    expect_applied(["fan_speed=100", "swing_mode=both"], {"fan": 100, "swing": 0xF}, 31)
    expect_applied(["eco=1", "turbo=False"], {"eco": True, "turbo": False}, 32)
    expect_applied(["turbo=False", "eco=1"], {"eco": True, "turbo": False}, 32)
    expect_applied(["power_state=true", "display_on=0"], {"power": True, "display": False}, 33)
    expect_applied(["display_on=1", "fan_speed=silent"], {"fan": 20, "display": True}, 34)
    expect_applied(["eco=1", "eco=0"], {"eco": False}, 35)
    sim = expect_applied(["operational_mode=cool", "target_temperature=20.5", "fan_speed=100",
                          "display_on=True", "beep=0"], {"mode": 2, "temp": 20.5, "fan": 100, "display": True}, 36)
    check(sim.last_beep is False, "README example: beep flag set")

    # Invalid names and values are rejected before anything is sent, also next to valid settings
    expect_rejected("no_such_setting=1")
    expect_rejected("Operational_Mode=cool")
    expect_rejected("indoor_temperature=20")
    expect_rejected("online=1")
    expect_rejected("supported_fan_speeds=1")
    expect_rejected("filter_alert=0")
    expect_rejected("refresh=1")
    expect_rejected("_fan_speed=1")
    expect_rejected("eco=1", "operational_mode=banana")
    expect_rejected("operational_mode=banana", "eco=1")
    expect_rejected("eco=1", "ip=10.0.0.1")


def frame_beep(frame):
    return bool(frame[11] & 0x40)


def is_set_state(frame):
    return frame[9] == 0x02 and frame[10] == 0x40


def is_toggle(frame):
    return frame[9] == 0x03 and frame[10] == 0x41 and (frame[11] & ~0x40) == 0x02


if __name__ == "__main__":
    common_checks()

    # beep together with display_on, in both orders, for every combination and both initial display states
    for seed in range(60, 68):
        for beep_text, beep in BOOL_SPELLINGS.items():
            for disp_text, disp in (("True", True), ("0", False)):
                for settings in ([f"beep={beep_text}", f"display_on={disp_text}"],
                                 [f"display_on={disp_text}", f"beep={beep_text}"],
                                 [f"display_on={disp_text}", f"beep={beep_text}", "fan_speed=low"]):
                    status, sim, before = run(*settings, seed=seed)
                    want = {**before, "display": disp}
                    if "fan_speed=low" in settings:
                        want["fan"] = 40
                    check(status == 0, f"{settings}: exit status {status}")
                    check(sim.snapshot() == want, f"{settings}: wrong final state")
                    check(sim.toggles == (1 if before["display"] != disp else 0), f"{settings}: {sim.toggles} toggles")
                    # The state is written once, after the toggle, with the requested beep flag
                    sets = [f for f in sim.sent if is_set_state(f)]
                    check(len(sets) == 1 and frame_beep(sets[0]) is beep, f"{settings}: set state beep flag")
                    check(is_set_state(sim.sent[-1]), f"{settings}: last command is not the set state")
                    for f in sim.sent:
                        if is_toggle(f):
                            check(sim.sent.index(f) < sim.sent.index(sets[0]), f"{settings}: toggle after set state")

    # Without a beep setting nothing beeps
    for seed in range(70, 74):
        status, sim, before = run("display_on=1", "eco=0", seed=seed)
        check(status == 0 and sim.snapshot() == {**before, "display": True, "eco": False}, "display_on=1 eco=0: wrong result")
        check(not any(frame_beep(f) for f in sim.sent if is_set_state(f) or is_toggle(f)), "display_on=1 eco=0: beeped")
        status, sim, before = run("display_on=0", seed=seed)
        check(not any(frame_beep(f) for f in sim.sent if is_toggle(f)), "display_on=0: beeped")

    print("FAILED" if FAILURES else "OK", f"({len(FAILURES)} failures)")
    sys.exit(1 if FAILURES else 0)
