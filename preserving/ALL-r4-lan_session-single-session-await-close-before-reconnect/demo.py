import asyncio
import hashlib
import logging
import os
import sys
import time

from msmart.lan import LAN, ProtocolError, Security, _Packet

TOKEN = bytes(range(64))
KEY = bytes(range(100, 132))


def _xor(a, b):
    return bytes(x ^ y for x, y in zip(a, b))


class FakeDevice:
    """Minimal loopback Midea device speaking V2 or V3.

    `plan(n, frame)` is called for the n-th data request (1-based, per device) and
    returns a list of (delay, frame) answers (possibly empty = stay silent).
    """

    def __init__(self, version=2, plan=None, close_after=None):
        self.version = version
        self.plan = plan or (lambda n, frame: [(0, b"\xaa\x01ok" + bytes([n & 0xFF]))])
        self.close_after = close_after
        self.server = None
        self.port = None
        self.connections = []   # per connection: list of events
        self.requests = 0
        self.open = 0
        self.max_open = 0
        self.log = []           # (time, connection index, event)
        self.writers = []

    async def start(self, port=0):
        self.server = await asyncio.start_server(self._handle, "127.0.0.1", port)
        self.port = self.server.sockets[0].getsockname()[1]
        return self

    async def stop(self):
        self.server.close()
        for w in self.writers:
            w.close()
        await asyncio.sleep(0.05)

    def _note(self, idx, event):
        self.log.append((time.monotonic(), idx, event))
        self.connections[idx].append(event)

    async def _handle(self, reader, writer):
        idx = len(self.connections)
        self.connections.append([])
        self.writers.append(writer)
        self.open += 1
        self.max_open = max(self.max_open, self.open)
        self._note(idx, "open")
        session = {"key": None, "count": 0}
        try:
            while True:
                if self.version == 3:
                    head = await reader.readexactly(6)
                    assert head[:2] == b"\x83\x70", head
                    size = int.from_bytes(head[2:4], "big")
                    rest = await reader.readexactly(size + 2)
                    await self._on_v3(idx, session, head, rest, writer)
                else:
                    head = await reader.readexactly(6)
                    assert head[:2] == b"\x5a\x5a", head
                    size = int.from_bytes(head[4:6], "little")
                    rest = await reader.readexactly(size - 6)
                    frame = _Packet.decode(head + rest)
                    await self._on_frame(idx, frame, lambda f: writer.write(
                        _Packet.encode(1234, f)), writer)
        except (asyncio.IncompleteReadError, ConnectionError):
            pass
        finally:
            self.open -= 1
            self._note(idx, "closed")
            writer.close()

    async def _on_frame(self, idx, frame, reply, writer):
        self.requests += 1
        n = self.requests
        self._note(idx, ("data", frame))
        for delay, answer in self.plan(n, frame):
            if delay:
                await asyncio.sleep(delay)
            reply(answer)
        await writer.drain()
        if self.close_after and n in self.close_after:
            self._note(idx, "server-close")
            writer.close()

    async def _on_v3(self, idx, session, head, rest, writer):
        ptype = head[5] & 0xF
        if ptype == 0x0:
            counter = int.from_bytes(rest[:2], "big")
            token = rest[2:]
            self._note(idx, ("handshake", counter, token))
            nonce = os.urandom(32)
            session["key"] = _xor(nonce, KEY)
            payload = Security.encrypt_aes_cbc(KEY, nonce) + hashlib.sha256(nonce).digest()
            body = bytes(2) + payload
            writer.write(b"\x83\x70" + len(payload).to_bytes(2, "big") + b"\x20\x01" + body)
            await writer.drain()
        elif ptype == 0x6:
            assert session["key"] is not None, "data before handshake"
            enc, tag = rest[:-32], rest[-32:]
            plain = Security.decrypt_aes_cbc(session["key"], enc)
            assert hashlib.sha256(head + plain).digest() == tag
            pad = head[5] >> 4
            counter = int.from_bytes(plain[:2], "big")
            inner = plain[2:len(plain) - pad]
            frame = _Packet.decode(inner)
            self._note(idx, ("counter", counter))

            def reply(answer):
                data = _Packet.encode(1234, answer)
                session["count"] += 1
                rem = (len(data) + 2) % 16
                p = 16 - rem if rem else 0
                h = b"\x83\x70" + (len(data) + p + 32).to_bytes(2, "big") + b"\x20" + bytes([p << 4 | 0x3])
                pl = session["count"].to_bytes(2, "big") + data + bytes(p)
                writer.write(h + Security.encrypt_aes_cbc(session["key"], pl) + hashlib.sha256(h + pl).digest())
            await self._on_frame(idx, frame, reply, writer)
        else:
            raise AssertionError(f"unexpected type {ptype}")

    def data_frames(self, idx=None):
        conns = self.connections if idx is None else [self.connections[idx]]
        return [e[1] for c in conns for e in c if isinstance(e, tuple) and e[0] == "data"]


def check(cond, what):
    print(("ok   " if cond else "FAIL ") + what)
    if not cond:
        sys.exit(1)


# ---------------------------------------------------------------- demo 4: closing connections and opening the next
def v3_discipline(dev):
    for events in dev.connections:
        events = [e for e in events if isinstance(e, tuple) and e[0] in ("handshake", "counter")]
        if not events:
            continue
        if events[0][0] != "handshake" or events[0][2] != TOKEN:
            return False
        if [e[1] for e in events] != [(events[0][1] + i) & 0xFFF for i in range(len(events))]:
            return False
    return True


def new_lan(dev, version):
    lan = LAN("127.0.0.1", dev.port, 1234)
    lan._token, lan._key, lan._protocol_version = TOKEN, KEY, version
    return lan


def order(dev):
    return " ".join(f"{e}{i}" for (_t, i, e) in dev.log if e in ("open", "closed"))


class StuckTransport:
    """A transport whose close() never completes (peer stopped reading, data still buffered)."""

    def __init__(self):
        self.closing = False
        self.aborted = False

    def get_extra_info(self, _name, default=None):
        return ("192.0.2.1", 6444)

    def is_closing(self):
        return self.closing

    def close(self):
        self.closing = True

    def abort(self):
        self.closing = True
        self.aborted = True

    def write(self, _data):
        pass


async def main():
    # 1. connection lifetime of 1 s on V3: each exchange finds the connection expired (the post-handshake
    #    pause alone uses it up) and gets a new connection, a handshake and only then data
    dev = await FakeDevice(3).start()
    lan = new_lan(dev, 3)
    lan.max_connection_lifetime = 1
    for i in range(3):
        res = await lan.send(b"\xaa\x10" + bytes([i]))
        check(res == [b"\xaa\x01ok" + bytes([i + 1])], f"exchange {i + 1} answered")
        await asyncio.sleep(0.05)
    check(len(dev.connections) == 3 and v3_discipline(dev), "three connections, each: handshake with the token, then data, counters +1")
    check(dev.data_frames() == [bytes([0xaa, 0x10, i]) for i in range(3)], "every request transmitted once")
    await asyncio.sleep(0.1)
    print(f"     device saw: {order(dev)}   (most connections open at once: {dev.max_open})")
    check(dev.max_open <= 2 and dev.open == 1, "old connections were closed")
    await dev.stop()

    # 2. unanswered exchange drops the connection; the next one reconnects by itself (V2 and V3)
    for version in (2, 3):
        dev = await FakeDevice(version, plan=lambda n, f: [] if n == 1 else [(0, b"\xaa\x01back")]).start()
        lan = new_lan(dev, version)
        try:
            await lan.send(b"\xaa\x10X", retries=1)
            check(False, "must time out")
        except TimeoutError as e:
            check("No response from host." in str(e), f"V{version}: silent device -> TimeoutError")
        check(lan._protocol is None and not lan._alive, "connection dropped")
        res = await lan.send(b"\xaa\x10Y", retries=1)
        check(res == [b"\xaa\x01back"] and len(dev.connections) == 2, "next exchange answered on a new connection")
        if version == 3:
            check(v3_discipline(dev), "handshake first on both connections")
        await asyncio.sleep(0.1)
        print(f"     device saw: {order(dev)}   (most connections open at once: {dev.max_open})")
        check(dev.open == 1, "first connection closed at the device")
        await dev.stop()

    # 3. hanging up on purpose
    dev = await FakeDevice(2).start()
    lan = new_lan(dev, 2)
    await lan.send(b"\xaa\x10A")
    if hasattr(lan, "disconnect"):
        await lan.disconnect()
    else:
        lan._disconnect()
    await asyncio.sleep(0.1)
    check(dev.open == 0 and not lan._alive, "device sees the connection closed")
    lan._disconnect()  # harmless when there is nothing to close
    res = await lan.send(b"\xaa\x10B")
    check(len(res) == 1 and len(dev.connections) == 2, "and the next exchange opens a new one")

    # 4. an old connection that never finishes closing cannot hold up the next exchange for long
    from msmart.lan import _LanProtocol
    lan._disconnect()
    stuck = _LanProtocol()
    transport = StuckTransport()
    stuck.connection_made(transport)
    lan._protocol = stuck
    check(lan._alive, "stand-in connection looks alive")
    lan._disconnect()
    check(transport.closing and lan._protocol is None, "told to close")
    t0 = time.monotonic()
    res = await lan.send(b"\xaa\x10C")
    took = time.monotonic() - t0
    check(len(res) == 1 and took < 1.5, f"exchange answered on a fresh connection after {took:.2f} s")
    await dev.stop()
    print("demo 4 done")


logging.basicConfig(level=logging.CRITICAL)
asyncio.run(main())
