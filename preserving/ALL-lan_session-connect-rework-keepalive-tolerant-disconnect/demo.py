"""Demo 4: LAN._connect/_disconnect: refused and hanging connects, reconnect after peer close, V2 and V3."""
# ---------------------------------------------------------------- fake device (independent of msmart's codec)
import asyncio
import logging
import os
import sys
import time
from hashlib import md5, sha256

from Crypto.Cipher import AES

SIGN_KEY = b"xhdiwjnchekd4d512chdjx5d8e4c394D2D7S"
ENC_KEY = md5(SIGN_KEY).digest()


def v2_encode(device_id: int, frame: bytes) -> bytes:
    pad = 16 - len(frame) % 16
    enc = AES.new(ENC_KEY, AES.MODE_ECB).encrypt(frame + bytes([pad]) * pad)
    length = 40 + len(enc) + 16
    head = b"\x5a\x5a\x01\x11" + length.to_bytes(2, "little") + b"\x20\x00" + bytes(4) + bytes(8) \
        + device_id.to_bytes(8, "little") + bytes(12)
    pkt = head + enc
    return pkt + md5(pkt + SIGN_KEY).digest()


def v2_decode(pkt: bytes):
    assert pkt[:2] == b"\x5a\x5a", pkt.hex()
    length = int.from_bytes(pkt[4:6], "little")
    assert length == len(pkt), (length, len(pkt))
    assert md5(pkt[:-16] + SIGN_KEY).digest() == pkt[-16:]
    plain = AES.new(ENC_KEY, AES.MODE_ECB).decrypt(pkt[40:-16])
    return int.from_bytes(pkt[20:28], "little"), plain[:-plain[-1]], pkt[12:20]


def cbc(key):
    return AES.new(key, AES.MODE_CBC, iv=bytes(16))


class FakeDevice:
    """A V2 or V3 device on 127.0.0.1. Records everything it receives, per connection."""

    def __init__(self, version: int, device_id: int, token: bytes = b"", key: bytes = b""):
        self.version, self.device_id, self.token, self.key = version, device_id, token, key
        self.handshake = "good"   # good | tamper | silent | error
        self.data = "good"        # good | silent | garbage | close | error, or an int: ignore that many requests first
        self.extra = []           # frames pushed (as proper packets) before the answer to the next request
        self.conns = []           # per connection: list of (kind, counter, payload, t)
        self.closed = []          # per connection: True once the client closed it
        self.server = None
        self.also_tried = []      # other tokens the user explicitly asked to try
        self.violations = []      # anything a spec-conforming device would object to

    async def start(self):
        self.server = await asyncio.start_server(self._serve, "127.0.0.1", 0)
        self.port = self.server.sockets[0].getsockname()[1]
        return self

    async def stop(self):
        self.server.close()

    def reply_frame(self, frame: bytes) -> bytes:
        return b"\xaa" + bytes(reversed(frame))

    # -- V3 helpers
    def _v3_packet(self, ptype: int, counter: int, payload: bytes, session_key=None) -> bytes:
        if ptype == 3:
            pad = (-(len(payload) + 2)) % 16
            header = b"\x83\x70" + (len(payload) + pad + 32).to_bytes(2, "big") + b"\x20" + bytes([pad << 4 | 3])
            plain = counter.to_bytes(2, "big") + payload + os.urandom(pad)
            return header + cbc(session_key).encrypt(plain) + sha256(header + plain).digest()
        header = b"\x83\x70" + len(payload).to_bytes(2, "big") + b"\x20" + bytes([ptype])
        return header + counter.to_bytes(2, "big") + payload

    async def _serve(self, reader, writer):
        log = []
        idx = len(self.conns)
        self.conns.append(log)
        self.closed.append(False)
        session_key = None
        ignore = 0
        try:
            while True:
                if self.version == 3:
                    head = await reader.readexactly(6)
                    assert head[:2] == b"\x83\x70" and head[4] == 0x20, head.hex()
                    size = int.from_bytes(head[2:4], "big")
                    body = await reader.readexactly(size + 2)
                    ptype = head[5] & 0xF
                    if ptype == 0:
                        counter, payload = int.from_bytes(body[:2], "big"), body[2:]
                        log.append(("handshake", counter, payload, time.monotonic()))
                        if self.handshake == "silent":
                            continue
                        if self.handshake == "error" or payload != self.token:
                            writer.write(self._v3_packet(0xF, counter, b"ERROR"))
                            continue
                        nonce = os.urandom(32)
                        reply = bytearray(cbc(self.key).encrypt(nonce) + sha256(nonce).digest())
                        if self.handshake == "tamper":
                            reply[5] ^= 0x10
                        else:
                            session_key = bytes(a ^ b for a, b in zip(nonce, self.key))
                        writer.write(self._v3_packet(1, counter, bytes(reply)))
                        continue
                    assert ptype == 6, ptype
                    assert session_key is not None, "encrypted request before a successful handshake"
                    plain = cbc(session_key).decrypt(body[:-32])
                    assert sha256(head + plain).digest() == body[-32:], "request not under the session key"
                    pad = head[5] >> 4
                    counter, v2 = int.from_bytes(plain[:2], "big"), plain[2:len(plain) - pad]
                else:
                    head = await reader.readexactly(6)
                    v2 = head + await reader.readexactly(int.from_bytes(head[4:6], "little") - 6)
                    counter = None
                dev_id, frame, stamp = v2_decode(v2)
                assert dev_id == self.device_id
                log.append(("data", counter, frame, time.monotonic(), stamp))

                def wrap(f):
                    p = v2_encode(self.device_id, f)
                    return self._v3_packet(3, 0, p, session_key) if self.version == 3 else p

                if isinstance(self.data, int) and not isinstance(self.data, bool):
                    if ignore < self.data:
                        ignore += 1
                        continue
                    ignore = 0
                    self.data = "good"
                if self.data == "silent":
                    continue
                if self.data == "close":
                    break
                if self.data == "error" and self.version == 3:
                    writer.write(self._v3_packet(0xF, 0, b"ERROR"))
                    continue
                if self.data == "garbage":
                    g = bytearray(wrap(self.reply_frame(frame)))
                    g[-3] ^= 0xFF
                    writer.write(bytes(g))
                    continue
                out = b"".join(wrap(f) for f in self.extra) + wrap(self.reply_frame(frame))
                self.extra = []
                writer.write(out)
        except (asyncio.IncompleteReadError, ConnectionError):
            self.closed[idx] = True
        except AssertionError as e:
            self.violations.append(f"connection {idx}: {e!r}")
        finally:
            writer.close()

    # -- what a checker of the stated contract would look at
    def check_session_discipline(self):
        """No violations seen by the device; per connection the first V3 packet is a handshake and counters advance by one."""
        assert not self.violations, self.violations
        if self.version != 3:
            return
        for n, log in enumerate(self.conns):
            if log:
                assert log[0][0] == "handshake", f"connection {n} does not start with a handshake"
            counters = [rec[1] for rec in log]
            for a, b in zip(counters, counters[1:]):
                assert b == (a + 1) % 4096 or b == (a + 1) % 65536, f"connection {n}: counters {counters}"
            for rec in log:
                if rec[0] == "handshake":
                    assert rec[2] == self.token or rec[2] in self.also_tried, "handshake without the configured token"
# ---------------------------------------------------------------- end of fake device

import socket

from msmart.lan import LAN, ProtocolError

logging.basicConfig(level=logging.CRITICAL)

TOKEN = bytes(range(64))
KEY = bytes(range(100, 132))
FRAME = bytes.fromhex("aa21ac8d000000000003418100ff03ff000200000000000000000000000003016971")


def free_port():
    with socket.socket() as s:
        s.bind(("127.0.0.1", 0))
        return s.getsockname()[1]


async def main():
    loop = asyncio.get_running_loop()

    # ---------------- refused connect: protocol error, quickly; works once the device is up
    port = free_port()
    lan = LAN("127.0.0.1", port, 0xABCDEF012345)
    t0 = time.monotonic()
    for _ in range(2):
        try:
            await lan.send(FRAME)
            raise SystemExit("refused connect produced a response")
        except ProtocolError:
            pass
    assert time.monotonic() - t0 < 1.0

    v2 = await FakeDevice(2, 0xABCDEF012345).start()
    lan = LAN("127.0.0.1", v2.port, v2.device_id)
    assert await lan.send(FRAME) == [v2.reply_frame(FRAME)]

    # ---------------- peer closes an idle connection: next exchange reconnects by itself
    v2.data = "close"
    try:
        await lan.send(FRAME, retries=1)
    except (ProtocolError, TimeoutError):
        pass
    v2.data = "good"
    assert await lan.send(FRAME) == [v2.reply_frame(FRAME)]
    assert len(v2.conns) == 2

    # ---------------- explicit disconnect is idempotent and the next exchange reconnects
    lan._disconnect()
    lan._disconnect()
    assert lan._protocol is None and not lan._alive
    await asyncio.sleep(0.1)
    assert v2.closed[1]
    assert await lan.send(FRAME) == [v2.reply_frame(FRAME)]
    assert len(v2.conns) == 3

    # ---------------- hanging connect: timeout after 5 s, attempt abandoned, then recovery
    real_create_connection = loop.create_connection
    state = {"started": 0, "cancelled": 0}

    async def hang(*args, **kwargs):
        state["started"] += 1
        try:
            await asyncio.sleep(3600)
        except asyncio.CancelledError:
            state["cancelled"] += 1
            raise

    lan._disconnect()
    loop.create_connection = hang
    t0 = time.monotonic()
    try:
        await lan.send(FRAME)
        raise SystemExit("hanging connect produced a response")
    except TimeoutError:
        pass
    finally:
        loop.create_connection = real_create_connection
    assert 4.8 < time.monotonic() - t0 < 6.0
    assert state == {"started": 1, "cancelled": 1}, state
    assert await lan.send(FRAME) == [v2.reply_frame(FRAME)]

    # ---------------- caller cancelled during a hanging connect: cancellation gets through, then recovery
    lan._disconnect()
    loop.create_connection = hang
    task = asyncio.ensure_future(lan.send(FRAME))
    await asyncio.sleep(0.3)
    task.cancel()
    try:
        await task
        raise SystemExit("cancelled connect produced a response")
    except (asyncio.CancelledError, TimeoutError):
        pass
    finally:
        loop.create_connection = real_create_connection
    assert state == {"started": 2, "cancelled": 2}, state
    assert await lan.send(FRAME) == [v2.reply_frame(FRAME)]
    v2.check_session_discipline()
    await v2.stop()

    # ---------------- V3: protocol class follows the version; unsolicited frames are drained in order
    v3 = await FakeDevice(3, 0x1234567890AB, TOKEN, KEY).start()
    lan = LAN("127.0.0.1", v3.port, v3.device_id)
    await lan.authenticate(TOKEN, KEY)
    assert type(lan._protocol).__name__ == "_LanProtocolV3" and lan._alive
    v3.extra = [FRAME[:10], FRAME[:20], FRAME[:30]]
    assert await lan.send(FRAME) == [FRAME[:10], FRAME[:20], FRAME[:30], v3.reply_frame(FRAME)]
    assert [x async for x in lan._read_available()] == []
    lan._disconnect()
    assert await lan.send(FRAME) == [v3.reply_frame(FRAME)]
    assert [[r[0] for r in log] for log in v3.conns] == [["handshake", "data"]] * 2
    v3.check_session_discipline()
    await v3.stop()
    print("demo 4 ok")


asyncio.run(main())
