"""Demonstration for change 3 (repeat diagnostics quietened, monotonic exchange timing).

Exercises: capability records interpreted independently and identical result whether the
records arrive in one response or split across a first and an additional response; the result
doesn't depend on what was parsed (and logged) before; unknown records are still reported in the
log; a stepping wall clock doesn't disturb the query.
"""
import asyncio
import time
from unittest.mock import patch
import logging
import random
import sys

import msmart.crc8 as crc8
from msmart.const import DeviceType, FrameType
from msmart.device import AirConditioner as AC
from msmart.device.AC.command import CapabilitiesResponse, CapabilityId, Response
from msmart.frame import Frame



class Keep(logging.Handler):
    def __init__(self):
        super().__init__(logging.DEBUG)
        self.records = []

    def emit(self, rec):
        self.records.append((rec.levelno, rec.getMessage()))


KEEP = Keep()
logging.getLogger("msmart").addHandler(KEEP)
logging.getLogger("msmart").setLevel(logging.DEBUG)
logging.getLogger("msmart").propagate = False

ATTRS = [
    "supported_operation_modes", "supported_swing_modes", "supported_fan_speeds",
    "supports_custom_fan_speed", "supports_eco", "supports_ieco", "supports_turbo",
    "supports_freeze_protection", "supports_display_control", "supports_filter_reminder",
    "supports_purifier", "supports_humidity", "supports_target_humidity", "supports_self_clean",
    "supports_breeze_away", "supports_breeze_mild", "supports_breezeless",
    "supports_horizontal_swing_angle", "supports_vertical_swing_angle",
    "supported_rate_selects", "supported_aux_modes",
    "min_target_temperature", "max_target_temperature",
]


def record(cap_id, values):
    return int(cap_id).to_bytes(2, "little") + bytes([len(values)]) + bytes(values)


def frame(records, more):
    payload = bytes([0xB5, len(records)]) + b"".join(records) + bytes([1 if more else 0, 0])
    payload += bytes([crc8.calculate(payload)])
    return Frame(DeviceType.AIR_CONDITIONER, FrameType.QUERY).tobytes(payload)


def parse(records, more=False):
    resp = Response.construct(frame(records, more))
    assert isinstance(resp, CapabilitiesResponse), resp
    return resp


def expected_raw(records):
    """Interpret each record alone and merge in order."""
    out = {}
    for r in records:
        out.update(parse([r]).raw_capabilities)
    return out


def random_records(rng, n):
    ids = [int(c) for c in CapabilityId] + [0x0777, 0x02FF, 0x1234]
    recs = []
    for _ in range(n):
        cap = rng.choice(ids)
        size = rng.choice([0, 1, 1, 1, 2, 3, 5, 6, 7, 10])
        if cap == CapabilityId.TEMPERATURES:
            size = rng.choice([1, 3, 5, 6, 7, 8])
        recs.append(record(cap, [rng.randrange(256) for _ in range(size)]))
    return recs


class FakeLan:
    """Stands in for LAN: answers the capability query and the additional query."""

    def __init__(self, first, second=None):
        self.first, self.second = first, second
        self.requests = []
        self.key = self.token = None

    async def send(self, data, retries=3):
        self.requests.append(data)
        await asyncio.sleep(0)  # let other tasks run, like a real exchange would
        assert data[10] == 0xB5, data.hex()
        additional = data[11:14] == bytes([0x01, 0x01, 0x01])
        await asyncio.sleep(0)
        if additional:
            return [] if self.second is None else [frame(self.second, False)]
        return [frame(self.first, self.second is not None)]


def new_device(first, second=None):
    dev = AC(ip="127.0.0.1", port=6444, device_id=1234)
    dev._lan = FakeLan(first, second)
    return dev


def snapshot(dev):
    snap = {a: getattr(dev, a) for a in ATTRS}
    snap["_supported_properties"] = set(dev._supported_properties)
    snap["_request_energy_usage"] = dev._request_energy_usage
    return snap


def reference(records):
    """What a device reports when given each record alone, merged in order."""
    merged = parse([])
    merged._capabilities.clear()
    merged._capabilities.update(expected_raw(records))
    dev = AC(ip="127.0.0.1", port=6444, device_id=1234)
    dev._update_capabilities(merged)
    return snapshot(dev)


async def check_list(records):
    want_raw = expected_raw(records)
    assert dict(parse(records).raw_capabilities) == want_raw, records
    want = reference(records)

    # One response
    dev = new_device(records)
    await dev.get_capabilities()
    assert snapshot(dev) == want, ("single", records)
    assert len(dev._lan.requests) == 1

    # Every split point
    for k in range(len(records) + 1):
        dev = new_device(records[:k], records[k:])
        await dev.get_capabilities()
        assert snapshot(dev) == want, ("split", k, records)
        assert len(dev._lan.requests) == 2


def check_logs():
    """Unknown and unsupported records are reported, repeats may be quieter but never lost."""
    recs = [record(0x0ABC, [1, 2]), record(CapabilityId.PRESET_ECO, [1]),
            record(CapabilityId.BODY_CHECK, [1]), record(CapabilityId.PRESET_TURBO, [1])]
    want = expected_raw([record(CapabilityId.PRESET_ECO, [1]), record(CapabilityId.PRESET_TURBO, [1])])

    del KEEP.records[:]
    first = parse(recs)
    msgs = list(KEEP.records)
    assert any(lvl == logging.WARNING and "Unknown capability ID: 0x0ABC, Size: 2." in m for lvl, m in msgs), msgs
    assert any(lvl == logging.INFO and "Unsupported capability <CapabilityId.BODY_CHECK: 564>, Size: 1." in m
               for lvl, m in msgs), msgs
    assert dict(first.raw_capabilities) == want

    for _ in range(3):
        del KEEP.records[:]
        again = parse(recs)
        msgs = list(KEEP.records)
        assert any("Unknown capability ID: 0x0ABC, Size: 2." in m for _, m in msgs), msgs
        assert any("Unsupported capability <CapabilityId.BODY_CHECK: 564>, Size: 1." in m for _, m in msgs), msgs
        assert dict(again.raw_capabilities) == want

    # Neighbours of a skipped record are interpreted the same, whatever was seen before
    for a, b in [(0x0ABC, 0x0ABD), (0x0ABD, 0x0ABC)]:
        r = [record(a, [9]), record(CapabilityId.MODES, [1]), record(b, []), record(CapabilityId.SWING_MODES, [3])]
        assert dict(parse(r).raw_capabilities) == expected_raw(r)


async def check_clock(records, k):
    """Wall clock steps backwards and forwards during the query."""
    want = reference(records)
    steps = iter([1e9, 5.0, 2e9, 0.0, 1e9 + 1, 3.0] * 50)
    with patch("time.time", side_effect=lambda: next(steps)):
        dev = new_device(records[:k], records[k:])
        await dev.get_capabilities()
    assert snapshot(dev) == want


def main():
    rng = random.Random(153)

    check_logs()

    fixed = [
        [record(CapabilityId.MODES, [1]), record(0x0777, [1, 2, 3]), record(CapabilityId.PRESET_ECO, [1])],
        [record(CapabilityId.TEMPERATURES, [1, 2, 3]), record(CapabilityId.FAN_SPEED_CONTROL, [7])],
        [record(CapabilityId.SWING_MODES, []), record(CapabilityId.SWING_MODES, [1]),
         record(CapabilityId.TEMPERATURES, [32, 60, 34, 58, 36, 56, 1]), record(CapabilityId.ENERGY, [2])],
        [record(CapabilityId.RATE_SELECT, [2]), record(CapabilityId.RATE_SELECT, [0]),
         record(CapabilityId.ENERGY, [3]), record(CapabilityId.ENERGY, [0])],
        [],
    ]
    lists = fixed + [random_records(rng, rng.randrange(1, 13)) for _ in range(60)]

    async def run_all():
        for recs in lists:
            await check_list(recs)
        for recs in lists[:15]:
            await check_clock(recs, len(recs) // 2)
        # Same lists again: nothing learnt during the first pass changes the outcome
        for recs in lists:
            await check_list(recs)

    asyncio.run(run_all())

    print("demo3 OK: %d record lists" % len(lists))
    return 0


if __name__ == "__main__":
    sys.exit(main())
