"""Demo for change 3: V3 handshake - key agreement when genuine, AuthenticationError otherwise."""
import asyncio
import logging
import random
import sys
from hashlib import sha256

from Crypto.Cipher import AES

from msmart.lan import LAN, AuthenticationError, _LanProtocolV3

logging.disable(logging.CRITICAL)

RNG = random.Random(7)


def cbc(key):
    return AES.new(key, AES.MODE_CBC, iv=bytes(16))


class FakeDevice:
    """Transport stand-in that answers handshake requests. 'mangle' alters the raw reply packet."""

    def __init__(self, key, mangle=None, silent=False):
        self.key, self.mangle, self.silent = key, mangle, silent
        self.written = []
        self.session = None
        self.proto = None
        self._closing = False

    # asyncio.Transport API used by the protocol
    def get_extra_info(self, name):
        return ("10.0.0.1", 6444)

    def is_closing(self):
        return self._closing

    def close(self):
        self._closing = True

    def write(self, data):
        self.written.append(bytes(data))
        ptype = data[5] & 0xF
        if ptype == 0x0 and not self.silent:
            nonce = RNG.randbytes(32)
            payload = cbc(self.key).encrypt(nonce) + sha256(nonce).digest()
            reply = b"\x83\x70\x00\x40\x20\x01" + data[6:8] + payload
            if self.mangle:
                reply = self.mangle(reply)
            else:
                self.session = bytes(a ^ b for a, b in zip(nonce, self.key))
            asyncio.get_running_loop().call_soon(self.proto.data_received, reply)


def attach(device):
    proto = _LanProtocolV3()
    device.proto = proto
    proto.connection_made(device)
    return proto


def check_handshake_requests(device, token, first_id=0):
    """Everything written so far is a handshake request carrying the token, ids consecutive."""
    for i, pkt in enumerate(device.written):
        assert pkt[:2] == b"\x83\x70" and pkt[4] == 0x20 and pkt[5] == 0x00, pkt.hex()
        assert int.from_bytes(pkt[2:4], "big") == len(token)
        assert int.from_bytes(pkt[6:8], "big") == first_id + i
        assert pkt[8:] == token


async def expect_auth_error(proto, token, key):
    try:
        await proto.authenticate(token, key)
    except AuthenticationError:
        return
    raise AssertionError("AuthenticationError expected")


async def main():
    token, key = RNG.randbytes(64), RNG.randbytes(32)

    # Genuine device: both ends agree on the session key
    dev = FakeDevice(key)
    proto = attach(dev)
    assert not proto.authenticated
    await proto.authenticate(token, key)
    assert proto.authenticated and proto._local_key == dev.session
    check_handshake_requests(dev, token)

    # Data now flows under the session key with the next counter value
    proto.write(b"hello world")
    pkt = dev.written[-1]
    assert pkt[5] & 0xF == 0x6
    plain = cbc(dev.session).decrypt(pkt[6:-32])
    assert sha256(pkt[:6] + plain).digest() == pkt[-32:]
    assert plain[:2] == b"\x00\x01" and plain[2:len(plain) - (pkt[5] >> 4)] == b"hello world"

    # And the device's encrypted answer is readable
    body = b"\x00\x09" + b"response!" + bytes(5)
    header = b"\x83\x70" + (len(body) - 2 + 32).to_bytes(2, "big") + b"\x20" + bytes([5 << 4 | 0x3])
    proto.data_received(header + cbc(dev.session).encrypt(body) + sha256(header + body).digest())
    assert await proto.read() == b"response!"

    # Missing credentials
    for t, k in ((None, key), (token, None), (b"", key), (None, None)):
        await expect_auth_error(attach(FakeDevice(key)), t, k)

    # Every single bit flip of the 64 byte reply payload
    for bit in range(64 * 8):
        def flip(reply, bit=bit):
            bad = bytearray(reply)
            bad[8 + bit // 8] ^= 1 << (bit % 8)
            return bytes(bad)
        dev = FakeDevice(key, mangle=flip)
        proto = attach(dev)
        await expect_auth_error(proto, token, key)
        assert not proto.authenticated
        check_handshake_requests(dev, token)

    # Wrong length, error packet, other packet types, reply under another key
    def relen(n):
        def f(reply):
            body = (reply[8:] + bytes(64))[:n]
            return b"\x83\x70" + n.to_bytes(2, "big") + b"\x20\x01" + reply[6:8] + body
        return f

    def retype(t):
        return lambda reply: reply[:5] + bytes([t]) + reply[6:]

    def other_key(reply):
        nonce = RNG.randbytes(32)
        return reply[:8] + cbc(RNG.randbytes(32)).encrypt(nonce) + sha256(nonce).digest()

    manglers = [relen(n) for n in (0, 1, 32, 63, 65, 96)] + \
        [retype(t) for t in (0x0, 0x3, 0x6, 0xF, 0x2)] + [other_key]
    for mangle in manglers:
        dev = FakeDevice(key, mangle=mangle)
        proto = attach(dev)
        await expect_auth_error(proto, token, key)
        assert not proto.authenticated
        check_handshake_requests(dev, token)

    # Failed re-authentication on an established session is an authentication error,
    # and a following genuine handshake works with consecutive packet ids
    dev = FakeDevice(key)
    proto = attach(dev)
    await proto.authenticate(token, key)
    dev.mangle = retype(0xF)
    await expect_auth_error(proto, token, key)
    dev.mangle = None
    await proto.authenticate(token, key)
    assert proto.authenticated and proto._local_key == dev.session
    check_handshake_requests(dev, token)
    assert len(dev.written) == 3

    # Silent device: timeout, still unauthenticated, only a handshake request went out
    dev = FakeDevice(key, silent=True)
    proto = attach(dev)
    try:
        await proto.authenticate(token, key)
    except (TimeoutError, asyncio.TimeoutError):
        pass
    else:
        raise AssertionError("timeout expected")
    assert not proto.authenticated
    check_handshake_requests(dev, token)

    # Through LAN with hex string credentials; stored token/key only replaced on success
    lan = LAN("10.0.0.1", 6444, 1234)
    dev = FakeDevice(key)

    async def connect():
        lan._protocol = attach(dev)
    lan._connect = connect
    await lan.authenticate(token.hex(), key.hex())
    assert lan.token == token and lan.key == key
    assert lan._protocol.authenticated and lan._protocol._local_key == dev.session

    dev.mangle = other_key
    try:
        await lan.authenticate(RNG.randbytes(64), RNG.randbytes(32))
    except AuthenticationError:
        pass
    else:
        raise AssertionError("AuthenticationError expected")
    assert lan.token == token and lan.key == key

    print("ok")
    return 0


if __name__ == "__main__":
    sys.exit(asyncio.run(main()))
