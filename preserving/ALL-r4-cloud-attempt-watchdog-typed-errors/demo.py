"""Demo 2: how failures of a cloud request surface (timeouts, HTTP failures, API error codes).

Conforming fake NetHome Plus and SmartHome servers on httpx.MockTransport. Checks exception
classes (CloudError / ApiError, whatever the subclass or message), chaining, attempt counts and
the per-phase HTTP timeouts, for all fault sequences up to the budget of three.
"""
import asyncio
import hashlib
import hmac
import itertools
import json
import logging
import sys
from urllib.parse import parse_qsl, unquote_plus, urlencode

import httpx

from msmart.cloud import ApiError, CloudError, NetHomePlusCloud, SmartHomeCloud

logging.basicConfig(level=logging.DEBUG, stream=sys.stdout, format="  log %(levelname)s %(message)s")
logging.getLogger("httpx").setLevel(logging.WARNING)
logging.getLogger("httpcore").setLevel(logging.WARNING)

NH_KEY = "3742e9e5842d4ad59c2db887e12449f9"
ACCOUNT, PASSWORD = "someone@example.com", "pass-word-1"
LOGIN_ID = "0123456789abcdef0123456789abcdef"


def check(cond, what):
    if not cond:
        print("FAIL:", what)
        sys.exit(1)
    print("ok:", what)


class Base:
    def __init__(self):
        self.script, self.count, self.problems, self.timeouts = [], 0, [], []

    def client(self, *a, **k):
        return httpx.AsyncClient(transport=httpx.MockTransport(self.handle))

    def fault(self, request):
        self.count += 1
        self.timeouts.append(request.extensions.get("timeout"))
        action = self.script.pop(0) if self.script else "ok"
        if action == "timeout-read":
            raise httpx.ReadTimeout("scripted", request=request)
        if action == "timeout-connect":
            raise httpx.ConnectTimeout("scripted", request=request)
        if action == "timeout-pool":
            raise httpx.PoolTimeout("scripted", request=request)
        if action == "refused":
            raise httpx.ConnectError("scripted refusal", request=request)
        if action == "reset":
            raise httpx.ReadError("scripted reset", request=request)
        if action.startswith("http"):
            return httpx.Response(int(action[4:]), text="scripted")
        return action


class NetHome(Base):
    async def handle(self, request):
        path = request.url.path
        f = dict(parse_qsl(request.content.decode(), keep_blank_values=True))
        sign = f.pop("sign", "")
        q = unquote_plus(urlencode(sorted(f.items())))
        if sign != hashlib.sha256((path + q + NH_KEY).encode()).hexdigest():
            self.problems.append("signature " + path)
        action = self.fault(request)
        if not isinstance(action, str):
            return action
        if action.startswith("api"):
            return httpx.Response(200, text=json.dumps({"errorCode": action[3:], "msg": "scripted api error"}))
        if path.endswith("/login/id/get"):
            res = {"loginId": LOGIN_ID}
        elif path.endswith("/user/login"):
            h = hashlib.sha256(PASSWORD.encode()).hexdigest()
            if f.get("password") != hashlib.sha256((LOGIN_ID + h + NH_KEY).encode()).hexdigest():
                self.problems.append("password")
            res = {"sessionId": "sess-1"}
        else:
            if f.get("sessionId") != "sess-1":
                self.problems.append("session")
            res = {"tokenlist": [{"udpId": "aa" * 16, "token": "t" * 128, "key": "k" * 64},
                                 {"udpId": "ab" * 16, "token": "u" * 128, "key": "l" * 64}]}
        return httpx.Response(200, text=json.dumps({"errorCode": "0", "result": res}))


class SmartHome(Base):
    async def handle(self, request):
        body = request.content.decode()
        good = hmac.new(b"PROD_VnoClJI9aikS8dyy", ("meicloud" + body + request.headers["random"]).encode(),
                        hashlib.sha256).hexdigest()
        if request.headers.get("sign") != good:
            self.problems.append("signature")
        alias = request.url.params["alias"]
        action = self.fault(request)
        if not isinstance(action, str):
            return action
        if action.startswith("api"):
            return httpx.Response(200, text=json.dumps({"code": action[3:], "msg": "scripted api error"}))
        data = {"loginId": LOGIN_ID} if alias.endswith("id/get") else {"mdata": {"accessToken": "acc-1"}, "uid": 1}
        return httpx.Response(200, text=json.dumps({"code": 0, "msg": "ok", "data": data}))


TIMEOUTS = ["timeout-read", "timeout-connect", "timeout-pool"]


async def expect(coro_fn, srv, script, exc, attempts, what):
    srv.script, srv.count = list(script), 0
    try:
        result = await coro_fn()
    except Exception as e:  # pylint: disable=broad-except
        check(exc is not None and isinstance(e, exc), f"{what}: raises {type(e).__name__} ({e})")
        check(str(e) != "", f"{what}: has a message")
        if not isinstance(e, ApiError):
            check(e.__cause__ is not None or "status" in str(e).lower() or "http" in str(e).lower(),
                  f"{what}: cause is chained or described")
    else:
        check(exc is None, f"{what}: returns {result!r:.40}")
    check(srv.count == attempts, f"{what}: {attempts} attempt(s)")
    srv.script = []


async def main():
    nh = NetHome()
    cloud = NetHomePlusCloud("US", account=ACCOUNT, password=PASSWORD, get_async_client=nh.client)
    await cloud.login()
    udpid = "ab" * 16

    async def get():
        return await cloud.get_token(udpid)

    check(await get() == ("u" * 128, "l" * 64), "matching entry returned")

    # every sequence of timeouts before an answer or another fault, up to the budget
    for n in range(0, 4):
        for seq in itertools.product(TIMEOUTS, repeat=n):
            if n == 3:
                await expect(get, nh, seq, CloudError, 3, f"timeouts {seq}")
                continue
            await expect(get, nh, seq + ("ok",), None, n + 1, f"{n} timeout(s) {seq} then answer")
        if n < 3:
            t = tuple(TIMEOUTS[:n])
            await expect(get, nh, t + ("http503",), CloudError, n + 1, f"{n} timeout(s) then HTTP 503")
            await expect(get, nh, t + ("http404",), CloudError, n + 1, f"{n} timeout(s) then HTTP 404")
            await expect(get, nh, t + ("http302",), CloudError, n + 1, f"{n} timeout(s) then HTTP 302")
            await expect(get, nh, t + ("refused",), CloudError, n + 1, f"{n} timeout(s) then refused")
            await expect(get, nh, t + ("reset",), CloudError, n + 1, f"{n} timeout(s) then reset")
            await expect(get, nh, t + ("api3106",), ApiError, n + 1, f"{n} timeout(s) then API error")

    # an API error keeps its code and message
    nh.script = ["api3176"]
    try:
        await get()
    except ApiError as e:
        check(e.code == 3176 and e.message == "scripted api error" and "3176" in str(e), "ApiError keeps code/message")

    # login flow failures on a fresh object, recovery afterwards
    fresh = NetHomePlusCloud("US", account=ACCOUNT, password=PASSWORD, get_async_client=nh.client)
    await expect(fresh.login, nh, TIMEOUTS, CloudError, 3, "login: login-id request times out")
    await expect(fresh.login, nh, ["ok", "api3102"], ApiError, 2, "login: API error on login request")
    await expect(fresh.login, nh, ["timeout-read", "ok"], None, 2, "login: recovers (login id was kept)")
    check(fresh._session_id == "sess-1", "session id stored")

    # the per-phase timeouts given to the HTTP stack
    check(all(t == {"connect": 10.0, "read": 10.0, "write": 10.0, "pool": 10.0} for t in nh.timeouts),
          "every attempt used 10 s connect/read/write/pool timeouts")

    # SmartHome cloud
    sh = SmartHome()
    sc = SmartHomeCloud("US", account=ACCOUNT, password=PASSWORD, get_async_client=sh.client)
    await expect(sc.login, sh, TIMEOUTS, CloudError, 3, "smarthome login: three timeouts")
    await expect(sc.login, sh, ["http500"], CloudError, 1, "smarthome login: HTTP 500")
    await expect(sc.login, sh, ["ok", "api40004"], ApiError, 2, "smarthome login: API error")
    await expect(sc.login, sh, ["timeout-connect", "timeout-read", "ok"], None, 3, "smarthome login: recovers")
    check(sc._access_token == "acc-1", "access token stored")

    check(not nh.problems and not sh.problems, "servers saw only conforming requests")


asyncio.run(main())
