"""Demo 4: cloud login / token retrieval during discovery with auto-connect.

No network: in-memory datagram endpoint, a fake NetHome Plus cloud behind httpx.MockTransport
and fake device authentication/refresh. Checks that V3 devices are authenticated with the
credentials registered for the id derived from their device id in either byte order, that
cloud failures surface as CloudError within the retry budget and that later runs recover.
"""
import asyncio
import logging
import sys

from Crypto.Cipher import AES
from Crypto.Util import Padding
from hashlib import md5

from msmart.const import DISCOVERY_MSG, DeviceType
from msmart.device import AirConditioner, Device
from msmart.discover import Discover

logging.basicConfig(level=logging.CRITICAL)
logging.getLogger('asyncio').setLevel(logging.CRITICAL + 1)

SIGN_KEY = b"xhdiwjnchekd4d512chdjx5d8e4c394D2D7S"
ENC_KEY = md5(SIGN_KEY).digest()


def make_reply(version, device_id, port, sn, name, reported_ip):
    body = bytes(reversed([int(x) for x in reported_ip.split(".")]))
    body += port.to_bytes(4, "little")
    body += sn.encode().ljust(32, b"0")[:32]
    body += bytes([len(name)]) + name.encode()
    body += bytes(10)
    enc = AES.new(ENC_KEY, AES.MODE_ECB).encrypt(Padding.pad(body, 16))
    total = 40 + len(enc) + 16
    hdr = bytearray(40)
    hdr[0:2] = b"\x5a\x5a"
    hdr[2:4] = b"\x01\x11"
    hdr[4:6] = total.to_bytes(2, "little")
    hdr[6:8] = b"\x7a\x80"
    hdr[20:26] = device_id.to_bytes(6, "little")
    pkt = bytes(hdr) + enc
    pkt += md5(pkt + SIGN_KEY).digest()
    if version == 3:
        pkt = b"\x83\x70" + len(pkt).to_bytes(2, "big") + b"\x20\x0f\x00\x00" + pkt + bytes(range(16))
    return pkt


class FakeSocket:
    def setsockopt(self, *args):
        pass


class FakeTransport(asyncio.DatagramTransport):
    """In-memory datagram transport: records probes, lets fake hosts answer them."""

    def __init__(self, loop, protocol, hosts):
        super().__init__()
        self.loop = loop
        self.protocol = protocol
        self.hosts = hosts  # ip -> reply bytes
        self.sent = []  # (time, data, addr)
        self.closed = False

    def get_extra_info(self, name, default=None):
        return FakeSocket() if name == "socket" else default

    def sendto(self, data, addr=None):
        assert not self.closed
        self.sent.append((self.loop.time(), bytes(data), addr))
        if addr[1] == 6445:
            for ip, reply in self.hosts.items():
                # Every host answers every probe -> duplicates
                self.loop.call_later(0.01, self._deliver, reply, (ip, 6445))

    def _deliver(self, data, addr):
        if not self.closed:
            self.protocol.datagram_received(data, addr)

    def is_closing(self):
        return self.closed

    def close(self):
        if not self.closed:
            self.closed = True
            self.loop.call_soon(self.protocol.connection_lost, None)

    def abort(self):
        self.close()


async def run_discovery(hosts, **kwargs):
    loop = asyncio.get_event_loop()
    created = []

    async def fake_endpoint(factory, *args, **kw):
        protocol = factory()
        transport = FakeTransport(loop, protocol, hosts)
        created.append(transport)
        protocol.connection_made(transport)
        return transport, protocol

    orig = loop.create_datagram_endpoint
    loop.create_datagram_endpoint = fake_endpoint
    try:
        devices = await Discover.discover(**kwargs)
    finally:
        loop.create_datagram_endpoint = orig
    await asyncio.sleep(0.05)
    return devices, created[0]


def check(cond, msg):
    if not cond:
        print("FAIL:", msg)
        sys.exit(1)




import hashlib
import json
from unittest import mock
from urllib.parse import parse_qs

import httpx

from msmart.cloud import CloudError
from msmart.lan import AuthenticationError, Security

APP_KEY = "3742e9e5842d4ad59c2db887e12449f9"
ACCOUNT, PASSWORD = "user@example.com", "secret-pw"


class FakeCloud:
    def __init__(self):
        self.creds = {}  # udpid -> (token, key)
        self.requests = []  # endpoint names
        self.fail_login_id = None  # API error code
        self.timeout_get_token = False
        self.sessions = set()
        self.problems = []

    def register(self, device_id, endian, decoy_other=True):
        udpid = Security.udpid(device_id.to_bytes(6, endian)).hex()
        token, key = hashlib.sha512(udpid.encode()).hexdigest(), hashlib.sha256(udpid.encode()).hexdigest()
        self.creds[udpid] = (token, key)
        other = Security.udpid(device_id.to_bytes(6, "big" if endian == "little" else "little")).hex()
        if other != udpid:
            # The cloud hands out *some* token for the other id as well, the device won't accept it
            self.creds[other] = ("00" * 64, "11" * 32)
        return token, key

    async def handler(self, request):
        # Some latency so that concurrent users of the cloud really overlap
        await asyncio.sleep(0.01)
        path = request.url.path
        form = {k: v[0] for k, v in parse_qs(request.content.decode(), keep_blank_values=True).items()}
        self.requests.append(path)

        def ok(result):
            return httpx.Response(200, text=json.dumps({"errorCode": "0", "msg": "ok", "result": result}))

        def err(code, msg):
            return httpx.Response(200, text=json.dumps({"errorCode": str(code), "msg": msg}))

        if path == "/v1/user/login/id/get":
            if self.fail_login_id is not None:
                return err(self.fail_login_id, "no such account")
            if form.get("loginAccount") != ACCOUNT:
                self.problems.append("wrong account")
            return ok({"loginId": "login-id-123"})
        if path == "/v1/user/login":
            m1 = hashlib.sha256(PASSWORD.encode()).hexdigest()
            expect = hashlib.sha256(("login-id-123" + m1 + APP_KEY).encode()).hexdigest()
            if form.get("password") != expect:
                self.problems.append("wrong password derivation")
                return err(3102, "bad password")
            session = "session-%d" % len(self.requests)
            self.sessions.add(session)
            return ok({"sessionId": session})
        if path == "/v1/iot/secure/getToken":
            if self.timeout_get_token:
                raise httpx.ReadTimeout("timed out", request=request)
            if form.get("sessionId") not in self.sessions:
                self.problems.append("getToken without valid session")
                return err(3106, "invalid session")
            udpid = form.get("udpid")
            entries = [{"udpId": "ff" * 16, "token": "22" * 64, "key": "33" * 32}]
            if udpid in self.creds:
                entries.append({"udpId": udpid, "token": self.creds[udpid][0], "key": self.creds[udpid][1]})
            entries.append({"udpId": "ee" * 16, "token": "44" * 64, "key": "55" * 32})
            return ok({"tokenlist": entries})
        return httpx.Response(404)

    def client(self):
        return httpx.AsyncClient(transport=httpx.MockTransport(self.handler))


async def main():
    accepted = {}  # device id -> (token, key) the device accepts
    auth_log = []  # (device id, token, key, ok)
    refreshed = []

    async def fake_authenticate(self, token, key):
        await asyncio.sleep(0.01)
        good = accepted.get(self.id) == (token, key)
        auth_log.append((self.id, token, key, good))
        if not good:
            raise AuthenticationError("rejected")
        self._authed = True

    async def fake_refresh(self):
        if self.version == 3 and not getattr(self, "_authed", False):
            raise AssertionError("refresh of unauthenticated V3 device")
        refreshed.append(self.id)

    def reset():
        auth_log.clear()
        refreshed.clear()

    ID_LITTLE, ID_BIG, ID_PAL, ID_BAD, ID_V2, ID_PALBAD = 0x0102030405A6, 0x0A0B0C0D0E0F, 0xFFFFFFFFFFFF, 0x424242420000, 0x5555, 0x010203030201
    ips = {ID_LITTLE: "10.0.0.1", ID_BIG: "10.0.0.2", ID_PAL: "10.0.0.3", ID_BAD: "10.0.0.4", ID_V2: "10.0.0.5", ID_PALBAD: "10.0.0.6"}

    def hosts(*ids):
        return {ips[i]: make_reply(2 if i == ID_V2 else 3, i, 6444, "%032d" % i, "net_ac_%04X" % (i & 0xFFFF), ips[i]) for i in ids}

    cloud = FakeCloud()
    accepted[ID_LITTLE] = cloud.register(ID_LITTLE, "little")
    accepted[ID_BIG] = cloud.register(ID_BIG, "big")
    accepted[ID_PAL] = cloud.register(ID_PAL, "big")
    cloud.register(ID_BAD, "little")
    accepted[ID_BAD] = ("77" * 64, "88" * 32)  # never handed out by the cloud
    cloud.register(ID_PALBAD, "little")
    accepted[ID_PALBAD] = ("77" * 64, "99" * 32)  # never handed out by the cloud

    kwargs = dict(target="10.0.0.255", timeout=0.3, account=ACCOUNT, password=PASSWORD, get_async_client=cloud.client)

    with mock.patch.object(Device, "authenticate", fake_authenticate), mock.patch.object(AirConditioner, "refresh", fake_refresh):
        # A. V3 devices registered under either byte order plus a V2 device
        reset()
        devices, _ = await run_discovery(hosts(ID_LITTLE, ID_BIG, ID_V2), auto_connect=True, **kwargs)
        check(sorted(d.id for d in devices) == sorted([ID_LITTLE, ID_BIG, ID_V2]), "A: wrong devices")
        for i in (ID_LITTLE, ID_BIG):
            ok = [(t, k) for (d, t, k, good) in auth_log if d == i and good]
            check(ok == [accepted[i]], f"A: device {i:x} not authenticated exactly once with its own credentials")
            check(1 <= sum(1 for e in auth_log if e[0] == i) <= 2, "A: unexpected number of handshakes")
        check(not any(e[0] == ID_V2 for e in auth_log), "A: V2 device was authenticated")
        check(sorted(refreshed) == sorted([ID_LITTLE, ID_BIG, ID_V2]), f"A: refreshed {refreshed}")
        check(cloud.requests.count("/v1/user/login") >= 1 and cloud.requests.index("/v1/user/login") < cloud.requests.index("/v1/iot/secure/getToken"), "A: login must precede getToken")
        check(2 <= cloud.requests.count("/v1/iot/secure/getToken") <= 4, "A: getToken count")
        check(not cloud.problems, f"A: cloud saw {cloud.problems}")

        # A'. connect() of an already discovered device reuses the cloud connection
        reset()
        dev = next(d for d in devices if d.id == ID_BIG)
        dev._authed = False
        check(await Discover.connect(dev) is True, "A': connect failed")
        check(auth_log[-1] == (ID_BIG, *accepted[ID_BIG], True), "A': wrong credentials")

        # B. id reading the same in both byte orders; device whose token the cloud does not have
        reset()
        cloud.requests.clear()
        devices, _ = await run_discovery(hosts(ID_PAL, ID_BAD, ID_PALBAD), auto_connect=True, **kwargs)
        check(sorted(d.id for d in devices) == sorted([ID_PAL, ID_BAD, ID_PALBAD]), "B: wrong devices")
        check([(t, k) for (d, t, k, good) in auth_log if d == ID_PAL and good] == [accepted[ID_PAL]], "B: palindromic id not authenticated")
        bad = [e for e in auth_log if e[0] == ID_BAD]
        check(1 <= len(bad) <= 2 and not any(e[3] for e in bad), "B: unexpected handshakes for unknown device")
        bad = [e for e in auth_log if e[0] == ID_PALBAD]
        check(1 <= len(bad) <= 2 and not any(e[3] for e in bad), "B: unexpected handshakes for unknown palindromic device")
        check(all((t, k) in cloud.creds.values() for (_, t, k, _) in auth_log), "B: credentials not from the cloud")
        check(refreshed == [ID_PAL], f"B: refreshed {refreshed}")
        check(not cloud.problems, f"B: cloud saw {cloud.problems}")

        # auto_connect=False never touches the cloud
        reset()
        cloud.requests.clear()
        devices, _ = await run_discovery(hosts(ID_LITTLE, ID_BIG), auto_connect=False, **kwargs)
        check(len(devices) == 2 and not cloud.requests and not auth_log and not refreshed, "no-connect run touched cloud/device")

        # C. login fails with an API error -> CloudError, within budget
        reset()
        cloud.requests.clear()
        cloud.fail_login_id = 3101
        try:
            await run_discovery(hosts(ID_LITTLE, ID_BIG, ID_V2), auto_connect=True, **kwargs)
            check(False, "C: no CloudError")
        except CloudError:
            pass
        await asyncio.sleep(0.2)
        check(1 <= cloud.requests.count("/v1/user/login/id/get") <= 2, f"C: login id requests {cloud.requests}")
        check("/v1/iot/secure/getToken" not in cloud.requests and not auth_log, "C: went on after failed login")
        cloud.fail_login_id = None

        # D. getToken times out -> CloudError after at most 3 attempts per request
        reset()
        cloud.requests.clear()
        cloud.timeout_get_token = True
        try:
            await run_discovery(hosts(ID_LITTLE), auto_connect=True, **kwargs)
            check(False, "D: no CloudError")
        except CloudError:
            pass
        check(1 <= cloud.requests.count("/v1/iot/secure/getToken") <= 3, f"D: attempts {cloud.requests}")
        check(not auth_log, "D: handshake without token")
        cloud.timeout_get_token = False

        # E. recovery: the next run works again
        reset()
        cloud.requests.clear()
        devices, _ = await run_discovery(hosts(ID_LITTLE, ID_BIG), auto_connect=True, **kwargs)
        check(sorted(d.id for d in devices) == sorted([ID_LITTLE, ID_BIG]) and sorted(refreshed) == sorted([ID_LITTLE, ID_BIG]), "E: no recovery")
        check(not cloud.problems, f"E: cloud saw {cloud.problems}")

    print("demo4 OK")


if __name__ == "__main__":
    asyncio.run(main())
