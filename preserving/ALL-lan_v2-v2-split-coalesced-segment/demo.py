"""Demo 4: V2 responses arriving alone, with trailing bytes, or several per TCP segment."""
import asyncio
import os
import sys
from hashlib import md5

from Crypto.Cipher import AES

from msmart.lan import LAN, ProtocolError, _LanProtocol, _Packet

SIGN_KEY = b"xhdiwjnchekd4d512chdjx5d8e4c394D2D7S"
ENC_KEY = md5(SIGN_KEY).digest()

REQUEST = bytes.fromhex("aa20ac00000000000003418100ff03ff00020000000000000000000000000301cd9c")
A = bytes.fromhex("aa22ac00000000000303c0014566000000300010045cff2070000000000000008bed19")
B = bytes.fromhex("aa23ac00000000000303c00145660000003c0010045c6800000000000000000000018426")
C = bytes.fromhex("aa0fac00000000000303b10100000000f6")


def ref_encode(frame: bytes, device_id: int = 77) -> bytes:
    pad = 16 - len(frame) % 16
    body = AES.new(ENC_KEY, AES.MODE_ECB).encrypt(frame + bytes([pad]) * pad)
    length = 40 + len(body) + 16
    head = (b"\x5a\x5a\x01\x11" + length.to_bytes(2, "little") + b"\x20\x80" + bytes(4)
            + os.urandom(8) + device_id.to_bytes(8, "little") + bytes(12))
    return head + body + md5(head + body + SIGN_KEY).digest()


class FakeTransport:
    def __init__(self, protocol, segments):
        self.protocol, self.segments, self.written, self.closing = protocol, segments, [], False

    def get_extra_info(self, name):
        return ("10.0.0.9", 6444) if name == "peername" else None

    def is_closing(self):
        return self.closing

    def close(self):
        self.closing = True

    def write(self, data):
        self.written.append(bytes(data))
        if len(self.written) == 1:
            for segment in self.segments:
                asyncio.get_running_loop().call_soon(self.protocol.data_received, segment)


async def exchange(segments):
    lan = LAN("10.0.0.9", 6444, 77)
    transports = []

    async def connect():
        protocol = _LanProtocol()
        transports.append(FakeTransport(protocol, segments))
        protocol.connection_made(transports[-1])
        lan._protocol = protocol

    lan._connect = connect
    frames = await lan.send(REQUEST)
    assert len(transports) == 1 and len(transports[0].written) == 1
    return frames


def in_order_prefix(frames, sent) -> bool:
    """At least the first frame, never a foreign or reordered one."""
    return 1 <= len(frames) <= len(sent) and frames == sent[:len(frames)]


async def main() -> None:
    pa, pb, pc = ref_encode(A), ref_encode(B), ref_encode(C)

    # One packet per segment: every frame, in order
    assert await exchange([pa]) == [A]
    assert await exchange([pa, pb, pc]) == [A, B, C]

    # Trailing bytes after a packet do not disturb it
    assert await exchange([pa + bytes(3)]) == [A]
    assert await exchange([pa + b"\x5a\x5a\x01"]) == [A]
    assert await exchange([pa + pb[:30]]) == [A]

    # Several packets in one segment: frames come out in order starting with the first
    assert in_order_prefix(await exchange([pa + pb]), [A, B])
    assert in_order_prefix(await exchange([pa + pb + pc]), [A, B, C])
    assert in_order_prefix(await exchange([pa + pa]), [A, A])
    assert in_order_prefix(await exchange([pa + pb + b"\x00\x01"]), [A, B])
    frames = await exchange([pa + pb, pc])
    assert frames in ([A, C], [A, B, C])

    # A segment that starts with an altered packet is a protocol error, whatever follows
    bad = bytearray(pa)
    bad[50] ^= 0x10
    for segments in ([bytes(bad)], [bytes(bad) + pb], [os.urandom(80)], [b"\x5a\x5a" + bytes(70)], [pa[:60]]):
        try:
            await exchange(segments)
        except ProtocolError:
            pass
        else:
            raise AssertionError("altered packet accepted")

    # A valid packet followed by an altered one: the valid frame is returned, nothing invented
    bad = bytearray(pb)
    bad[-1] ^= 1
    assert await exchange([pa + bytes(bad)]) == [A]

    # The transport hands a lone packet to the reader unchanged
    protocol = _LanProtocol()
    protocol.data_received(pa)
    assert _Packet.decode(await protocol.read(timeout=1)) == A
    try:
        await protocol.read(timeout=0)
    except asyncio.QueueEmpty:
        pass
    else:
        raise AssertionError("expected QueueEmpty")


if __name__ == "__main__":
    asyncio.run(main())
    print("demo4 OK")
    sys.exit(0)
