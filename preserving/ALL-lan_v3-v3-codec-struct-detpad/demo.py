"""Demo for change 2: V3 encrypted request/response codec against an independent implementation."""
import logging
import random
import sys
from hashlib import sha256

from Crypto.Cipher import AES

from msmart.lan import ProtocolError, _LanProtocolV3

logging.disable(logging.CRITICAL)


def ref_decode_request(key, packet):
    """Independent decoder of an encrypted request. Returns (counter, payload)."""
    assert packet[:2] == b"\x83\x70" and packet[4] == 0x20
    size = int.from_bytes(packet[2:4], "big")
    assert len(packet) == size + 8, "size field"
    pad, ptype = packet[5] >> 4, packet[5] & 0xF
    assert ptype == 0x6, "type"
    enc, tag = packet[6:-32], packet[-32:]
    assert len(enc) % 16 == 0
    plain = AES.new(key, AES.MODE_CBC, iv=bytes(16)).decrypt(enc)
    assert sha256(packet[:6] + plain).digest() == tag, "tag"
    body = plain[2:len(plain) - pad]
    assert (len(body) + 2 + pad) % 16 == 0 and 0 <= pad <= 15
    assert pad == (-(len(body) + 2)) % 16, "pad is minimal"
    return int.from_bytes(plain[:2], "big"), body


def ref_encode_response(key, counter, payload, rng):
    """Independent encoder of an encrypted response."""
    pad = (-(len(payload) + 2)) % 16
    header = b"\x83\x70" + (len(payload) + pad + 32).to_bytes(2, "big") + b"\x20" + bytes([pad << 4 | 0x3])
    plain = counter.to_bytes(2, "big") + payload + rng.randbytes(pad)
    enc = AES.new(key, AES.MODE_CBC, iv=bytes(16)).encrypt(plain)
    return header + enc + sha256(header + plain).digest()


def main():
    rng = random.Random(99)

    # No key: both directions refuse with a protocol error
    proto = _LanProtocolV3()
    for fn, args in ((proto._encode_encrypted_request, (0, b"abc")),
                     (proto._decode_encrypted_response, (memoryview(bytes(70)),))):
        try:
            fn(*args)
        except ProtocolError:
            pass
        else:
            raise AssertionError("expected ProtocolError without key")

    for length in list(range(0, 70)) + [127, 128, 129, 255, 300]:
        key = rng.randbytes(32)
        proto = _LanProtocolV3()
        proto._local_key = key
        payload = rng.randbytes(length)
        counter = rng.randrange(0, 4096)

        # Requests decode with the reference, from bytes and from memoryview input
        for data in (payload, memoryview(payload)):
            packet = proto._encode_encrypted_request(counter, data)
            assert isinstance(packet, bytes)
            assert ref_decode_request(key, packet) == (counter, payload)

        # Reference responses decode to the payload, directly and via _process_packet
        response = ref_encode_response(key, counter, payload, rng)
        with memoryview(response) as mv:
            assert proto._decode_encrypted_response(mv) == payload
            assert proto._process_packet(mv) == payload

        # Every single bit flip is rejected (subset of lengths to keep it fast)
        if length in (0, 1, 13, 14, 15, 30, 64):
            for bit in range(len(response) * 8):
                bad = bytearray(response)
                bad[bit // 8] ^= 1 << (bit % 8)
                fns = [proto._decode_encrypted_response]
                if not (bit // 8 == 5 and bit % 8 < 4):
                    # Type nibble flips select another decoder in _process_packet
                    fns.append(proto._process_packet)
                for fn in fns:
                    try:
                        with memoryview(bytes(bad)) as mv:
                            fn(mv)
                    except ProtocolError:
                        pass
                    else:
                        raise AssertionError(f"bit flip {bit} accepted")

        # Wrong key is rejected
        other = _LanProtocolV3()
        other._local_key = rng.randbytes(32)
        try:
            other._decode_encrypted_response(memoryview(response))
        except ProtocolError:
            pass
        else:
            raise AssertionError("wrong key accepted")

    # Other packet kinds: error packet, request types and bad framing raise ProtocolError
    proto = _LanProtocolV3()
    proto._local_key = bytes(32)
    for raw in (b"\x83\x70\x00\x00\x20\x0f\x00\x00",
                b"\x83\x70\x00\x00\x20\x00\x00\x00",
                b"\x83\x70\x00\x00\x20\x06\x00\x00",
                b"\x83\x71\x00\x00\x20\x03\x00\x00",
                b"\x83\x70\x00\x00\x21\x03\x00\x00",
                b"\x83\x70\x00\x00\x20\x03\x00\x00",
                b"\x83\x70\x00\x11\x20\x03\x00\x00" + bytes(17)):
        try:
            proto._process_packet(memoryview(raw))
        except ProtocolError:
            pass
        else:
            raise AssertionError("bad packet accepted")

    # Handshake responses pass through untouched
    reply = bytes(range(64))
    raw = b"\x83\x70\x00\x40\x20\x01\x00\x07" + reply
    assert proto._process_packet(memoryview(raw)) == reply

    print("ok")
    return 0


if __name__ == "__main__":
    sys.exit(main())
