# ---------------------------------------------------------------------------
# Self-contained fake network used by the demo (loopback only, no real network)
#  * every fake host lives on its own random 127.x.y.z address, so the fixed
#    discovery ports 6445/20086 never collide with anything else on the box
#  * UDP responder answering the discovery probe, TCP server speaking V2 / V3
#  * fake NetHome Plus cloud via httpx.MockTransport
# ---------------------------------------------------------------------------
import asyncio
import hashlib
import json
import logging
import os
import random
import sys
import time
from urllib.parse import parse_qs

import httpx
from Crypto.Util.strxor import strxor

from msmart.const import DISCOVERY_MSG
from msmart.device import AirConditioner, Device
from msmart.discover import Discover
from msmart.lan import Security, _Packet

STATE_FRAME = bytes.fromhex(
    "aa23ac00000000000303c00145660000003c0010045c6b20000000000000000000020d79")


def rand_ip() -> str:
    return "127.%d.%d.%d" % (random.randint(1, 250), random.randint(1, 250), random.randint(2, 250))


def build_reply(version, device_id, port, name, sn, reported_ip) -> bytes:
    body = bytes(reversed([int(x) for x in reported_ip.split(".")]))
    body += port.to_bytes(4, "little")
    body += sn.encode().ljust(32, b"0")[:32]
    body += bytes([len(name)]) + name.encode()
    body += bytes(30)
    enc = Security.encrypt_aes(body)
    hdr = bytearray(40)
    hdr[0:2] = b"\x5a\x5a"
    hdr[2:4] = b"\x01\x11"
    hdr[4:6] = (40 + len(enc) + 16).to_bytes(2, "little")
    hdr[6:8] = b"\x7a\x80"
    hdr[20:26] = device_id.to_bytes(6, "little")
    pkt = bytes(hdr) + enc
    pkt += Security.sign(pkt)
    if version == 2:
        return pkt
    outer = b"\x83\x70" + (len(pkt) + 16 - 0).to_bytes(2, "big") + b"\x20\x0f\x00\x00" + pkt
    return outer + hashlib.md5(outer).digest()


class FakeHost:
    """One fake appliance: UDP discovery responder + TCP LAN server."""

    def __init__(self, *, version=2, device_id=None, type_byte=0xAC, replies=1, raw_reply=None,
                 key=None, token=None, reported_ip=None, reply_delay=0.05):
        self.ip = rand_ip()
        self.version = version
        self.device_id = device_id if device_id is not None else random.getrandbits(48) | 1
        self.type_byte = type_byte
        self.replies = replies
        self.raw_reply = raw_reply
        self.key = key or os.urandom(32)
        self.token = token or os.urandom(64)
        self.reported_ip = reported_ip
        self.reply_delay = reply_delay
        self.name = "net_%02x_%04X" % (type_byte, random.getrandbits(16))
        self.sn = "000000P0000000Q1" + "%012X" % random.getrandbits(48) + "0000"
        self.tcp_port = None
        self.probes = []          # (monotonic time, data)
        self.tcp_connects = []    # monotonic times
        self.handshakes = []      # tokens received
        self.frames = []          # decoded frames received
        self.events = []          # ("udp"|"tcp"|"handshake"|"frame", t)
        self._udp = None
        self._tcp = None
        self.peers = []           # other hosts that answer when this one is probed ("same broadcast domain")

    def reply_bytes(self):
        if self.raw_reply is not None:
            return self.raw_reply
        return build_reply(self.version, self.device_id, self.tcp_port, self.name, self.sn,
                           self.reported_ip or self.ip)

    def send_replies(self, addr):
        loop = asyncio.get_running_loop()
        for i in range(self.replies):
            loop.call_later(self.reply_delay * (i + 1), self._udp.sendto, self.reply_bytes(), addr)

    async def start(self):
        loop = asyncio.get_running_loop()
        self._tcp = await asyncio.start_server(self._serve, self.ip, 0)
        self.tcp_port = self._tcp.sockets[0].getsockname()[1]
        host = self

        class _Udp(asyncio.DatagramProtocol):
            def connection_made(self, transport):
                self.t = transport

            def datagram_received(self, data, addr):
                host.probes.append((time.monotonic(), data))
                host.events.append(("udp", time.monotonic()))
                if data != DISCOVERY_MSG or len(host.probes) > 1:
                    return
                for h in [host] + host.peers:
                    h.send_replies(addr)

        self._udp, _ = await loop.create_datagram_endpoint(_Udp, local_addr=(self.ip, 6445))
        return self

    def stop(self):
        if self._udp:
            self._udp.close()
        if self._tcp:
            self._tcp.close()

    async def _serve(self, reader, writer):
        self.tcp_connects.append(time.monotonic())
        self.events.append(("tcp", time.monotonic()))
        session = None
        try:
            while True:
                if self.version == 2:
                    head = await reader.readexactly(6)
                    size = int.from_bytes(head[4:6], "little")
                    pkt = head + await reader.readexactly(size - 6)
                    frame = _Packet.decode(pkt)
                    self.frames.append(frame)
                    self.events.append(("frame", time.monotonic()))
                    writer.write(_Packet.encode(self.device_id, STATE_FRAME))
                    continue
                head = await reader.readexactly(6)
                assert head[:2] == b"\x83\x70", head
                size = int.from_bytes(head[2:4], "big")
                rest = await reader.readexactly(size + 2)
                ptype = head[5] & 0xF
                if ptype == 0:
                    token = rest[2:]
                    self.handshakes.append(token)
                    self.events.append(("handshake", time.monotonic()))
                    if token != self.token:
                        err = b"\x83\x70" + (5).to_bytes(2, "big") + b"\x20\x0f" + rest[:2] + b"ERROR"
                        writer.write(err)
                        continue
                    nonce = os.urandom(32)
                    payload = Security.encrypt_aes_cbc(self.key, nonce) + hashlib.sha256(nonce).digest()
                    writer.write(b"\x83\x70" + (64).to_bytes(2, "big") + b"\x20\x01" + rest[:2] + payload)
                    session = strxor(nonce, self.key)
                elif ptype == 6:
                    assert session is not None, "data before handshake"
                    plain = Security.decrypt_aes_cbc(session, rest[:-32])
                    assert hashlib.sha256(head + plain).digest() == rest[-32:]
                    pad = head[5] >> 4
                    inner = plain[2:len(plain) - pad]
                    self.frames.append(_Packet.decode(inner))
                    self.events.append(("frame", time.monotonic()))
                    data = _Packet.encode(self.device_id, STATE_FRAME)
                    rpad = (16 - (len(data) + 2) % 16) % 16
                    rhead = b"\x83\x70" + (len(data) + rpad + 32).to_bytes(2, "big") + b"\x20" + bytes([rpad << 4 | 3])
                    rplain = plain[:2] + data + bytes(rpad)
                    writer.write(rhead + Security.encrypt_aes_cbc(session, rplain) + hashlib.sha256(rhead + rplain).digest())
        except (asyncio.IncompleteReadError, ConnectionError, asyncio.CancelledError):
            pass
        finally:
            writer.close()


class FakeCloud:
    """NetHome Plus look-alike. `tokens` maps udpid hex -> (token hex, key hex)."""

    def __init__(self, tokens=None, *, fail_login=False, delay=0.0):
        self.tokens = dict(tokens or {})
        self.requests = []   # (monotonic time, path, form)
        self.fail_login = fail_login
        self.delay = delay

    def register(self, host: FakeHost, endian="little", other_token=None):
        """Register the host's real credentials under the given byte order; the other order gets junk."""
        for e in ("little", "big"):
            udpid = Security.udpid(host.device_id.to_bytes(6, e)).hex()
            if e == endian:
                self.tokens[udpid] = (host.token.hex(), host.key.hex())
            else:
                self.tokens.setdefault(udpid, ((other_token or os.urandom(64)).hex(), os.urandom(32).hex()))

    async def _handle(self, request: httpx.Request) -> httpx.Response:
        form = {k: v[0] for k, v in parse_qs(request.content.decode(), keep_blank_values=True).items()}
        path = request.url.path
        self.requests.append((time.monotonic(), path, form))
        if self.delay:
            await asyncio.sleep(self.delay)

        def ok(result):
            return httpx.Response(200, text=json.dumps({"errorCode": "0", "msg": "ok", "result": result}))
        if path == "/v1/user/login/id/get":
            return ok({"loginId": "login-id-1"})
        if path == "/v1/user/login":
            if self.fail_login:
                return httpx.Response(200, text=json.dumps({"errorCode": "3101", "msg": "bad password"}))
            return ok({"sessionId": "session-1"})
        if path == "/v1/iot/secure/getToken":
            udpid = form["udpid"]
            lst = [{"udpId": "00" * 16, "token": "11" * 64, "key": "22" * 32}]
            if udpid in self.tokens:
                t, k = self.tokens[udpid]
                lst.append({"udpId": udpid, "token": t, "key": k})
            return ok({"tokenlist": lst})
        return httpx.Response(404)

    def client(self, *args, **kwargs):
        return httpx.AsyncClient(transport=httpx.MockTransport(self._handle))

    def paths(self):
        return [p for _t, p, _f in self.requests]


def check(cond, msg):
    if not cond:
        print("FAIL:", msg)
        sys.exit(1)
    print("ok:", msg)


def identity_ok(dev, host) -> bool:
    return (dev is not None and dev.ip == host.ip and dev.port == host.tcp_port and dev.id == host.device_id
            and dev.sn == host.sn and dev.name == host.name and int(dev.type) == host.type_byte
            and dev.version == host.version
            and type(dev) is (AirConditioner if host.type_byte == 0xAC else Device))


def hangup(devs):
    for d in devs:
        if d is not None:
            d._lan._disconnect()


def probes_ok(host: FakeHost, packets: int):
    """The probe is the genuine one; `packets` copies reached port 6445 of this host."""
    return len(host.probes) == packets and all(d == DISCOVERY_MSG for _t, d in host.probes)

# ---------------------------------------------------------------------------

# Demo 2: life cycle of the per-host work of one discovery run.
# Exercises: hosts finishing before / after the receive window, one host failing with a cloud error
# while others succeed, cancellation of a run followed by a normal run, and (when present) the
# streaming variant of the API.
from msmart.cloud import CloudError


async def main():
    logging.basicConfig(level=logging.CRITICAL)

    # --- 1. a late replier whose authentication ends after the window has closed
    a = await FakeHost(version=2, replies=2).start()
    b = await FakeHost(version=3, reply_delay=0.8).start()          # AC behind V3
    c = await FakeHost(version=3, type_byte=0xB8).start()
    a.peers = [b, c]
    cloud = FakeCloud(delay=0.1)
    cloud.register(b, "big")
    cloud.register(c, "little")
    t0 = time.monotonic()
    devs = await Discover.discover(target=a.ip, timeout=1.0, get_async_client=cloud.client)
    elapsed = time.monotonic() - t0
    by_ip = {dev.ip: dev for dev in devs}
    check(len(devs) == 3 and sorted(by_ip) == sorted([a.ip, b.ip, c.ip]), "three hosts, three devices")
    check(all(identity_ok(by_ip[h.ip], h) for h in (a, b, c)), "identities as advertised")
    check(by_ip[b.ip].online and by_ip[b.ip].token == b.token.hex(), "late V3 AC authenticated (big-endian id) and refreshed")
    check(b.handshakes[-1] == b.token and len(b.handshakes) == 2, "first candidate rejected, second accepted")
    check(elapsed > 1.0, "run outlasted the window to let the late host finish (%.2f s)" % elapsed)
    check(cloud.paths().count("/v1/user/login") == 1, "one cloud login shared by both V3 hosts")
    hangup(devs)

    # --- 2. one host has no credentials in the cloud: the run fails with a cloud error
    d = await FakeHost(version=3, type_byte=0xA1).start()
    a.probes.clear()
    a.peers = [d, c]
    c.handshakes.clear()
    cloud2 = FakeCloud()
    cloud2.register(c, "little")
    try:
        await Discover.discover(target=a.ip, timeout=1.0, get_async_client=cloud2.client)
        check(False, "cloud error expected")
    except CloudError as e:
        check(True, "missing credentials surface as CloudError (%s)" % str(e)[:40])
    await asyncio.sleep(1.5)   # let anything still running settle (the original leaves tasks behind)

    # --- 3. cancel a run in the middle, then run again
    a.probes.clear()
    a.peers = []
    try:
        await asyncio.wait_for(Discover.discover(target=a.ip, timeout=5, auto_connect=False), 0.5)
        check(False, "timeout expected")
    except (asyncio.TimeoutError, TimeoutError):
        check(True, "cancelled run raises the caller's timeout")
    a.probes.clear()
    dev = await Discover.discover_single(a.ip, timeout=0.5)
    check(identity_ok(dev, a) and dev.online, "run after a cancelled run works")
    hangup([dev])

    # --- 4. streaming variant, if this version has one
    if hasattr(Discover, "discover_iter"):
        a.probes.clear()
        seen = []
        t0 = time.monotonic()
        async for dev in Discover.discover_iter(target=a.ip, timeout=1.0, auto_connect=False):
            seen.append((time.monotonic() - t0, dev))
        check(len(seen) == 1 and identity_ok(seen[0][1], a) and seen[0][0] < 0.9,
              "device handed out before the window closed (%.2f s)" % seen[0][0])

    for h in (a, b, c, d):
        h.stop()
    print("demo2 done")


asyncio.run(main())
