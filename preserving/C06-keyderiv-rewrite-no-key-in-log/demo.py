"""Demonstration for C06: V3 handshake key agreement / sound rejection.

Runs a simulated V3 device on a loopback TCP socket and drives the public
Device/LAN API against it.  Exits 0 when every scenario behaves as the
property demands.
"""
import asyncio
import logging
import os
import sys
from hashlib import sha256

from Crypto.Cipher import AES

from msmart.base_device import Device
from msmart.const import DeviceType
from msmart.lan import AuthenticationError, _Packet

logging.basicConfig(level=logging.CRITICAL)

DEVICE_ID = 123456
REQ_FRAME = bytes.fromhex(
    "aa23ac00000000000303c00145660000003c0010045c6800000000000000000000018426")
RSP_FRAME = bytes.fromhex(
    "aa22ac00000000000303c0014566000000300010045cff2070000000000000008bed19")


def cbc(key):
    return AES.new(key, AES.MODE_CBC, iv=bytes(16))


def xor(a, b):
    return bytes(x ^ y for x, y in zip(a, b))


class SimDevice:
    """Simulated V3 device. `fault` turns the genuine 64 byte reply into the packet put on the wire."""

    def __init__(self, token, key):
        self.token = token
        self.key = key
        self.fault = None
        self.rx_types = []  # type nibble of every packet received
        self.accepted = 0  # encrypted requests that verified under the session key
        self.handshakes = 0
        self.server = None
        self.port = None

    async def start(self):
        self.server = await asyncio.start_server(self._serve, "127.0.0.1", 0)
        self.port = self.server.sockets[0].getsockname()[1]

    async def stop(self):
        self.server.close()

    @staticmethod
    def packet(ptype, pid, body, pad=0):
        return b"\x83\x70" + len(body).to_bytes(2, "big") + b"\x20" + bytes([pad << 4 | ptype]) + pid + body

    async def _serve(self, reader, writer):
        session = None
        try:
            while True:
                header = await reader.readexactly(6)
                assert header[:2] == b"\x83\x70" and header[4] == 0x20
                size = int.from_bytes(header[2:4], "big")
                rest = await reader.readexactly(size + 2)
                ptype = header[5] & 0xF
                self.rx_types.append(ptype)

                if ptype == 0x0:
                    self.handshakes += 1
                    pid, token = rest[:2], rest[2:]
                    if token != self.token:
                        writer.write(self.packet(0xF, pid, b"ERROR"))
                        continue
                    nonce = os.urandom(32)
                    reply = cbc(self.key).encrypt(nonce) + sha256(nonce).digest()
                    if self.fault is None:
                        session = xor(nonce, self.key)
                        writer.write(self.packet(0x1, pid, reply))
                    else:
                        wire = self.fault(pid, reply)
                        if wire:
                            writer.write(wire)
                elif ptype == 0x6 and session is not None:
                    enc, rx_hash = rest[:-32], rest[-32:]
                    plain = cbc(session).decrypt(enc)
                    if sha256(header + plain).digest() != rx_hash:
                        continue
                    pad = header[5] >> 4
                    v2 = plain[2:len(plain) - pad]
                    if _Packet.decode(v2) != REQ_FRAME:
                        continue
                    self.accepted += 1
                    # Encrypted reply under the session key
                    data = _Packet.encode(DEVICE_ID, RSP_FRAME)
                    rem = (len(data) + 2) % 16
                    pad = 16 - rem if rem else 0
                    hdr = b"\x83\x70" + (len(data) + pad + 32).to_bytes(2, "big") + b"\x20" + bytes([pad << 4 | 0x3])
                    payload = plain[:2] + data + bytes(pad)
                    writer.write(hdr + cbc(session).encrypt(payload) + sha256(hdr + payload).digest())
        except (asyncio.IncompleteReadError, ConnectionError):
            pass
        finally:
            writer.close()


def unauthenticated(dev):
    proto = dev._lan._protocol
    return proto is None or not getattr(proto, "authenticated", False)


def check(cond, what):
    if not cond:
        print("FAIL:", what)
        sys.exit(1)


async def expect_reject(sim, name, fault, token, key, stored=None):
    """Run one forged-reply scenario on a fresh Device (optionally one that holds stored credentials)."""
    dev = Device(ip="127.0.0.1", port=sim.port, device_id=DEVICE_ID, device_type=DeviceType.AIR_CONDITIONER)
    if stored:
        sim.fault = None
        await dev.authenticate(*stored)
        # Force a fresh session so the forged reply hits an unauthenticated session
        dev._lan._disconnect()
    before = (dev.token, dev.key)
    sim.fault = fault
    sim.rx_types.clear()
    try:
        await dev.authenticate(token, key)
    except AuthenticationError:
        pass
    else:
        check(False, f"{name}: forged reply accepted")
    check(unauthenticated(dev), f"{name}: session authenticated after forged reply")
    check(set(sim.rx_types) <= {0x0}, f"{name}: non-handshake packets sent {sim.rx_types}")
    check((dev.token, dev.key) == before, f"{name}: stored token/key replaced")
    print("ok  reject:", name)


async def main():
    token, key = os.urandom(64), os.urandom(32)
    sim = SimDevice(token, key)
    await sim.start()

    # --- genuine handshakes, both credential forms
    for form, (t, k) in {"bytes": (token, key), "hex": (token.hex(), key.hex())}.items():
        sim.fault = None
        sim.rx_types.clear()
        before = sim.accepted
        dev = Device(ip="127.0.0.1", port=sim.port, device_id=DEVICE_ID, device_type=DeviceType.AIR_CONDITIONER)
        await dev.authenticate(t, k)
        check(not unauthenticated(dev), f"{form}: not authenticated after genuine reply")
        check(dev.token == token.hex() and dev.key == key.hex(), f"{form}: token/key not stored")
        responses = await dev._lan.send(REQ_FRAME)
        check(sim.accepted == before + 1, f"{form}: device did not accept the encrypted request")
        check(responses == [RSP_FRAME], f"{form}: encrypted response not decoded: {responses}")
        check(sim.rx_types.count(0x0) == 1, f"{form}: expected exactly one handshake")
        dev._lan._disconnect()
        print("ok  accept:", form)

    # --- forged replies
    P = SimDevice.packet

    def flip(bit):
        def fault(pid, reply):
            b = bytearray(reply)
            b[bit // 8] ^= 1 << (bit % 8)
            return P(0x1, pid, bytes(b))
        return fault

    other_key = os.urandom(32)

    def under_other_key(pid, reply):
        nonce = os.urandom(32)
        return P(0x1, pid, cbc(other_key).encrypt(nonce) + sha256(nonce).digest())

    for bit in (0, 7, 131, 255, 256, 300, 511):
        await expect_reject(sim, f"bit {bit} flipped", flip(bit), token, key)
    await expect_reject(sim, "63 byte reply", lambda pid, r: P(0x1, pid, r[:63]), token, key)
    await expect_reject(sim, "65 byte reply", lambda pid, r: P(0x1, pid, r + b"\x00"), token, key)
    await expect_reject(sim, "empty reply", lambda pid, r: P(0x1, pid, b""), token, key)
    await expect_reject(sim, "error packet", lambda pid, r: P(0xF, pid, b"ERROR"), token, key)
    await expect_reject(sim, "type 2 packet", lambda pid, r: P(0x2, pid, r), token, key)
    await expect_reject(sim, "type 3 packet", lambda pid, r: P(0x3, pid, r), token, key)
    await expect_reject(sim, "reply under another key", under_other_key, token, key)
    await expect_reject(sim, "client has the wrong key", None, token, other_key.hex())
    # Stored credentials survive a failed attempt with new ones
    await expect_reject(sim, "stored creds kept (bit flip)", flip(42), token.hex(), other_key.hex(), stored=(token, key))
    await expect_reject(sim, "stored creds kept (wrong key)", None, token, other_key, stored=(token, key))

    await sim.stop()
    print("ALL OK")


if __name__ == "__main__":
    asyncio.run(main())
