"""Demo 3: V3 packet counter over very long sessions and response decoding
regardless of the device's own counter.

Runs against the original code and against change3.patch; exits 0 on both.
"""
import asyncio
import logging
import os
import sys
from hashlib import sha256

from Crypto.Cipher import AES

from msmart.lan import ProtocolError, _LanProtocolV3

KEY = bytes(range(32))


def cbc(key):
    return AES.new(key, AES.MODE_CBC, iv=bytes(16))


class CaptureTransport(asyncio.Transport):
    def __init__(self):
        super().__init__()
        self.written = []
        self.closed = False

    def get_extra_info(self, name, default=None):
        return ("192.0.2.1", 6444) if name == "peername" else default

    def is_closing(self):
        return self.closed

    def close(self):
        self.closed = True

    def write(self, data):
        self.written.append(bytes(data))


def parse_request(packet, key):
    """Independent decoder: returns (type, counter, payload)."""
    assert packet[:2] == b"\x83\x70" and packet[4] == 0x20
    size = int.from_bytes(packet[2:4], "big")
    assert len(packet) == size + 8
    ptype, pad = packet[5] & 0xF, packet[5] >> 4
    if ptype == 0x0:
        return ptype, int.from_bytes(packet[6:8], "big"), packet[8:]
    assert ptype == 0x6
    plain = cbc(key).decrypt(packet[6:-32])
    assert sha256(packet[:6] + plain).digest() == packet[-32:]
    return ptype, int.from_bytes(plain[:2], "big"), plain[2:len(plain) - pad]


def response(key, counter, payload, ptype=0x3):
    body = counter.to_bytes(2, "big") + payload
    pad = -len(body) % 16
    body += os.urandom(pad)
    header = b"\x83\x70" + (len(body) - 2 + 32).to_bytes(2, "big") + b"\x20" + bytes([pad << 4 | ptype])
    return header + cbc(key).encrypt(body) + sha256(header + body).digest()


def long_session():
    protocol = _LanProtocolV3()
    transport = CaptureTransport()
    protocol.connection_made(transport)

    # Handshake request first, then data under the session key
    protocol.write(bytes(64), packet_type=_LanProtocolV3.PacketType.HANDSHAKE_REQUEST)
    protocol._local_key = KEY
    total = 70000
    for i in range(total):
        if i == 5000:
            # A handshake request in the middle takes a counter value as well
            protocol.write(bytes(64), packet_type=_LanProtocolV3.PacketType.HANDSHAKE_REQUEST)
        protocol.write(i.to_bytes(4, "big") * (i % 9))

    assert len(transport.written) == total + 2
    counters = []
    n = 0
    for packet in transport.written:
        ptype, counter, payload = parse_request(packet, KEY)
        if ptype == 0x6:
            assert payload == n.to_bytes(4, "big") * (n % 9)
            n += 1
        counters.append(counter)

    assert counters[0] == 0
    wraps = set()
    for prev, cur in zip(counters, counters[1:]):
        if cur != prev + 1:
            assert cur == 0, (prev, cur)
            wraps.add(prev)
    # One fixed modulus inside the 2 byte field
    assert len(wraps) == 1 and wraps <= {0xFFF, 0xFFFF}, wraps
    print(f"long session: {len(counters)} packets, counter advances by one and wraps after 0x{wraps.pop():X}")


async def responses_any_counter():
    protocol = _LanProtocolV3()
    protocol.connection_made(CaptureTransport())
    protocol._local_key = KEY

    # Device counters: in order, duplicated, going backwards, wrapping, jumping
    device_counters = [0, 1, 1, 2, 0, 0xFFFF, 0, 0x1000, 7, 7, 7, 0xFFF, 0]
    stream = b"".join(response(KEY, c, bytes([i]) * (i + 1)) for i, c in enumerate(device_counters))
    protocol.data_received(stream)
    for i, _ in enumerate(device_counters):
        assert await protocol.read(timeout=0) == bytes([i]) * (i + 1)

    # A tampered response is still refused
    bad = bytearray(response(KEY, 3, b"payload"))
    bad[10] ^= 1
    protocol.data_received(bytes(bad))
    try:
        await protocol.read(timeout=0)
    except ProtocolError:
        pass
    else:
        raise AssertionError("tampered response accepted")
    print(f"responses: {len(device_counters)} responses decoded whatever the device counter, tampering refused")


if __name__ == "__main__":
    logging.getLogger("msmart").setLevel(logging.ERROR)
    long_session()
    asyncio.run(responses_any_counter())
    sys.exit(0)
