"""Demo for change 1 (send-lock-reencode-per-attempt).

Exercises property C02 (V2 packet codec interoperates) with an independent
implementation of the format, directly on _Packet and through LAN.send on a
loopback V2 peer, including retransmissions and two tasks sharing one LAN.
Exits 0 on the original code and with the change.
"""
import asyncio
import copy
import hashlib
import os
import struct
import sys
import threading

from Crypto.Cipher import AES

from msmart.lan import LAN, _Packet

SIGN_KEY = b"xhdiwjnchekd4d512chdjx5d8e4c394D2D7S"
ENC_KEY = hashlib.md5(SIGN_KEY).digest()


def ref_encode(device_id: int, frame: bytes, stamp: bytes = bytes(8)) -> bytes:
    pad = 16 - len(frame) % 16
    body = AES.new(ENC_KEY, AES.MODE_ECB).encrypt(frame + bytes([pad]) * pad)
    total = 40 + len(body) + 16
    head = struct.pack("<2s2sH2s4s8sQ12s", b"\x5a\x5a", b"\x01\x11", total,
                       b"\x20\x00", bytes(4), stamp, device_id, bytes(12))
    return head + body + hashlib.md5(head + body + SIGN_KEY).digest()


def ref_decode(packet: bytes):
    assert packet[:2] == b"\x5a\x5a", "start marker"
    total, = struct.unpack_from("<H", packet, 4)
    assert total == len(packet), ("length field", total, len(packet))
    assert hashlib.md5(packet[:-16] + SIGN_KEY).digest() == packet[-16:], "sign"
    body = packet[40:-16]
    assert len(body) % 16 == 0 and body
    plain = AES.new(ENC_KEY, AES.MODE_ECB).decrypt(body)
    pad = plain[-1]
    assert 1 <= pad <= 16 and plain[-pad:] == bytes([pad]) * pad, "pkcs7"
    device_id, = struct.unpack_from("<Q", packet, 20)
    return device_id, plain[:-pad]


IDS = [0, 1, 255, 256, 65535, 65536, 2**32 - 1, 2**32, 2**56 - 1, 2**56,
       2**63, 2**64 - 1, 123456, 0x0102030405060708]


def check_codec() -> None:
    for n in range(256):
        frame = os.urandom(n)
        dev = IDS[n % len(IDS)]
        got = ref_decode(_Packet.encode(dev, frame))
        assert got == (dev, frame), (n, dev)
        assert _Packet.decode(ref_encode(dev, frame, os.urandom(8))) == frame, n
    for dev in IDS:
        assert ref_decode(_Packet.encode(dev, b"\xaa" * 17)) == (dev, b"\xaa" * 17)


class Peer(asyncio.Protocol):
    """Loopback V2 unit. Records raw packets, answers according to a script."""

    def __init__(self, log, script):
        self.log, self.script = log, script

    def connection_made(self, transport):
        self.transport = transport

    def data_received(self, data):
        while data:  # TCP may coalesce packets written back to back
            total, = struct.unpack_from("<H", data, 4)
            self.one(data[:total])
            data = data[total:]

    def one(self, data):
        dev, frame = ref_decode(data)  # asserts interop on the wire
        self.log.append((data, dev, frame))
        action = self.script(len(self.log), frame)
        if action is None:
            return  # stay silent
        for reply in action:
            self.transport.write(ref_encode(dev, reply, os.urandom(8)))


class Units(threading.Thread):
    """Two loopback units living on their own loop for the whole demo."""

    def __init__(self):
        super().__init__(daemon=True)
        self.echo_log, self.deaf_log = [], []
        self.failed = []
        self.ready = threading.Event()

    def run(self):
        loop = asyncio.new_event_loop()
        loop.set_exception_handler(lambda l, ctx: self.failed.append(ctx))

        async def serve():
            echo = await loop.create_server(lambda: Peer(
                self.echo_log, lambda n, f: [b"R" + f]), "127.0.0.1", 0)
            # ignores the first two transmissions of every three
            deaf = await loop.create_server(lambda: Peer(
                self.deaf_log, lambda n, f: [f[::-1]] if n % 3 == 0 else None), "127.0.0.1", 0)
            self.echo_port = echo.sockets[0].getsockname()[1]
            self.deaf_port = deaf.sockets[0].getsockname()[1]
            self.ready.set()
        loop.run_until_complete(serve())
        loop.run_forever()


async def check_lan(units: Units, shared: LAN, deaf: LAN) -> None:
    loop = asyncio.get_running_loop()
    log = units.echo_log

    # 1. plain exchanges, every id boundary, several padding lengths
    for i, dev in enumerate(IDS):
        lan = LAN("127.0.0.1", units.echo_port, dev)
        for n in (0, 1, 15, 16, 17, 31, 32, 255, 40 + i):
            frame = os.urandom(n)
            before = len(log)
            out = await lan.send(frame)
            assert out == [b"R" + frame], (dev, n, out)
            assert [(d, f) for _, d, f in log[before:]] == [(dev, frame)]
        lan._disconnect()

    # 2. two or more tasks share one LAN object: every frame written is decodable
    #    and every reply returned by a send() is intact.  (Without
    #    serialisation replies may be coalesced by TCP and dropped by the V2
    #    transport, so only "intact" is asserted, not "all".)
    assert await shared.send(b"hello") == [b"Rhello"]
    del log[:]
    frames = [bytes([k]) * (k + 1) for k in range(4)]
    results = await asyncio.gather(*(shared.send(f) for f in frames),
                                   return_exceptions=True)
    for r in results:  # losing a reply is a timeout, never a wrong frame
        assert isinstance(r, (list, Exception)), repr(r)
    returned = [x for out in results if isinstance(out, list) for x in out]
    expected = [b"R" + f for f in frames]
    assert all(x in expected for x in returned), returned
    print("shared object: %d/%d distinct replies returned" % (len(set(returned)), len(frames)))
    assert {f for _, _, f in log} == set(frames)
    assert all(d == 2**64 - 1 for _, d, _ in log)

    # 3. the peer ignores the first two transmissions -> two retransmissions;
    #    each transmission decodes to the same frame and id
    log = units.deaf_log
    del log[:]
    frame = os.urandom(33)
    t0 = loop.time()
    out = await deaf.send(frame)
    took = loop.time() - t0
    assert out == [frame[::-1]]
    assert [(d, f) for _, d, f in log] == [(256, frame)] * 3
    assert 3.9 <= took <= 5.0, took

    # 4. a shallow / deep copy of the object is still a working LAN
    for clone in (copy.copy(shared), copy.deepcopy(LAN("127.0.0.1", units.echo_port, 65536))):
        f = os.urandom(16)
        assert await clone.send(f) == [b"R" + f]
        assert units.echo_log[-1][1:] == (clone._device_id, f)
        if clone._protocol is not shared._protocol:
            clone._disconnect()

    # leave no connection behind on this loop
    for lan in (shared, deaf):
        if lan._protocol is not None:
            lan._disconnect()
    await asyncio.sleep(0.05)


def main() -> int:
    check_codec()
    units = Units()
    units.start()
    assert units.ready.wait(5)
    shared = LAN("127.0.0.1", units.echo_port, 2**64 - 1)
    deaf = LAN("127.0.0.1", units.deaf_port, 256)
    asyncio.run(check_lan(units, shared, deaf))
    # the very same objects are used again on a second event loop
    asyncio.run(check_lan(units, shared, deaf))
    assert not units.failed, units.failed
    print("demo OK")
    return 0


if __name__ == "__main__":
    sys.exit(main())
