"""Demo for change 2: property query / property write commands.

Builds GetProperties and SetProperties commands, parses them with an independent,
order-insensitive parser of the vendor property format (id LE16 [, length, value]) and checks
that exactly the requested ids / values are present once and that the frames are well formed.
"""
import itertools
import sys

import msmart.crc8 as crc8
from msmart.device.AC.command import (GetPropertiesCommand, PropertyId,
                                      SetPropertiesCommand)

SUPPORTED = [p for p in PropertyId if p._supported]


def check_frame(frame: bytes, frame_type: int) -> bytes:
    assert frame[0] == 0xAA and frame[1] == len(frame) - 1
    assert frame[2] == 0xAC and frame[9] == frame_type
    assert (sum(frame[1:]) & 0xFF) == 0
    body = frame[10:-1]
    assert crc8.calculate(body[:-1]) == body[-1]
    return body[:-2]  # strip message id and CRC


def parse_get(data: bytes) -> list:
    assert data[0] == 0xB1
    ids = [int.from_bytes(data[2 + 2 * i:4 + 2 * i], "little") for i in range(data[1])]
    assert len(data) == 2 + 2 * data[1]
    return ids


def parse_set(data: bytes) -> list:
    assert data[0] == 0xB0
    out, pos = [], 2
    for _ in range(data[1]):
        pid = int.from_bytes(data[pos:pos + 2], "little")
        size = data[pos + 2]
        out.append((pid, bytes(data[pos + 3:pos + 3 + size])))
        pos += 3 + size
    assert pos == len(data)
    return out


def expected_value(prop, value) -> bytes:
    if prop == PropertyId.BREEZE_AWAY:
        return bytes([2 if value else 1])
    if prop == PropertyId.IECO:
        return bytes([0, 1, int(value)]) + bytes(10)
    return bytes([int(value)])


def main() -> int:
    n = 0
    # Every subset of up to 3 ids (all property ids are legal in a query), plus all of them
    subsets = [c for r in range(0, 4) for c in itertools.combinations(list(PropertyId), r)]
    subsets.append(tuple(PropertyId))
    for subset in subsets:
        for container in (list, set, tuple):
            body = check_frame(GetPropertiesCommand(container(subset)).tobytes(), 0x03)
            ids = parse_get(body)
            assert sorted(ids) == sorted(int(p) for p in subset), (subset, ids)
            n += 1

    # Property writes: each supported property with several values, alone and with the buzzer
    values = {
        PropertyId.SWING_UD_ANGLE: [0, 1, 25, 50, 75, 100],
        PropertyId.SWING_LR_ANGLE: [0, 1, 25, 50, 75, 100],
        PropertyId.BREEZELESS: [False, True],
        PropertyId.BREEZE_AWAY: [False, True],
        PropertyId.BREEZE_CONTROL: [1, 2, 3, 4],
        PropertyId.RATE_SELECT: [100, 75, 50, 90, 80],
        PropertyId.SELF_CLEAN: [False, True],
        PropertyId.IECO: [False, True],
        PropertyId.BUZZER: [False, True],
    }
    assert set(values) == set(SUPPORTED)
    for prop, vals in values.items():
        for v in vals:
            for beep in (None, False, True):
                props = {prop: v}
                if beep is not None:
                    props[PropertyId.BUZZER] = beep  # buzzer added last, like the device does
                body = check_frame(SetPropertiesCommand(props).tobytes(), 0x02)
                records = parse_set(body)
                want = sorted((int(p), expected_value(p, x)) for p, x in props.items())
                assert sorted(records) == want, (props, records)
                n += 1

    # Several properties at once
    for a, b in itertools.combinations(values, 2):
        props = {a: values[a][-1], b: values[b][-1], PropertyId.BUZZER: True}
        records = parse_set(check_frame(SetPropertiesCommand(props).tobytes(), 0x02))
        want = sorted((int(p), expected_value(p, x)) for p, x in props.items())
        assert sorted(records) == want
        n += 1

    # Unsupported properties cannot be written; out of range values are refused
    try:
        SetPropertiesCommand({PropertyId.ANION: True}).tobytes()
    except NotImplementedError as e:
        assert "encode is not supported" in str(e)
    else:
        raise AssertionError("ANION encode should fail")
    try:
        SetPropertiesCommand({PropertyId.SWING_UD_ANGLE: 256}).tobytes()
    except ValueError:
        pass
    else:
        raise AssertionError("256 should not fit")

    frame = SetPropertiesCommand({PropertyId.SWING_UD_ANGLE: 50, PropertyId.BUZZER: True}).tobytes()
    print("example write:", frame.hex())
    frame = GetPropertiesCommand([PropertyId.IECO, PropertyId.RATE_SELECT]).tobytes()
    print("example query:", frame.hex())
    print(f"OK: {n} property commands checked")
    return 0


if __name__ == "__main__":
    sys.exit(main())
