import asyncio
import logging
import struct
import sys
import time

import msmart.crc8 as crc8
from msmart.device import AirConditioner as AC
from msmart.device.AC.command import PropertyId
from msmart.frame import Frame
from msmart.lan import _Packet

# --------------------------------------------------------------------------------------
# A small V2 air conditioner on 127.0.0.1 (real TCP, no network): keeps a state, answers
# state / energy / humidity / capability / property queries, executes state and property
# writes and records every command frame it receives together with its arrival time.
# --------------------------------------------------------------------------------------


def _frame(body: bytes, frame_type: int = 0x03) -> bytes:
    body = bytes(body)
    body += bytes([crc8.calculate(body)])
    head = bytearray(10)
    head[0] = 0xAA
    head[1] = 10 + len(body)
    head[2] = 0xAC
    head[9] = frame_type
    frame = bytes(head) + body
    return frame + bytes([(~sum(frame[1:]) + 1) & 0xFF])


def check_frame(frame: bytes) -> None:
    """What a spec-conforming device parser checks (C12)."""
    assert frame[0] == 0xAA, "start byte"
    assert frame[1] == len(frame) - 1, "length byte"
    assert frame[2] == 0xAC, "appliance type"
    assert frame[9] in (0x02, 0x03), "frame type"
    assert sum(frame[1:]) & 0xFF == 0, "checksum"
    assert crc8.calculate(frame[10:-2]) == frame[-2], "crc8"


class FakeAC:
    def __init__(self) -> None:
        self.frames = []          # (arrival loop time, frame bytes)
        self.replied = []         # loop time at which each reply was written
        self.mute = lambda frame: False   # predicate: do not answer this frame
        self.connections = 0
        self.state = dict(power=False, temp=24.0, mode=2, fan=60, swing=0, eco=False, turbo=False,
                          sleep=False, fahrenheit=False, freeze=False, follow_me=False, purifier=False,
                          humidity=45, aux=False, indep_aux=False, display=True)
        self.props = {0x0009: 0, 0x000A: 0, 0x0018: 0, 0x0039: 0, 0x0042: 1, 0x0043: 1, 0x0048: 100,
                      0x00E3: 0, 0x001A: 0}
        self.prop_writes = []     # list of {id: bytes} per property write frame
        self.server = None
        self.port = 0

    async def start(self) -> "FakeAC":
        self.server = await asyncio.start_server(self._serve, "127.0.0.1", 0)
        self.port = self.server.sockets[0].getsockname()[1]
        return self

    async def stop(self) -> None:
        self.server.close()
        await self.server.wait_closed()

    # ---- wire ----
    async def _serve(self, reader, writer) -> None:
        self.connections += 1
        buf = b""
        loop = asyncio.get_running_loop()
        try:
            while True:
                data = await reader.read(4096)
                if not data:
                    break
                buf += data
                while len(buf) >= 6:
                    assert buf[:2] == b"\x5a\x5a", "V2 packet expected"
                    size = int.from_bytes(buf[4:6], "little")
                    if len(buf) < size:
                        break
                    packet, buf = buf[:size], buf[size:]
                    frame = _Packet.decode(packet)
                    self.frames.append((loop.time(), frame))
                    if self.mute(frame):
                        continue
                    for reply in self._execute(frame):
                        writer.write(_Packet.encode(1234, reply))
                    self.replied.append(loop.time())
        except (ConnectionError, asyncio.CancelledError):
            pass
        finally:
            writer.close()

    # ---- behaviour ----
    def _state_body(self) -> bytes:
        s = self.state
        b = bytearray(24)
        b[0] = 0xC0
        b[1] = 0x01 if s["power"] else 0
        whole = int(s["temp"])
        half = 0x10 if s["temp"] != whole else 0
        if 17 <= whole <= 30:
            b[2] = ((whole - 16) & 0xF) | half | (s["mode"] << 5)
        else:
            b[2] = half | (s["mode"] << 5)
            b[13] = (whole - 12) & 0x1F
        b[3] = s["fan"]
        b[7] = 0x30 | s["swing"]
        b[8] = (0x20 if s["turbo"] else 0) | (0x80 if s["follow_me"] else 0) | (0x40 if s["indep_aux"] else 0)
        b[9] = (0x10 if s["eco"] else 0) | (0x20 if s["purifier"] else 0) | (0x08 if s["aux"] else 0)
        b[10] = (0x01 if s["sleep"] else 0) | (0x02 if s["turbo"] else 0) | (0x04 if s["fahrenheit"] else 0)
        b[11] = 22 * 2 + 50
        b[12] = 30 * 2 + 50
        b[14] = 0x00 if s["display"] else 0x70
        b[19] = s["humidity"]
        b[21] = 0x80 if s["freeze"] else 0
        return bytes(b)

    def _execute(self, frame: bytes) -> list:
        body = frame[10:-2]
        kind = body[0]
        if kind == 0x40:  # state write
            s = self.state
            s["power"] = bool(body[1] & 0x01)
            alt = body[18] & 0x1F
            s["temp"] = float(alt + 12 if alt else (body[2] & 0xF) + 16) + (0.5 if body[2] & 0x10 else 0.0)
            s["mode"] = body[2] >> 5
            s["fan"] = body[3] & 0x7F
            s["swing"] = body[7] & 0x0F
            s["turbo"] = bool(body[8] & 0x20) or bool(body[10] & 0x02)
            s["follow_me"] = bool(body[8] & 0x80)
            s["eco"] = bool(body[9] & 0x80)
            s["purifier"] = bool(body[9] & 0x20)
            s["aux"] = bool(body[9] & 0x08)
            s["sleep"] = bool(body[10] & 0x01)
            s["fahrenheit"] = bool(body[10] & 0x04)
            s["humidity"] = body[19] & 0x7F
            s["freeze"] = bool(body[21] & 0x80)
            s["indep_aux"] = bool(body[22] & 0x08)
            return [_frame(self._state_body(), 0x02)]
        if kind == 0x41:
            if body[1] == 0x21 and body[3] == 0x44:  # energy
                b = bytearray(22)
                b[0], b[1], b[2], b[3] = 0xC1, 0x21, 0x01, 0x44
                b[4:8] = bytes([0x00, 0x01, 0x23, 0x45])
                b[16:19] = bytes([0x00, 0x12, 0x30])
                return [_frame(b)]
            if body[1] == 0x21 and body[3] == 0x45:  # humidity
                b = bytearray(22)
                b[0], b[1], b[2], b[3] = 0xC1, 0x21, 0x01, 0x45
                b[4] = 52
                return [_frame(b)]
            if body[1] & 0x80:  # state query
                return [_frame(self._state_body())]
            # display toggle
            self.state["display"] = not self.state["display"]
            return [_frame(self._state_body())]
        if kind == 0xB5:  # capabilities: swing angles, breeze control, 5 level rate select, ieco, energy, humidity
            recs = [(0x0009, 1), (0x000A, 1), (0x0043, 1), (0x0048, 3), (0x00E3, 1), (0x0039, 1),
                    (0x0216, 2), (0x021F, 1)]
            b = bytearray([0xB5, len(recs)])
            for cid, val in recs:
                b += struct.pack("<H", cid) + bytes([1, val])
            return [_frame(b)]
        if kind == 0xB1:  # property query
            count = body[1]
            ids = struct.unpack("<" + "H" * count, body[2:2 + 2 * count])
            b = bytearray([0xB1, count])
            for pid in ids:
                b += struct.pack("<H", pid) + bytes([0x00]) + self._prop_value(pid)
            return [_frame(b)]
        if kind == 0xB0:  # property write
            count = body[1]
            rest = body[2:]
            written = {}
            b = bytearray([0xB0, count])
            for _ in range(count):
                (pid,) = struct.unpack("<H", rest[0:2])
                size = rest[2]
                value = bytes(rest[3:3 + size])
                rest = rest[3 + size:]
                written[pid] = value
                if pid == 0x00E3:
                    self.props[pid] = value[2]
                else:
                    self.props[pid] = value[0]
                b += struct.pack("<H", pid) + bytes([0x00]) + self._prop_value(pid)
            self.prop_writes.append(written)
            return [_frame(b, 0x02)]
        return []

    def _prop_value(self, pid: int) -> bytes:
        v = self.props.get(pid, 0)
        if pid == 0x00E3:
            return bytes([2, 1, v])
        return bytes([1, v])


def message_ids(frames) -> list:
    return [f[-3] for _t, f in frames]


def assert_consecutive(ids) -> None:
    for a, b in zip(ids, ids[1:]):
        assert b == (a + 1) & 0xFF, f"message ids not consecutive: {ids}"


def kinds(frames) -> list:
    out = []
    for _t, f in frames:
        body = f[10:-2]
        if body[0] == 0x41:
            if body[1] == 0x21:
                out.append("energy" if body[3] == 0x44 else "humidity")
            elif body[1] & 0x80:
                out.append("state?")
            else:
                out.append("display")
        else:
            out.append({0x40: "state!", 0xB5: "caps?", 0xB1: "props?", 0xB0: "props!"}.get(body[0], hex(body[0])))
    return out


async def new_device(fake: FakeAC) -> AC:
    return AC(ip="127.0.0.1", port=fake.port, device_id=1234)

# --------------------------------------------------------------------------------------
# Demo 4: energy usage queries over a series of refreshes.
# --------------------------------------------------------------------------------------


def corrupt(frame: bytes) -> bytes:
    return frame[:-1] + bytes([frame[-1] ^ 0x5A])


def count(fake: FakeAC, kind: str, start: int = 0) -> int:
    return kinds(fake.frames[start:]).count(kind)


async def scenario_series() -> None:
    fake = await FakeAC().start()
    dev = await new_device(fake)
    await dev.get_capabilities()
    assert dev.enable_energy_usage_requests     # advertised by the unit

    await dev.refresh()
    assert count(fake, "energy") == 1
    assert abs(dev.total_energy_usage - 123.45) < 1e-6 and abs(dev.real_time_power_usage - 123.0) < 1e-6

    # A burst of refreshes: the state is queried every time and always current
    n = len(fake.frames)
    for i in range(6):
        fake.state["temp"] = 18.0 + i
        fake.state["power"] = bool(i % 2)
        await dev.refresh()
        assert dev.online and dev.target_temperature == 18.0 + i and dev.power_state is bool(i % 2)
        assert abs(dev.total_energy_usage - 123.45) < 1e-6
    assert count(fake, "state?", n) == 6
    assert 0 <= count(fake, "energy", n) <= 6
    print("6 quick refreshes: %d state queries, %d energy queries" % (count(fake, "state?", n), count(fake, "energy", n)))

    # Switching the number format shows figures in that format after the next refresh
    dev.use_alternate_energy_format = True
    await dev.refresh()
    assert abs(dev.total_energy_usage - 7456.5) < 1e-6, dev.total_energy_usage
    dev.use_alternate_energy_format = False
    await dev.refresh()
    assert abs(dev.total_energy_usage - 123.45) < 1e-6, dev.total_energy_usage

    # Disabled: never asked. Re-enabled: asked on the next refresh.
    dev.enable_energy_usage_requests = False
    n = len(fake.frames)
    await dev.refresh()
    await dev.refresh()
    assert count(fake, "energy", n) == 0
    dev.enable_energy_usage_requests = True
    n = len(fake.frames)
    await dev.refresh()
    assert count(fake, "energy", n) == 1
    print("format switch and disable/enable: ok")

    knob = hasattr(dev, "energy_usage_poll_interval")
    if knob:
        dev.energy_usage_poll_interval = 0
        n = len(fake.frames)
        await dev.refresh()
        await dev.refresh()
        assert count(fake, "energy", n) == 2
    print("poll interval attribute present:", knob)

    for _t, f in fake.frames:
        check_frame(f)
    assert_consecutive(message_ids(fake.frames))
    dev._lan._disconnect()
    await fake.stop()


async def scenario_bad_energy_answer() -> None:
    fake = await FakeAC().start()
    dev = await new_device(fake)
    dev.enable_energy_usage_requests = True
    genuine = fake._execute

    # Corrupted energy answer: not used, asked again by the next refresh
    fake._execute = lambda frame: [corrupt(r) if r[10] == 0xC1 else r for r in genuine(frame)]
    await dev.refresh()
    assert dev.online and dev.total_energy_usage is None
    assert count(fake, "energy") == 1
    fake._execute = genuine
    await dev.refresh()
    assert count(fake, "energy") == 2
    assert abs(dev.total_energy_usage - 123.45) < 1e-6
    print("corrupted energy answer: dropped, asked again, then read")
    dev._lan._disconnect()
    await fake.stop()

    # Unanswered energy query: refresh still online, asked again next time
    fake = await FakeAC().start()
    dev = await new_device(fake)
    dev.enable_energy_usage_requests = True
    fake.mute = lambda frame: kinds([(0, frame)]) == ["energy"]
    t0 = time.monotonic()
    await dev.refresh()
    assert dev.online and dev.total_energy_usage is None
    assert count(fake, "energy") == 3          # transmitted RETRIES times
    fake.mute = lambda frame: False
    n = len(fake.frames)
    await dev.refresh()
    assert count(fake, "energy", n) == 1 and abs(dev.total_energy_usage - 123.45) < 1e-6
    print("unanswered energy query (%.1f s): online, asked again, then read" % (time.monotonic() - t0))
    dev._lan._disconnect()
    await fake.stop()


def main() -> int:
    logging.basicConfig(level=logging.CRITICAL)
    asyncio.run(scenario_series())
    asyncio.run(scenario_bad_energy_answer())
    print("demo 4 OK")
    return 0


if __name__ == "__main__":
    sys.exit(main())
