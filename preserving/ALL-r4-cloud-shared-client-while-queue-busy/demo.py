"""Demo 1: life cycle of the HTTP client(s) behind a cloud object.

Runs a conforming fake NetHome Plus server on httpx.MockTransport and checks the things that
must hold however clients/connections are managed: every request verifies, results are right,
at most three attempts, every client that was opened is closed again once the object is idle.
"""
import asyncio
import hashlib
import json
import sys
from urllib.parse import parse_qsl, unquote_plus, urlencode

import httpx

from msmart.cloud import ApiError, CloudError, NetHomePlusCloud

APP_KEY = "3742e9e5842d4ad59c2db887e12449f9"
ACCOUNT, PASSWORD = "someone@example.com", "hunter2hunter2"
LOGIN_ID = "e3b0c44298fc1c149afbf4c8996fb924"
SESSION_ID = "5a6b7c8d9e0f"


class Server:
    def __init__(self):
        self.requests = []      # (path, fields)
        self.script = []        # per request: "ok" | "timeout" | "http500" | "api"
        self.tokens = {}
        self.clients = []
        self.problems = []

    def client(self, *args, **kwargs):
        c = httpx.AsyncClient(transport=httpx.MockTransport(self.handle))
        self.clients.append(c)
        return c

    def _verify(self, path, fields):
        sign = fields.pop("sign", None)
        query = unquote_plus(urlencode(sorted(fields.items())))
        good = hashlib.sha256((path + query + APP_KEY).encode()).hexdigest()
        if sign != good:
            self.problems.append(f"bad signature on {path}")
        if fields.get("appId") != "1017" or len(fields.get("stamp", "")) != 14:
            self.problems.append(f"bad common fields on {path}")

    async def handle(self, request: httpx.Request) -> httpx.Response:
        path = request.url.path
        fields = dict(parse_qsl(request.content.decode(), keep_blank_values=True))
        self.requests.append((path, dict(fields)))
        self._verify(path, fields)

        action = self.script.pop(0) if self.script else "ok"
        if action == "timeout":
            raise httpx.ReadTimeout("scripted timeout", request=request)
        if action == "http500":
            return httpx.Response(500, text="oops")
        if action == "api":
            return httpx.Response(200, text=json.dumps({"errorCode": "3102", "msg": "scripted"}))

        if path == "/v1/user/login/id/get":
            if fields.get("loginAccount") != ACCOUNT:
                self.problems.append("wrong account")
            result = {"loginId": LOGIN_ID}
        elif path == "/v1/user/login":
            h = hashlib.sha256(PASSWORD.encode()).hexdigest()
            good = hashlib.sha256((LOGIN_ID + h + APP_KEY).encode()).hexdigest()
            if fields.get("password") != good:
                self.problems.append("wrong password derivation")
            result = {"sessionId": SESSION_ID, "userId": "1"}
        elif path == "/v1/iot/secure/getToken":
            if fields.get("sessionId") != SESSION_ID:
                self.problems.append("wrong session id")
            await asyncio.sleep(0.01)
            result = {"tokenlist": [{"udpId": u, "token": t, "key": k} for u, (t, k) in self.tokens.items()]}
        else:
            return httpx.Response(404, text="?")
        return httpx.Response(200, text=json.dumps({"errorCode": "0", "result": result}))


def check(cond, what):
    if not cond:
        print("FAIL:", what)
        sys.exit(1)
    print("ok:", what)


async def main():
    srv = Server()
    srv.tokens = {f"{i:032x}": (f"T{i:0127x}", f"K{i:063x}") for i in range(1, 6)}
    cloud = NetHomePlusCloud("US", account=ACCOUNT, password=PASSWORD, get_async_client=srv.client)

    # 1. plain flow
    await cloud.login()
    check([p for p, _ in srv.requests] == ["/v1/user/login/id/get", "/v1/user/login"], "login makes two verified requests")
    tok = await cloud.get_token(f"{3:032x}")
    check(tok == srv.tokens[f"{3:032x}"], "token/key of the matching entry")

    # 2. several tasks share the object
    ids = [f"{i:032x}" for i in (1, 5, 2, 4)]
    res = await asyncio.gather(*(cloud.get_token(i) for i in ids))
    check(list(res) == [srv.tokens[i] for i in ids], "concurrent calls each get their own entry")

    # 3. two timeouts then an answer: exactly three attempts
    n = len(srv.requests)
    srv.script = ["timeout", "timeout", "ok"]
    tok = await cloud.get_token(f"{2:032x}")
    check(tok == srv.tokens[f"{2:032x}"] and len(srv.requests) - n == 3, "answered on the third attempt")

    # 4. three timeouts: CloudError after three attempts, next call fine
    n = len(srv.requests)
    srv.script = ["timeout", "timeout", "timeout"]
    try:
        await cloud.get_token(f"{2:032x}")
        check(False, "timeout should raise")
    except CloudError:
        pass
    check(len(srv.requests) - n == 3, "three attempts then CloudError")
    check(await cloud.get_token(f"{4:032x}") == srv.tokens[f"{4:032x}"], "works again after the failure")

    # 5. HTTP failure and API error: one attempt each
    for action, exc in (("http500", CloudError), ("api", ApiError)):
        n = len(srv.requests)
        srv.script = [action]
        try:
            await cloud.get_token(f"{2:032x}")
            check(False, f"{action} should raise")
        except exc:
            pass
        check(len(srv.requests) - n == 1, f"{action}: surfaced after a single attempt")

    # 6. cancellation in the middle of a queue of requests
    tasks = [asyncio.ensure_future(cloud.get_token(i)) for i in ids]
    await asyncio.sleep(0.005)
    tasks[0].cancel()
    tasks[2].cancel()
    out = await asyncio.gather(*tasks, return_exceptions=True)
    check(out[1] == srv.tokens[ids[1]] and out[3] == srv.tokens[ids[3]], "others unaffected by cancelled neighbours")
    check(await cloud.get_token(ids[0]) == srv.tokens[ids[0]], "object usable after cancellations")

    # 7. missing entry
    try:
        await cloud.get_token("f" * 32)
        check(False, "missing entry should raise")
    except CloudError:
        pass

    # Whatever the strategy, nothing stays open once the object is idle
    await asyncio.sleep(0)
    check(len(srv.clients) >= 1 and all(c.is_closed for c in srv.clients),
          f"all {len(srv.clients)} HTTP client(s) closed when idle")
    check(not srv.problems, f"server saw only conforming requests {srv.problems}")


asyncio.run(main())
