"""Demo 3: status reports, duplicates, corrupted and foreign frames that arrive in the middle of a
capabilities query or a display toggle.  The transport is replaced by a fake unit (the way the project's
own tests patch Device._send_command), so delivery order is deterministic.

Exits 0 on the original code and with change3.patch.
"""
import asyncio
import struct
import sys
from unittest.mock import patch

import msmart.crc8 as crc8
from msmart.const import DeviceType, FrameType
from msmart.device import AirConditioner as AC
from msmart.frame import Frame


class _Resp(Frame):
    def __init__(self, ftype):
        super().__init__(DeviceType.AIR_CONDITIONER, ftype)


def build(ftype, body: bytes) -> bytes:
    return _Resp(ftype).tobytes(bytes(body) + bytes([crc8.calculate(bytes(body))]))


class FakeUnit:
    """A V2 unit with state, humidity, energy, properties and capabilities."""

    def __init__(self):
        self.power = False
        self.mode = 2
        self.temp = 22.5
        self.fan = 60
        self.swing = 0xC
        self.eco = False
        self.turbo = False
        self.sleep = False
        self.fahrenheit = False
        self.display = True
        self.humidity_target = 45
        self.indoor_humidity = 51
        self.props = {0x0009: bytes([25]), 0x000A: bytes([50]), 0x0048: bytes([75]), 0x0039: bytes([0])}
        self.buzzer_writes = 0
        self.log = []                # (kind, frame) of every received command
        self.silent = False
        self.before = []             # frames delivered ahead of the next reply
        self.after = []              # frames delivered behind the next reply

    # -- frames ---------------------------------------------------------------------------
    def state_frame(self) -> bytes:
        b = bytearray(24)
        b[0] = 0xC0
        b[1] = 0x01 if self.power else 0
        whole = int(self.temp)
        b[2] = ((self.mode & 7) << 5) | ((whole - 16) & 0xF) | (0x10 if self.temp != whole else 0)
        b[3] = self.fan
        b[7] = 0x30 | self.swing
        b[8] = 0x20 if self.turbo else 0
        b[9] = 0x10 if self.eco else 0
        b[10] = (1 if self.sleep else 0) | (2 if self.turbo else 0) | (4 if self.fahrenheit else 0)
        b[11] = 50 + 2 * 24
        b[12] = 0xFF
        b[14] = 0x00 if self.display else 0x70
        b[19] = self.humidity_target
        return build(FrameType.QUERY, b)

    def humidity_frame(self) -> bytes:
        b = bytearray(21)
        b[0], b[1], b[2], b[3] = 0xC1, 0x21, 0x01, 0x45
        b[4] = self.indoor_humidity
        return build(FrameType.QUERY, b)

    def energy_frame(self) -> bytes:
        b = bytearray(21)
        b[0], b[1], b[2], b[3] = 0xC1, 0x21, 0x01, 0x44
        b[4:8] = bytes([0x00, 0x12, 0x34, 0x56])
        b[12:16] = bytes([0x00, 0x00, 0x01, 0x50])
        b[16:19] = bytes([0x00, 0x07, 0x50])
        return build(FrameType.QUERY, b)

    def caps_frame(self) -> bytes:
        recs = [
            (0x0009, [1]), (0x000A, [1]), (0x0048, [1]), (0x0039, [1]),
            (0x021F, [2]), (0x0216, [2]),
            (0x0214, [1]), (0x0215, [1]), (0x0210, [1]), (0x0224, [1]),
        ]
        b = bytearray([0xB5, len(recs)])
        for cid, data in recs:
            b += struct.pack("<H", cid) + bytes([len(data)]) + bytes(data)
        b += bytes([0, 0])
        return build(FrameType.QUERY, b)

    def props_frame(self, rid, ids) -> bytes:
        b = bytearray([rid, len(ids)])
        for i in ids:
            v = self.props.get(i, bytes([0]))
            b += struct.pack("<H", i) + bytes([0, len(v)]) + v
        b += bytes([0])
        return build(FrameType.QUERY, b)

    # -- request handling -----------------------------------------------------------------
    def handle(self, frame: bytes):
        body = frame[10:-1]
        kind = "other"
        replies = []
        if body[0] == 0x41 and body[1] == 0x81:
            kind, replies = "state", [self.state_frame()]
        elif body[0] == 0x41 and body[1] == 0x21 and body[3] == 0x44:
            kind, replies = "energy", [self.energy_frame()]
        elif body[0] == 0x41 and body[1] == 0x21 and body[3] == 0x45:
            kind, replies = "humidity", [self.humidity_frame()]
        elif body[0] == 0x41 and body[4] == 0x02:
            kind = "toggle"
            self.display = not self.display
            replies = [self.state_frame()]
        elif body[0] == 0x40:
            kind = "setstate"
            self.power = bool(body[1] & 1)
            self.mode = body[2] >> 5
            self.temp = (body[2] & 0xF) + 16 + (0.5 if body[2] & 0x10 else 0)
            self.fan = body[3]
            self.swing = body[7] & 0xF
            self.turbo = bool(body[8] & 0x20)
            self.eco = bool(body[9] & 0x80)
            self.sleep = bool(body[10] & 1)
            self.fahrenheit = bool(body[10] & 4)
            self.humidity_target = body[19]
            replies = [self.state_frame()]
        elif body[0] == 0xB5:
            kind, replies = "caps", [self.caps_frame()]
        elif body[0] == 0xB1:
            ids = [struct.unpack("<H", body[2 + 2 * n:4 + 2 * n])[0] for n in range(body[1])]
            kind, replies = "getprops", [self.props_frame(0xB1, ids)]
        elif body[0] == 0xB0:
            kind = "setprops"
            rest = body[2:]
            ids = []
            for _ in range(body[1]):
                pid, size = struct.unpack("<H", rest[0:2])[0], rest[2]
                if pid == 0x001A:
                    self.buzzer_writes += 1
                else:
                    self.props[pid] = bytes(rest[3:3 + size])
                    ids.append(pid)
                rest = rest[3 + size:]
            replies = [self.props_frame(0xB0, ids)]
        self.log.append((kind, frame))
        if self.silent:
            return []
        before, after = self.before, self.after
        self.before, self.after = [], []
        return before + replies + after


def check(cond, what):
    if not cond:
        print("FAIL:", what)
        sys.exit(1)
    print("ok:", what)


def corrupt(frame: bytes, index: int) -> bytes:
    """Flip a body byte and fix the outer checksum so only the body check byte is wrong."""
    f = bytearray(frame)
    f[index] ^= 0x5A
    f[-1] = Frame.checksum(bytes(f[1:-1]))
    return bytes(f)


def snapshot(dev):
    d = dev.to_dict()
    d.pop("online")
    d.pop("supported")
    return d


async def main():
    unit = FakeUnit()

    async def fake_send(self, command):
        return unit.handle(command.tobytes())

    with patch("msmart.base_device.Device._send_command", new=fake_send):
        dev = AC(ip="10.0.0.1", port=6444, device_id=1234)

        await dev.refresh()
        check(dev.online and dev.target_temperature == 22.5 and dev.fan_speed == 60, "first refresh")

        # a. somebody uses the remote; the unit pushes a status report that lands in the capabilities exchange
        unit.temp, unit.fan, unit.power = 27.0, 80, True
        unit.before = [unit.state_frame()]
        await dev.get_capabilities()
        check(dev.supports_vertical_swing_angle and dev.supports_humidity and dev.supports_self_clean
              and dev.supported_rate_selects == [AC.RateSelect.OFF, AC.RateSelect.GEAR_75, AC.RateSelect.GEAR_50],
              "capabilities read although a status report came first")
        print("   (status report taken during the capabilities query: %s)" % (dev.target_temperature == 27.0))
        await dev.refresh()
        check(dev.target_temperature == 27.0 and dev.fan_speed == 80 and dev.power_state, "refresh reports the unit's state")

        # b. a corrupted status report in the capabilities exchange changes nothing
        good = unit.state_frame()
        unit.temp = 18.0
        bad = corrupt(unit.state_frame(), 12)
        unit.temp = 27.0
        before = snapshot(dev)
        unit.before = [bad]
        unit.after = [corrupt(good, 13), bad[:-1] + bytes([bad[-1] ^ 1])]
        await dev.get_capabilities()
        check(snapshot(dev) == before, "corrupted reports are dropped, exposed state unchanged")
        check(dev.supports_horizontal_swing_angle, "capabilities still read")

        # c. property frames, duplicates, unknown ids and runts in the capabilities exchange
        before = snapshot(dev)
        unit.props[0x0009] = bytes([100])
        unit.before = [unit.props_frame(0xB1, [0x0009]), build(FrameType.QUERY, bytes([0x77, 1, 2, 3])),
                       build(FrameType.QUERY, bytes([0xC0, 1])), b"\xaa", b""]
        unit.after = [unit.caps_frame(), unit.caps_frame()]
        unit.props[0x0009] = bytes([25])
        await dev.get_capabilities()
        check(snapshot(dev) == before, "foreign frames in the capabilities exchange change no setting")

        # d. display toggle: acknowledgement plus a pushed humidity report
        was = dev.display_on
        unit.indoor_humidity = 63
        unit.after = [unit.humidity_frame()]
        await dev.toggle_display()
        check(dev.display_on == (not was), "display toggled and read back")
        check(dev.indoor_humidity == 63, "humidity as the unit reports it")

        # e. unit silent: refresh says offline; when it answers again everything works without intervention
        unit.silent = True
        await dev.refresh()
        check(not dev.online and not dev.supported, "silent unit offline and unsupported")
        await dev.get_capabilities()
        await dev.toggle_display()
        check(not dev.online and not dev.supported, "still offline after unanswered operations")
        unit.silent = False
        await dev.get_capabilities()
        check(dev.supported and dev.supports_vertical_swing_angle, "capabilities answered again")
        await dev.refresh()
        check(dev.online and dev.supported, "online again after refresh")

        # f. apply still works and a second client reads it back
        dev.target_temperature = 21.5
        dev.operational_mode = AC.OperationalMode.COOL
        dev.horizontal_swing_angle = AC.SwingAngle.POS_5
        await dev.apply()
        other = AC(ip="10.0.0.1", port=6444, device_id=1234)
        await other.get_capabilities()
        await other.refresh()
        check(other.target_temperature == 21.5 and other.operational_mode == AC.OperationalMode.COOL
              and other.horizontal_swing_angle == AC.SwingAngle.POS_5, "applied state read back by a second client")

    ids = [f[-3] for _, f in unit.log]
    check(all((b - a) % 256 == 1 for a, b in zip(ids, ids[1:])), "message ids advance by one")
    print("demo 3 passed")

if __name__ == "__main__":
    asyncio.run(main())
