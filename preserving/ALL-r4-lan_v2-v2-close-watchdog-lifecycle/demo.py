"""Demo 3: life cycle of a V2 connection - explicit disconnect, peer FIN, peer RST, a peer that
stops reading, use of a connection that is gone. Exits 0 on the original code and with change3.patch."""
import asyncio
import hashlib
import logging
import socket
import struct
import sys

from Crypto.Cipher import AES
from Crypto.Util import Padding

from msmart.lan import LAN, ProtocolError, _LanProtocol

SIGN_KEY = b"xhdiwjnchekd4d512chdjx5d8e4c394D2D7S"
ENC_KEY = hashlib.md5(SIGN_KEY).digest()
DEVICE_ID = 987654321

REQUEST = bytes.fromhex("aa21ac8d000000000003418100ff03ff000200000000000000000000000003016971")
RESP = bytes.fromhex("aa22ac00000000000303c0014566000000300010045cff2070000000000000008bed19")


def v2_encode(frame: bytes) -> bytes:
    payload = AES.new(ENC_KEY, AES.MODE_ECB).encrypt(Padding.pad(frame, 16))
    head = b"\x5a\x5a\x01\x11" + (40 + len(payload) + 16).to_bytes(2, "little") + b"\x20\x80"
    head += bytes(12) + DEVICE_ID.to_bytes(8, "little") + bytes(12)
    return head + payload + hashlib.md5(head + payload + SIGN_KEY).digest()


class Device:
    def __init__(self):
        self.mode = "answer"
        self.connections = 0
        self.stuck = asyncio.Event()

    async def handle(self, reader, writer):
        self.connections += 1
        try:
            while True:
                if self.mode == "stuck":
                    await self.stuck.wait()  # stops reading
                    break
                data = await reader.read(4096)
                if not data:
                    break
                if self.mode == "answer":
                    writer.write(v2_encode(RESP))
                elif self.mode == "answer-close":
                    writer.write(v2_encode(RESP))
                    await writer.drain()
                    break
                elif self.mode == "reset":
                    sock = writer.get_extra_info("socket")
                    sock.setsockopt(socket.SOL_SOCKET, socket.SO_LINGER, struct.pack("ii", 1, 0))
                    writer.transport.abort()
                    return
                elif self.mode == "silent":
                    pass
                await writer.drain()
        except ConnectionError:
            pass
        finally:
            writer.close()


async def exchange(lan, retries=1):
    try:
        return await lan.send(REQUEST, retries=retries)
    except ProtocolError:
        return "protocol-error"
    except TimeoutError:
        return "timeout"


async def main() -> int:
    logging.getLogger("msmart").setLevel(logging.CRITICAL)
    failures = []

    def check(name, ok, detail=""):
        print(f"{'ok  ' if ok else 'FAIL'} {name} {detail}")
        if not ok:
            failures.append(name)

    device = Device()
    server = await asyncio.start_server(device.handle, "127.0.0.1", 0)
    lan = LAN("127.0.0.1", server.sockets[0].getsockname()[1], DEVICE_ID)

    # Connection is kept between exchanges
    check("first", await exchange(lan) == [RESP])
    check("second", await exchange(lan) == [RESP])
    check("one connection", device.connections == 1, device.connections)
    repr(lan._protocol)

    # Explicit disconnect: old protocol becomes unusable, next exchange reconnects
    old = lan._protocol
    lan._disconnect()
    check("not alive after disconnect", not old.alive)
    old.disconnect()  # again: harmless
    try:
        old.write(b"data")
        check("write after disconnect", False)
    except ProtocolError as e:
        check("write after disconnect", True, repr(str(e)))
    await asyncio.sleep(0.05)
    repr(old)
    check("after disconnect", await exchange(lan) == [RESP])
    check("two connections", device.connections == 2, device.connections)

    # Peer answers and closes (FIN): answer used, then a new connection
    device.mode = "answer-close"
    check("answer then FIN", await exchange(lan) == [RESP])
    await asyncio.sleep(0.05)
    old = lan._protocol
    check("not alive after FIN", not old.alive and not lan._alive)
    try:
        old.write(b"data")
        check("write after FIN", False)
    except ProtocolError as e:
        check("write after FIN", True, repr(str(e)))
    device.mode = "answer"
    check("after FIN", await exchange(lan) == [RESP])
    check("three connections", device.connections == 3, device.connections)

    # Peer resets the connection instead of answering
    device.mode = "reset"
    out = await exchange(lan)
    check("RST", out in ("timeout", "protocol-error"), out)
    device.mode = "answer"
    check("after RST", await exchange(lan) == [RESP])

    # Silent peer: timeout after the retries, then recovery
    device.mode = "silent"
    t0 = asyncio.get_running_loop().time()
    out = await exchange(lan, retries=2)
    took = asyncio.get_running_loop().time() - t0
    check("silent", out == "timeout" and 3.9 < took < 4.5, f"{out} {took:.2f}s")
    device.mode = "answer"
    check("after silent", await exchange(lan) == [RESP])

    # Peer that stops reading while we have a lot queued: closing can't finish by itself
    device.mode = "stuck"
    lan._disconnect()
    await lan._connect()
    proto = lan._protocol
    blob = bytes(1 << 20)
    for _ in range(16):
        proto.write(blob)
    pending = proto._transport.get_write_buffer_size()
    lan._disconnect()
    check("not alive while closing", not proto.alive, f"{pending} bytes unsent")
    await asyncio.sleep(2.5)
    repr(proto)
    print("     stuck connection:", "still flushing" if proto._transport.get_write_buffer_size() else "gone")
    device.mode = "answer"
    check("after stuck", await exchange(lan) == [RESP])
    device.stuck.set()

    # A protocol that never had a connection
    fresh = _LanProtocol()
    repr(fresh)
    check("fresh not alive", not fresh.alive)
    for call in (fresh.disconnect, lambda: fresh.write(b"x")):
        try:
            call()
            check("fresh raises IOError", False)
        except IOError:
            check("fresh raises IOError", True)

    lan._disconnect()
    server.close()
    await asyncio.sleep(0.1)
    return 1 if failures else 0


if __name__ == "__main__":
    sys.exit(asyncio.run(main()))
