"""Demo 1: Device._send_command / Device.authenticate behaviour (stubbed LAN and loopback V3 device)."""
import asyncio
import logging
import os
import sys
from hashlib import sha256

from Crypto.Cipher import AES

from msmart.base_device import Device
from msmart.const import DeviceType, FrameType
from msmart.device.AC.command import GetStateCommand
from msmart.frame import Frame
from msmart.lan import AuthenticationError, ProtocolError, _Packet

logging.basicConfig(level=logging.CRITICAL)


def cbc(key, data, enc):
    c = AES.new(key, AES.MODE_CBC, iv=bytes(16))
    return c.encrypt(data) if enc else c.decrypt(data)


class FakeV3Device(asyncio.Protocol):
    """Minimal V3 device: answers the handshake, echoes each command frame back."""

    def __init__(self, token, key, log):
        self.token, self.key, self.log = token, key, log
        self.buf = b""
        self.local_key = None
        self.count = 0

    def connection_made(self, transport):
        self.transport = transport

    def data_received(self, data):
        self.buf += data
        while len(self.buf) >= 6:
            assert self.buf[:2] == b"\x83\x70"
            total = int.from_bytes(self.buf[2:4], "big") + 8
            if len(self.buf) < total:
                return
            packet, self.buf = self.buf[:total], self.buf[total:]
            self.handle(packet)

    def handle(self, packet):
        ptype = packet[5] & 0xF
        counter = int.from_bytes(packet[6:8], "big") if ptype == 0 else None
        if ptype == 0:
            self.log.append(("handshake", counter, packet[8:]))
            if packet[8:] != self.token:
                self.transport.write(b"\x83\x70\x00\x00\x20\x0f\x00\x00")
                return
            plain = os.urandom(32)
            body = cbc(self.key, plain, True) + sha256(plain).digest()
            self.local_key = bytes(a ^ b for a, b in zip(plain, self.key))
            self.transport.write(
                b"\x83\x70" + len(body).to_bytes(2, "big") + b"\x20\x01" + bytes(2) + body)
        elif ptype == 6:
            assert self.local_key is not None
            plain = cbc(self.local_key, packet[6:-32], False)
            assert sha256(packet[:6] + plain).digest() == packet[-32:]
            pad = packet[5] >> 4
            counter = int.from_bytes(plain[:2], "big")
            frame = _Packet.decode(plain[2:len(plain) - pad])
            self.log.append(("data", counter, frame))
            # Reply with the same frame
            data = _Packet.encode(1234, frame)
            rem = (len(data) + 2) % 16
            pad = 16 - rem if rem else 0
            header = b"\x83\x70" + \
                (len(data) + pad + 32).to_bytes(2, "big") + \
                b"\x20" + bytes([pad << 4 | 3])
            payload = self.count.to_bytes(2, "big") + data + os.urandom(pad)
            self.count += 1
            self.transport.write(
                header + cbc(self.local_key, payload, True) + sha256(header + payload).digest())


class StubLan:
    """Stand-in for LAN with scripted outcomes."""

    def __init__(self):
        self.sent = []
        self.outcomes = []
        self.token = None
        self.key = None

    async def send(self, data, retries=3):
        self.sent.append(data)
        await asyncio.sleep(0.01)
        outcome = self.outcomes.pop(0) if self.outcomes else [data]
        if isinstance(outcome, BaseException):
            raise outcome
        return outcome

    async def authenticate(self, token=None, key=None, retries=3):
        outcome = self.outcomes.pop(0)
        if isinstance(outcome, BaseException):
            raise outcome


def check(cond, what):
    if not cond:
        print("FAIL:", what)
        sys.exit(1)
    print("ok:", what)


async def stubbed():
    dev = Device(ip="10.0.0.1", port=6444, device_id=1,
                 device_type=DeviceType.AIR_CONDITIONER)
    dev._lan = stub = StubLan()

    cmd = Frame(DeviceType.AIR_CONDITIONER, FrameType.QUERY)
    stub.outcomes = [[b"one", b"two"]]
    check(await dev._send_command(cmd) == [b"one", b"two"], "responses are returned in order")
    check(stub.sent == [cmd.tobytes()], "the serialized frame is what is handed to the LAN layer")

    stub.outcomes = [ProtocolError("boom")]
    check(await dev._send_command(cmd) == [], "protocol error gives no responses")
    stub.outcomes = [TimeoutError("slow")]
    check(await dev._send_command(cmd) == [], "timeout gives no responses")
    stub.outcomes = [[]]
    check(await dev._send_command(cmd) == [], "empty exchange gives no responses")

    # Consecutive AC commands carry consecutive message ids
    stub.sent.clear()
    for _ in range(3):
        await dev._send_command(GetStateCommand())
    ids = [f[-3] for f in stub.sent]
    check([(b - a) % 256 for a, b in zip(ids, ids[1:])] == [1, 1], "message ids advance by one")

    # Concurrent callers each get their own answer
    stub.sent.clear()
    results = await asyncio.gather(*(dev._send_command(GetStateCommand()) for _ in range(4)))
    check(len(stub.sent) == 4 and sorted(r[0] for r in results) == sorted(stub.sent),
          "four concurrent commands: four exchanges, each answered")

    for exc in (ProtocolError("bad"), TimeoutError("late"), AuthenticationError("no")):
        stub.outcomes = [exc]
        try:
            await dev.authenticate(bytes(64), bytes(32))
            check(False, "authenticate should raise")
        except AuthenticationError as e:
            check(e.__cause__ is exc, f"{type(exc).__name__} during authenticate -> AuthenticationError")

    stub.outcomes = [None]
    await dev.authenticate(bytes(64).hex(), bytes(32).hex())
    check(True, "authenticate succeeds when the LAN layer does")


async def loopback(as_hex):
    token, key = os.urandom(64), os.urandom(32)
    log = []
    loop = asyncio.get_running_loop()
    server = await loop.create_server(lambda: FakeV3Device(token, key, log), "127.0.0.1", 0)
    port = server.sockets[0].getsockname()[1]

    dev = Device(ip="127.0.0.1", port=port, device_id=1234,
                 device_type=DeviceType.AIR_CONDITIONER)
    try:
        await dev.authenticate(os.urandom(64), key)
        check(False, "wrong token must not authenticate")
    except AuthenticationError:
        check(dev.token is None and dev.key is None, "failed authentication stores nothing")

    await dev.authenticate(token.hex() if as_hex else token, key.hex() if as_hex else key)
    check(dev.token == token.hex() and dev.key == key.hex(), "token/key exposed as hex after success")

    sent = []
    for _ in range(3):
        cmd = GetStateCommand()
        responses = await dev._send_command(cmd)
        sent.append(responses[0])
        check(len(responses) == 1 and responses[0][:2] == b"\xaa" + bytes([len(responses[0]) - 1]),
              "command frame echoed back through V3 + V2 layers")

    data = [e for e in log if e[0] == "data"]
    check([e[2] for e in data] == sent, "device received exactly the frames sent")
    good = [e for e in log if e[0] == "handshake" and e[2] == token]
    check(len(good) == 1, "one handshake with the configured token")
    counters = [e[1] for e in log[log.index(good[0]):]]
    check(counters == list(range(counters[0], counters[0] + len(counters))), "packet counters advance by one")

    dev._lan._disconnect()
    server.close()
    await server.wait_closed()


async def main():
    await stubbed()
    await loopback(True)
    await loopback(False)
    print("demo 1 passed")

asyncio.run(main())
