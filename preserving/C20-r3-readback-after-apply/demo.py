"""Demonstration for C20: `msmart-ng control` applies the documented meaning of each setting=value pair.

Runs msmart.cli.main() against a small simulated V2 air conditioner listening on 127.0.0.1:6444 and checks the state
of the simulated unit and the process exit status.  Exits 0 when every expectation holds.
"""
import asyncio
import logging
import sys
import threading

import msmart.crc8 as crc8
from msmart import cli
from msmart.const import DeviceType, FrameType
from msmart.frame import Frame
from msmart.lan import _Packet

HOST = "127.0.0.1"
PORT = 6444

INITIAL = dict(power=True, temp=23.0, mode=4, fan=60, swing=0xC, eco=True, turbo=False, sleep=False,
               fahrenheit=False, follow_me=False, purifier=True, humidity=55, freeze=False, aux=False,
               ind_aux=False, display=True)


class SimAC:
    """A very small model of a V2 unit: state query, set state and display toggle."""

    def __init__(self):
        self.state = dict(INITIAL)
        self.frames = []       # (kind, body) of every command frame received
        self.connections = 0   # accepted TCP connections
        self.closed = 0        # connections that ended with an orderly EOF from the client
        self.last_beep = None
        self.silent = False    # when set the unit accepts connections but never answers
        self.silent_after_set = False   # when set the unit stops answering once it has accepted a set command
        self.fixed_mode = False         # when set the unit keeps its operational mode whatever is requested

    def reset(self, **changes):
        self.silent = self.silent_after_set = self.fixed_mode = False
        self.state = dict(INITIAL, **changes)
        self.frames.clear()
        self.connections = 0
        self.closed = 0
        self.last_beep = None

    def count(self, kind):
        return sum(1 for k, _ in self.frames if k == kind)

    # --- wire format -------------------------------------------------------------------------------------------
    def _c0(self, frame_type):
        s = self.state
        p = bytearray(24)
        p[0] = 0xC0
        p[1] = 0x01 if s["power"] else 0
        whole = int(s["temp"])
        half = 0x10 if s["temp"] - whole else 0
        if 17 <= whole <= 30:
            p[2] = ((whole - 16) & 0xF) | half | (s["mode"] << 5)
        else:
            p[2] = half | (s["mode"] << 5)
            p[13] = (whole - 12) & 0x1F
        p[3] = s["fan"]
        p[4], p[5] = 0x7F, 0x7F
        p[7] = s["swing"] & 0xF
        p[8] = (0x20 if s["turbo"] else 0) | (0x40 if s["ind_aux"] else 0) | (0x80 if s["follow_me"] else 0)
        p[9] = (0x10 if s["eco"] else 0) | (0x20 if s["purifier"] else 0) | (0x08 if s["aux"] else 0)
        p[10] = (0x01 if s["sleep"] else 0) | (0x02 if s["turbo"] else 0) | (0x04 if s["fahrenheit"] else 0)
        p[11] = 50 + 2 * 24
        p[12] = 50 + 2 * 30
        p[14] = 0x00 if s["display"] else 0x70
        p[19] = s["humidity"] & 0x7F
        p[21] = 0x80 if s["freeze"] else 0
        payload = bytes(p)
        payload += bytes([crc8.calculate(payload)])
        return Frame(DeviceType.AIR_CONDITIONER, frame_type).tobytes(payload)

    def _set(self, b):
        s = self.state
        self.last_beep = bool(b[1] & 0x40)
        s["power"] = bool(b[1] & 0x01)
        if b[18] & 0x1F:
            temp = (b[18] & 0x1F) + 12.0
        else:
            temp = (b[2] & 0xF) + 16.0
        s["temp"] = temp + (0.5 if b[2] & 0x10 else 0.0)
        s["mode"] = (b[2] >> 5) & 0x7
        s["fan"] = b[3]
        s["swing"] = b[7] & 0xF
        s["follow_me"] = bool(b[8] & 0x80)
        s["turbo"] = bool(b[8] & 0x20) or bool(b[10] & 0x02)
        s["eco"] = bool(b[9] & 0x80)
        s["purifier"] = bool(b[9] & 0x20)
        s["aux"] = bool(b[9] & 0x08)
        s["sleep"] = bool(b[10] & 0x01)
        s["fahrenheit"] = bool(b[10] & 0x04)
        s["humidity"] = b[19] & 0x7F
        s["freeze"] = bool(b[21] & 0x80)
        s["ind_aux"] = bool(b[22] & 0x08)

    def handle(self, frame):
        ftype, body = frame[9], frame[10:-1]
        if self.silent:
            self.frames.append(("ignored", bytes(body)))
            return None
        if body[0] == 0x40 and ftype == FrameType.CONTROL:
            self.frames.append(("set", bytes(body)))
            mode = self.state["mode"]
            self._set(body)
            if self.fixed_mode:
                self.state["mode"] = mode
            reply = self._c0(FrameType.CONTROL)
            self.silent = self.silent_after_set
            return reply
        if body[0] == 0x41 and body[1] == 0x81:
            self.frames.append(("get", bytes(body)))
            return self._c0(FrameType.QUERY)
        if body[0] == 0x41 and body[3] == 0xFF and body[4] == 0x02:
            self.frames.append(("toggle", bytes(body)))
            self.last_beep = bool(body[1] & 0x40)
            self.state["display"] = not self.state["display"]
            return self._c0(FrameType.QUERY)
        self.frames.append(("other", bytes(body)))
        return None   # capabilities, properties, ...: this unit stays silent

    # --- server ------------------------------------------------------------------------------------------------
    async def _client(self, reader, writer):
        self.connections += 1
        buf = b""
        try:
            while True:
                data = await reader.read(4096)
                if not data:
                    self.closed += 1
                    break
                buf += data
                while len(buf) >= 6:
                    length = int.from_bytes(buf[4:6], "little")
                    if len(buf) < length:
                        break
                    packet, buf = buf[:length], buf[length:]
                    reply = self.handle(_Packet.decode(packet))
                    if reply is not None:
                        writer.write(_Packet.encode(int.from_bytes(packet[20:28], "little"), reply))
                        await writer.drain()
        except (ConnectionError, OSError):
            pass
        finally:
            writer.close()

    def start(self):
        ready = threading.Event()

        def run():
            loop = asyncio.new_event_loop()
            asyncio.set_event_loop(loop)
            loop.run_until_complete(asyncio.start_server(self._client, HOST, PORT))
            ready.set()
            loop.run_forever()

        threading.Thread(target=run, daemon=True).start()
        assert ready.wait(5), "simulated unit did not start"


def run_cli(*argv):
    """Run msmart.cli.main() with argv and return the exit status."""
    old = sys.argv
    sys.argv = ["msmart-ng", *argv]
    try:
        cli.main()
    except SystemExit as e:
        code = e.code
        return 0 if code is None else code
    except Exception as e:  # an escaping exception ends a real process with status 1
        print("  (uncaught %s: %s)" % (type(e).__name__, e))
        return 1
    finally:
        sys.argv = old
        logging.getLogger().handlers.clear()
    raise AssertionError("main() returned")


FAILURES = []


def check(label, cond):
    print(("ok   " if cond else "FAIL ") + label)
    if not cond:
        FAILURES.append(label)


def expect_state(label, sim, **changes):
    want = dict(INITIAL, **changes)
    diff = {k: (sim.state[k], want[k]) for k in want if sim.state[k] != want[k]}
    check(label + (" " + str(diff) if diff else ""), not diff)


def main():
    sim = SimAC()
    sim.start()

    # 1. The README example: names, float number, raw fan speed, display and beep
    sim.reset(display=False)
    rc = run_cli("control", HOST, "operational_mode=cool", "target_temperature=20.5", "fan_speed=100",
                 "display_on=True", "beep=0")
    check("readme example exits 0", rc == 0)
    expect_state("readme example applied, rest untouched", sim, mode=2, temp=20.5, fan=100, display=True)
    check("display toggled exactly once", sim.count("toggle") == 1)
    check("beep=0 honoured", sim.last_beep is False)

    # 2. Letter case, integer member values, raw fan speed outside the enumeration
    sim.reset()
    rc = run_cli("control", HOST, "operational_mode=FaN_oNlY", "swing_mode=15", "fan_speed=55")
    check("mixed case / integers exit 0", rc == 0)
    expect_state("mixed case / integers applied", sim, mode=5, swing=0xF, fan=55)

    # 3. Boolean spellings and an int number, display already as requested: no toggle
    sim.reset()
    rc = run_cli("control", HOST, "eco=0", "turbo=true", "sleep=1", "purifier=False", "target_humidity=45",
                 "display_on=1", "beep=True")
    check("booleans exit 0", rc == 0)
    expect_state("booleans applied", sim, eco=False, turbo=True, sleep=True, purifier=False, humidity=45)
    check("display not toggled when equal", sim.count("toggle") == 0)
    check("beep=True honoured", sim.last_beep is True)

    # 4. Display only
    sim.reset()
    rc = run_cli("control", HOST, "display_on=0")
    check("display only exits 0", rc == 0)
    expect_state("display switched off, rest untouched", sim, display=False)

    # 5. Values the unit already reports: state must stay as requested
    sim.reset()
    rc = run_cli("control", HOST, "eco=1", "target_temperature=23", "power_state=True")
    check("already-set values exit 0", rc == 0)
    expect_state("already-set values still set, rest untouched", sim)

    # 6. One differing, one equal
    sim.reset()
    rc = run_cli("control", HOST, "eco=1", "power_state=0")
    check("mixed equal/different exits 0", rc == 0)
    expect_state("power switched off, rest untouched", sim, power=False)

    # 7. Invalid names and values: non-zero exit, nothing sent
    for bad in (["foo=1"], ["indoor_temperature=20"], ["operational_mode=banana"], ["operational_mode=99"],
                ["eco=maybe"], ["target_temperature=warm"], ["eco=1", "swing_mode=sideways"],
                ["online=1"], ["to_dict=1"]):
        sim.reset()
        rc = run_cli("control", HOST, *bad)
        check("%s rejected with non-zero exit" % bad, rc not in (0, None))
        check("%s sent nothing" % bad, sim.connections == 0 and not sim.frames)
        expect_state("%s left the unit alone" % bad, sim)

    # 8. A unit that does not honour one of the requested settings: the others are applied, exit status stays 0
    sim.reset()
    sim.fixed_mode = True
    rc = run_cli("control", HOST, "operational_mode=dry", "target_temperature=18", "follow_me=1")
    check("unit with a fixed mode: exit 0", rc == 0)
    expect_state("unit with a fixed mode: other settings applied", sim, temp=18.0, follow_me=True)
    check("unit with a fixed mode: one set command", sim.count("set") == 1)

    # 9. A unit that stops answering right after it accepted the set command: settings are in, exit status stays 0
    sim.reset()
    sim.silent_after_set = True
    rc = run_cli("control", HOST, "swing_mode=horizontal", "freeze_protection=1")
    check("unit silent after set: exit 0", rc == 0)
    expect_state("unit silent after set: settings applied", sim, swing=0x3, freeze=True)
    check("unit silent after set: one set command", sim.count("set") == 1)

    # 10. Whatever is exchanged after the set command must not alter the unit
    sim.reset()
    rc = run_cli("control", HOST, "fan_speed=high", "fahrenheit=1")
    check("plain run exits 0", rc == 0)
    kinds = [k for k, _ in sim.frames]
    check("only queries follow the set command %s" % kinds,
          all(k == "get" for k in kinds[kinds.index("set") + 1:]))
    expect_state("plain run applied", sim, fan=80, fahrenheit=True)

    print("%d failure(s)" % len(FAILURES))
    return 1 if FAILURES else 0


if __name__ == "__main__":
    code = main()
    sys.stdout.flush()
    sys.exit(code)
