"""Demonstration for C17: discovery reports each replying device with exactly its advertised identity.

Runs Discover.discover()/discover_single() against (a) a simulated broadcast network that replaces the
loop's datagram endpoint and (b) real UDP sockets on the loopback interface, and checks every reported
field, the device class and the probe that was sent. Exits 0 on success.
"""
import asyncio
import contextvars
import logging
import random
import socket
import sys

from msmart.const import DISCOVERY_MSG
from msmart.device import AirConditioner, Device
from msmart.discover import Discover
from msmart.lan import Security

EXPECTED_PROBE = bytes.fromhex(
    "5a5a01114800920000000000000000000000000000000000000000000000000000000000000000007f75bd6b3e4f8b76"
    "2e849c6e578d6590036e9d4342a50f1f569eb8ec918e92e5")


def build_reply(version, device_id, port, sn, name, reported_ip):
    plain = bytes(reversed(socket.inet_aton(reported_ip)))
    plain += port.to_bytes(2, "little") + bytes(2)
    plain += sn.encode().ljust(32, b"0")[:32]
    plain += bytes([len(name)]) + name.encode()
    plain += bytes.fromhex("00000000020000000000") + bytes(8)
    enc = Security.encrypt_aes(plain)
    length = 40 + len(enc) + 16
    header = b"\x5a\x5a\x01\x11" + length.to_bytes(2, "little") + b"\x7a\x80"
    header += bytes(4) + bytes(8) + device_id.to_bytes(6, "little") + bytes(2) + bytes(12)
    assert len(header) == 40
    packet = header + enc
    packet += Security.sign(packet)
    if version == 3:
        packet = b"\x83\x70" + len(packet).to_bytes(2, "big") + b"\x20\x0f\x00\x00" + packet
        packet += Security.sign(packet)
    return packet


class SimDevice:
    def __init__(self, rng, ip, version, type_byte, same_ip=True, listen_port=6445, delay=0.0):
        self.ip = ip
        self.version = version
        self.type_byte = type_byte
        self.device_id = rng.getrandbits(48)
        self.port = rng.randint(1, 65535)
        self.sn = "".join(rng.choice("0123456789ABCDEFPQ") for _ in range(32))
        suffix = "".join(rng.choice("0123456789ABCDEF") for _ in range(4))
        fmt = rng.choice(["%02x", "%02X"])
        self.name = "net_" + (fmt % type_byte) + "_" + suffix
        self.reported_ip = ip if same_ip else "192.168.%d.%d" % (rng.randint(0, 255), rng.randint(1, 254))
        self.listen_port = listen_port
        self.delay = delay
        self.probes = []

    def reply(self):
        return build_reply(self.version, self.device_id, self.port, self.sn, self.name, self.reported_ip)

    def check(self, dev):
        assert dev.ip == self.ip, (dev.ip, self.ip)
        assert dev.port == self.port, (dev.port, self.port)
        assert dev.id == self.device_id, (dev.id, self.device_id)
        assert dev.sn == self.sn, (dev.sn, self.sn)
        assert dev.name == self.name, (dev.name, self.name)
        assert dev.type == self.type_byte, (dev.type, self.type_byte)
        assert dev.version == self.version, (dev.version, self.version)
        if self.type_byte == 0xAC:
            assert isinstance(dev, AirConditioner), type(dev)
        else:
            assert isinstance(dev, Device) and not isinstance(dev, AirConditioner), type(dev)


class FakeSocket:
    def setsockopt(self, *args):
        pass


class FakeTransport(asyncio.DatagramTransport):
    """A broadcast domain: every probe reaches every simulated device listening on that port."""

    def __init__(self, loop, protocol, devices):
        super().__init__(extra={"socket": FakeSocket()})
        self._loop = loop
        self._protocol = protocol
        self._devices = devices
        self._closing = False
        self.sent = []

    def sendto(self, data, addr=None):
        assert not self._closing
        self.sent.append((bytes(data), addr))
        for d in self._devices:
            if addr[1] == d.listen_port and addr[0] in ("255.255.255.255", d.ip):
                d.probes.append(bytes(data))
                if bytes(data) == EXPECTED_PROBE:
                    self._loop.call_later(d.delay, self._deliver, d.reply(), (d.ip, d.listen_port))

    def _deliver(self, data, addr):
        if not self._closing:
            self._protocol.datagram_received(data, addr)

    def is_closing(self):
        return self._closing

    def close(self):
        if not self._closing:
            self._closing = True
            self._loop.call_soon(self._protocol.connection_lost, None)

    def abort(self):
        self.close()


_SIM = contextvars.ContextVar("simulated_network", default=None)


def install_simulation(loop):
    """Route datagram endpoints created inside simulated() to the fake broadcast domain."""
    original = loop.create_datagram_endpoint

    async def endpoint(factory, *args, **kw):
        sim = _SIM.get()
        if sim is None:
            return await original(factory, *args, **kw)
        protocol = factory()
        transport = FakeTransport(loop, protocol, sim["devices"])
        sim["transport"] = transport
        loop.call_soon(protocol.connection_made, transport)
        await asyncio.sleep(0)
        return transport, protocol

    loop.create_datagram_endpoint = endpoint


async def simulated(devices, **kwargs):
    async def run():
        sim = {"devices": devices}
        _SIM.set(sim)
        kwargs.setdefault("auto_connect", False)
        found = await Discover.discover(**kwargs)
        return found, sim["transport"]

    # Own task, own context: simultaneous simulations do not see each other
    return await asyncio.create_task(run())


class LoopbackDevice(asyncio.DatagramProtocol):
    def __init__(self, sim):
        self.sim = sim

    def connection_made(self, transport):
        self.transport = transport

    def datagram_received(self, data, addr):
        self.sim.probes.append(bytes(data))
        if bytes(data) == EXPECTED_PROBE:
            self.transport.sendto(self.sim.reply(), addr)


def loop_time():
    return asyncio.get_running_loop().time()


async def main():
    rng = random.Random(17)
    assert DISCOVERY_MSG == EXPECTED_PROBE
    install_simulation(asyncio.get_running_loop())

    # (a) simulated broadcast domain with every appliance type byte, both versions, both ports
    devices = []
    n = 0
    for type_byte in list(range(256)):
        n += 1
        devices.append(SimDevice(rng, "10.1.%d.%d" % (n // 200, n % 200 + 1),
                                 version=rng.choice([2, 3]), type_byte=type_byte,
                                 same_ip=rng.random() < 0.5,
                                 listen_port=rng.choice([6445, 20086]),
                                 delay=rng.choice([0.0, 0.01, 0.1, 0.25])))
    for version in (2, 3):
        n += 1
        devices.append(SimDevice(rng, "10.200.0.%d" % version, version=version, type_byte=0xAC))
    assert len({d.ip for d in devices}) == len(devices)

    started = loop_time()
    found, transport = await simulated(devices, timeout=0.6)
    elapsed = loop_time() - started
    assert elapsed < 0.6 + 1.0, elapsed
    assert len(found) == len(devices), (len(found), len(devices))
    for port in (6445, 20086):
        count = sum(1 for _, addr in transport.sent if addr[1] == port)
        assert 1 <= count <= 3, (port, count)
    by_ip = {d.ip: d for d in found}
    assert len(by_ip) == len(devices)
    for sim in devices:
        sim.check(by_ip[sim.ip])
        assert sim.probes and all(p == EXPECTED_PROBE for p in sim.probes)
    assert transport.sent and all(data == EXPECTED_PROBE for data, _ in transport.sent)
    assert {addr for _, addr in transport.sent} == {("255.255.255.255", 6445), ("255.255.255.255", 20086)}

    # A single packet per port is enough, and a unicast target works the same way
    single = SimDevice(rng, "10.77.0.9", version=3, type_byte=0xA1, same_ip=False, listen_port=20086)
    found, transport = await simulated([single], timeout=0.2, discovery_packets=1, target="10.77.0.9")
    assert len(found) == 1
    single.check(found[0])
    assert sorted(addr for _, addr in transport.sent) == [("10.77.0.9", 6445), ("10.77.0.9", 20086)]

    # (b) real UDP on loopback (one device per loopback address)
    loop = asyncio.get_running_loop()
    real = []
    try:
        for i, (version, type_byte, port) in enumerate([(2, 0xAC, 6445), (3, 0xAC, 20086), (3, 0xE2, 6445)]):
            sim = SimDevice(rng, "127.0.0.%d" % (i + 2), version=version, type_byte=type_byte,
                            same_ip=(i != 1), listen_port=port)
            t, _ = await loop.create_datagram_endpoint(lambda sim=sim: LoopbackDevice(sim), local_addr=(sim.ip, port))
            real.append((sim, t))
    except OSError as e:  # loopback ports unavailable in this sandbox: the simulated part still counts
        print("loopback part skipped:", e)
        real_ok = False
    else:
        real_ok = True
    try:
        if real_ok:
            for sim, _ in real:
                dev = await Discover.discover_single(sim.ip, timeout=0.3, auto_connect=False)
                assert dev is not None, sim.ip
                sim.check(dev)
                assert sim.probes and all(p == EXPECTED_PROBE for p in sim.probes)
            # Nobody answers: nothing is reported
            assert await Discover.discover_single("127.0.0.99", timeout=0.2, auto_connect=False) is None
    finally:
        for _, t in real:
            t.close()

    # (c) the reported objects themselves: identity survives the usual things done to a device object
    import copy
    import inspect
    sims = [SimDevice(rng, "10.70.0.1", version=3, type_byte=0xAC, same_ip=False),
            SimDevice(rng, "10.70.0.2", version=2, type_byte=0xAC, listen_port=20086),
            SimDevice(rng, "10.70.0.3", version=3, type_byte=0xA1, listen_port=20086),
            SimDevice(rng, "10.70.0.4", version=2, type_byte=0x00),
            SimDevice(rng, "10.70.0.5", version=2, type_byte=0xFF, same_ip=False)]
    found, _ = await simulated(sims, timeout=0.2)
    by_ip = {d.ip: d for d in found}
    assert len(found) == len(sims)
    for sim in sims:
        dev = by_ip[sim.ip]
        sim.check(dev)
        assert int(dev.type) == sim.type_byte and hex(dev.type) == hex(sim.type_byte)
        assert dev.token is None and dev.key is None
        assert not dev.online and not dev.supported
        as_dict = dev.to_dict()
        for key, value in (("ip", sim.ip), ("port", sim.port), ("id", sim.device_id), ("type", sim.type_byte),
                           ("name", sim.name), ("sn", sim.sn), ("key", None), ("token", None)):
            assert as_dict[key] == value, (key, as_dict[key], value)
        assert str(dev) and repr(dev)
        # The connection the device will use points at the advertised endpoint and id
        lan = dev._lan
        assert dev._lan is lan
        assert (lan._ip, lan._port, lan._device_id) == (sim.ip, sim.port, sim.device_id)
        dev.set_max_connection_lifetime(30)
        assert dev._lan.max_connection_lifetime == 30
        for clone in (copy.copy(dev), copy.deepcopy(dev)):
            assert type(clone) is type(dev)
            sim.check(clone)
        if sim.type_byte == 0xAC:
            assert type(dev) is AirConditioner
            assert inspect.iscoroutinefunction(dev.refresh) and inspect.iscoroutinefunction(dev.apply)
            assert dev.target_temperature == 17.0 and dev.power_state is False
        else:
            assert type(dev) is Device
            for op in (dev.refresh, dev.apply):
                try:
                    await op()
                    raise AssertionError("generic device should not be controllable")
                except NotImplementedError:
                    pass

    print("OK: %d simulated devices, %d loopback devices" % (len(devices) + 1, len(real) if real_ok else 0))


if __name__ == "__main__":
    logging.basicConfig(level=logging.CRITICAL)
    asyncio.run(main())
    sys.exit(0)
