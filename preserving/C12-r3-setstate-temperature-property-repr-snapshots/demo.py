"""C12 demo 3: state/property writes stay well formed and carry the expected temperature encoding
however and whenever the settings are assigned; describing or copying a command never disturbs ids."""
import copy
import pickle
import sys

from msmart.const import FrameType
from msmart.device.AC.command import (Command, GetPropertiesCommand,
                                      GetStateCommand, PropertyId,
                                      SetPropertiesCommand, SetStateCommand,
                                      ToggleDisplayCommand)


def crc8_854(data: bytes) -> int:
    crc = 0
    for b in data:
        crc ^= b
        for _ in range(8):
            crc = (crc >> 1) ^ 0x8C if crc & 1 else crc >> 1
    return crc


LAST = [None]


def parse(frame: bytes, frame_type: int) -> bytes:
    """Spec-conforming parser; also checks the id follows the previous one. Returns the body."""
    assert frame[0] == 0xAA and frame[1] == len(frame) - 1 and frame[2] == 0xAC
    assert frame[9] == frame_type
    assert sum(frame[1:]) & 0xFF == 0
    body = frame[10:-1]
    assert crc8_854(body[:-1]) == body[-1]
    mid = body[-2]
    if LAST[0] is not None:
        assert mid == (LAST[0] + 1) & 0xFF, (LAST[0], mid)
    LAST[0] = mid
    return body[:-2]


def expected_temperature(value):
    whole = int(value)  # truncation toward zero, like modf
    half = 0x10 if value - whole > 0 else 0
    if 17 <= whole <= 30:
        return ((whole - 16) & 0xF) | half, 0
    return half, (whole - 12) & 0x1F


def main() -> int:
    n = 0
    # Every temperature the unit could be asked for (and some beyond), as float and as int
    values = [x / 2 for x in range(0, 121)] + list(range(0, 61)) + [True, 25]
    for value in values:
        for mode in (0, 1, 4, 7):
            cmd = SetStateCommand()
            # assign in different orders and more than once: the last assignment wins
            cmd.operational_mode = mode
            cmd.target_temperature = 99 - float(value)
            cmd.target_temperature = value
            assert cmd.target_temperature == value
            text = repr(cmd)  # must not consume an id
            assert isinstance(text, str) and text
            body = parse(cmd.tobytes(), FrameType.CONTROL)
            temp, alt = expected_temperature(value)
            assert body[0] == 0x40
            assert body[2] == temp | (mode << 5), (value, mode, body.hex())
            assert body[18] == alt, (value, body.hex())
            assert len(body) == 24
            # the same object can be serialised again, after another change
            cmd.target_temperature = 17.5
            body = parse(cmd.tobytes(), FrameType.CONTROL)
            assert body[2] == 0x11 | (mode << 5) and body[18] == 0
            n += 2

    # Default command, and copies of a configured command, give the same body
    base = SetStateCommand()
    base.target_temperature = 30.5
    base.fan_speed = 80
    base.power_on = True
    ref = parse(base.tobytes(), FrameType.CONTROL)
    assert ref[2] == 0x1E and ref[3] == 80 and ref[1] == 0x43
    for clone in (copy.copy(base), copy.deepcopy(base), pickle.loads(pickle.dumps(base))):
        assert clone.target_temperature == 30.5
        assert parse(clone.tobytes(), FrameType.CONTROL) == ref
        clone.target_temperature = 12
        assert parse(clone.tobytes(), FrameType.CONTROL)[18] == 0
        assert parse(base.tobytes(), FrameType.CONTROL) == ref
        n += 3

    # Property commands from different kinds of collections
    ids = [PropertyId.SWING_UD_ANGLE, PropertyId.BREEZELESS, PropertyId.IECO]
    for coll in (ids, tuple(ids), set(ids), frozenset(ids), dict.fromkeys(ids)):
        cmd = GetPropertiesCommand(coll)
        repr(cmd)
        body = parse(cmd.tobytes(), FrameType.QUERY)
        assert body[0] == 0xB1 and body[1] == 3 and len(body) == 2 + 2 * 3
        got = {int.from_bytes(body[i:i + 2], "little") for i in range(2, len(body), 2)}
        assert got == set(ids)
        n += 1
    try:
        frame = GetPropertiesCommand(p for p in ids).tobytes()
    except TypeError:
        pass  # one-shot iterables are not part of the documented input
    else:
        assert parse(frame, FrameType.QUERY)[1] == 3

    props = {PropertyId.SWING_UD_ANGLE: 25, PropertyId.BREEZE_AWAY: True, PropertyId.IECO: True,
             PropertyId.BUZZER: False}
    cmd = SetPropertiesCommand(props)
    repr(cmd)
    body = parse(cmd.tobytes(), FrameType.CONTROL)
    assert body[0] == 0xB0 and body[1] == 4
    assert body[2:] == (bytes.fromhex("0900" "01" "19") + bytes.fromhex("4200" "01" "02")
                        + bytes.fromhex("e300" "0d" "000101") + bytes(10) + bytes.fromhex("1a00" "01" "00"))

    # Other commands interleaved keep the id sequence going; repr never advances it
    for _ in range(300):
        c = ToggleDisplayCommand()
        repr(c), str(c)
        parse(c.tobytes(), FrameType.QUERY)
        g = GetStateCommand()
        repr(g)
        parse(g.tobytes(), FrameType.QUERY)
    before = Command._message_id
    repr(SetStateCommand()), repr(GetStateCommand()), repr(Command(FrameType.QUERY))
    assert Command._message_id == before

    print(f"demo3 OK: {n} state/property commands checked")
    return 0


if __name__ == "__main__":
    sys.exit(main())
