"""Demonstration for C12: every emitted command is a well-formed frame and message ids
advance by one modulo 256.  Exits 0 when the property holds on everything exercised.

Uses its own spec parser (independent CRC-8/MAXIM bit-by-bit, independent checksum)."""
import asyncio
import itertools
import random
import sys

from msmart.const import FrameType
from msmart.device import AirConditioner as AC
from msmart.device.AC.command import (Command, GetCapabilitiesCommand,
                                      GetEnergyUsageCommand,
                                      GetHumidityCommand,
                                      GetPropertiesCommand, GetStateCommand,
                                      PropertyId, SetPropertiesCommand,
                                      SetStateCommand, ToggleDisplayCommand)

FAILURES = []


def check(cond, msg):
    if not cond:
        FAILURES.append(msg)


def crc8_maxim(data):
    """Independent bitwise CRC-8 (Dallas/Maxim, reflected poly 0x8C, init 0)."""
    crc = 0
    for b in data:
        crc ^= b
        for _ in range(8):
            crc = (crc >> 1) ^ 0x8C if crc & 1 else crc >> 1
    return crc


def spec_parse(frame, frame_type, what):
    """A spec-conforming device parser. Returns (body without id/crc, message id)."""
    check(isinstance(frame, bytes), f"{what}: not bytes")
    check(len(frame) >= 13, f"{what}: too short")
    check(frame[0] == 0xAA, f"{what}: start byte")
    check(frame[1] == len(frame) - 1, f"{what}: length byte {frame[1]} != {len(frame) - 1}")
    check(frame[2] == 0xAC, f"{what}: appliance type")
    check(frame[9] == int(frame_type), f"{what}: frame type {frame[9]}")
    check(sum(frame[1:]) & 0xFF == 0, f"{what}: checksum")
    body = frame[10:-1]
    check(crc8_maxim(body[:-1]) == body[-1], f"{what}: crc8")
    return body[:-2], body[-2]


LAST_ID = [None]


def emit(cmd, frame_type, what):
    frame = cmd.tobytes()
    body, mid = spec_parse(frame, frame_type, what)
    if LAST_ID[0] is not None:
        check(mid == (LAST_ID[0] + 1) % 256, f"{what}: id {mid} after {LAST_ID[0]}")
    LAST_ID[0] = mid
    return body


SUPPORTED = [p for p in PropertyId if p._supported]


def prop_value(rng, prop):
    if prop in (PropertyId.SWING_UD_ANGLE, PropertyId.SWING_LR_ANGLE):
        return rng.choice([0, 1, 25, 50, 75, 100])
    if prop == PropertyId.RATE_SELECT:
        return rng.choice([100, 75, 50, 1, 20, 40, 60, 80])
    if prop == PropertyId.BREEZE_CONTROL:
        return rng.choice([1, 2, 3, 4])
    return rng.choice([True, False])


def fixed_bodies():
    """Bodies whose content is fully determined today."""
    check(emit(GetStateCommand(), FrameType.QUERY, "state").hex() ==
          "418100ff03ff000200000000000000000000000003", "state body")
    check(emit(GetCapabilitiesCommand(), FrameType.QUERY, "caps0").hex() == "b50100", "caps0 body")
    check(emit(GetCapabilitiesCommand(True), FrameType.QUERY, "caps1").hex() == "b5010101", "caps1 body")
    check(emit(GetEnergyUsageCommand(), FrameType.QUERY, "energy").hex() ==
          "41210144" + "00" * 16, "energy body")
    check(emit(GetHumidityCommand(), FrameType.QUERY, "humidity").hex() ==
          "41210145" + "00" * 16, "humidity body")
    for beep in (True, False):
        c = ToggleDisplayCommand()
        c.beep_on = beep
        check(emit(c, FrameType.QUERY, "display").hex() ==
              ("42" if beep else "02").join(["41", "00ff02000200" + "00" * 13]), "display body")
    c = SetStateCommand()
    check(emit(c, FrameType.CONTROL, "set default").hex() ==
          "404209007f7f003000800400000000000000002800000000", "set default body")
    c = SetStateCommand()
    c.power_on = True
    c.target_temperature = 21.5
    c.operational_mode = 2
    c.fan_speed = 102
    c.swing_mode = 0xC
    c.turbo = True
    c.eco = False
    c.fahrenheit = False
    c.freeze_protection = True
    c.independent_aux_heat = True
    check(emit(c, FrameType.CONTROL, "set custom").hex() ==
          "404355667f7f003c20000200000000000000002800800800", "set custom body")
    c = SetPropertiesCommand({PropertyId.SWING_UD_ANGLE: 50, PropertyId.BUZZER: True})
    check(emit(c, FrameType.CONTROL, "setprops").hex() == "b0020900" "0132" "1a00" "0101", "setprops body")
    c = SetPropertiesCommand({PropertyId.IECO: True})
    check(emit(c, FrameType.CONTROL, "setprops ieco").hex() ==
          "b001e3000d000101" + "00" * 10, "ieco body")
    c = GetPropertiesCommand([PropertyId.SWING_UD_ANGLE])
    check(emit(c, FrameType.QUERY, "getprops").hex() == "b1010900", "getprops body")


def sweep(rng):
    # Every subset of the supported property ids, as a query and as a write
    for n in range(len(SUPPORTED) + 1):
        for subset in itertools.combinations(SUPPORTED, n):
            body = emit(GetPropertiesCommand(list(subset)), FrameType.QUERY, f"get {subset}")
            check(body[0] == 0xB1 and body[1] == n and len(body) == 2 + 2 * n, f"get {subset} shape")
            ids = {body[2 + 2 * i] | body[3 + 2 * i] << 8 for i in range(n)}
            check(ids == {int(p) for p in subset}, f"get {subset} ids")

            values = {p: prop_value(rng, p) for p in subset}
            body = emit(SetPropertiesCommand(values), FrameType.CONTROL, f"set {values}")
            check(body[0] == 0xB0 and body[1] == n, f"set {values} head")
            pos, seen = 2, {}
            for _ in range(n):
                pid = body[pos] | body[pos + 1] << 8
                ln = body[pos + 2]
                seen[pid] = bytes(body[pos + 3:pos + 3 + ln])
                pos += 3 + ln
            check(pos == len(body), f"set {values} length")
            check(seen == {int(p): p.encode(v) for p, v in values.items()}, f"set {values} tlv")

    # Query commands may also be given a set (the device class does that)
    emit(GetPropertiesCommand(set(SUPPORTED)), FrameType.QUERY, "get set")

    # Set state fields
    for _ in range(1500):
        c = SetStateCommand()
        for name in ("beep_on", "power_on", "eco", "turbo", "fahrenheit", "sleep", "freeze_protection",
                     "follow_me", "purifier", "aux_heat", "force_aux_heat", "independent_aux_heat"):
            setattr(c, name, rng.random() < 0.5)
        c.target_temperature = rng.choice([x / 2 for x in range(2 * 13, 2 * 43 + 1)] + [17, 25, 30])
        c.operational_mode = rng.randrange(0, 7)
        c.fan_speed = rng.randrange(0, 103)
        c.swing_mode = rng.choice([0x0, 0xC, 0x3, 0xF])
        c.target_humidity = rng.randrange(0, 101)
        body = emit(c, FrameType.CONTROL, "set state sweep")
        check(len(body) == 24 and body[0] == 0x40, "set state shape")
        check(body[1] == 0x02 | (0x40 if c.beep_on else 0) | (1 if c.power_on else 0), "set state byte1")
        check(body[3] == c.fan_speed, "set state fan")
        check(body[2] >> 5 == c.operational_mode, "set state mode")
        t = int(c.target_temperature)
        if 17 <= t <= 30:
            check(body[2] & 0xF == t - 16 and body[18] == 0, "set state temp")
        else:
            check(body[2] & 0xF == 0 and body[18] == t - 12, "set state alt temp")
        check(bool(body[2] & 0x10) == (c.target_temperature != t), "set state half")
        check(body[19] == c.target_humidity, "set state humidity")


def long_sequence(rng):
    # More than 256 consecutive commands of mixed classes, ids checked in emit()
    makers = [
        (GetStateCommand, FrameType.QUERY), (GetEnergyUsageCommand, FrameType.QUERY),
        (GetHumidityCommand, FrameType.QUERY), (ToggleDisplayCommand, FrameType.QUERY),
        (SetStateCommand, FrameType.CONTROL), (GetCapabilitiesCommand, FrameType.QUERY),
        (lambda: GetCapabilitiesCommand(True), FrameType.QUERY),
        (lambda: GetPropertiesCommand([PropertyId.BUZZER]), FrameType.QUERY),
        (lambda: SetPropertiesCommand({PropertyId.SELF_CLEAN: True}), FrameType.CONTROL),
    ]
    seen = set()
    for i in range(700):
        make, ft = rng.choice(makers)
        emit(make(), ft, f"seq {i}")
        seen.add(LAST_ID[0])
    check(seen == set(range(256)), "all 256 ids used")

    # The same command object serialised repeatedly also advances
    c = GetStateCommand()
    for i in range(300):
        emit(c, FrameType.QUERY, f"same object {i}")


def through_device():
    """Frames handed to the transport by the public AirConditioner operations."""
    sent = []

    async def fake_send(data, **kwargs):
        sent.append(bytes(data))
        return []

    async def run():
        dev = AC(ip="127.0.0.1", port=6444, device_id=1234)
        dev._lan.send = fake_send
        await dev.get_capabilities()
        await dev.refresh()
        dev.enable_energy_usage_requests = True
        dev._supports_humidity = True
        dev._supported_properties.update(SUPPORTED)
        await dev.refresh()
        dev.power_state = True
        dev.target_temperature = 22.5
        dev.operational_mode = AC.OperationalMode.COOL
        dev.fan_speed = AC.FanSpeed.HIGH
        dev.swing_mode = AC.SwingMode.BOTH
        dev.horizontal_swing_angle = AC.SwingAngle.POS_3
        dev.rate_select = AC.RateSelect.GEAR_50
        dev.ieco = True
        await dev.apply()
        await dev.toggle_display()
        await dev.start_self_clean()

    asyncio.run(run())
    check(len(sent) >= 12, f"device sent only {len(sent)} frames")
    prev = None
    for i, frame in enumerate(sent):
        ft = FrameType.CONTROL if frame[10] in (0x40, 0xB0) else FrameType.QUERY
        _, mid = spec_parse(frame, ft, f"device frame {i}")
        if prev is not None:
            check(mid == (prev + 1) % 256, f"device frame {i}: id {mid} after {prev}")
        prev = mid
    LAST_ID[0] = prev


def main():
    import logging
    logging.disable(logging.CRITICAL)
    rng = random.Random(12)
    fixed_bodies()
    sweep(rng)
    long_sequence(rng)
    through_device()
    # and the counter carries on after the device traffic
    emit(GetStateCommand(), FrameType.QUERY, "after device")
    extra()

    if FAILURES:
        print(f"{len(FAILURES)} FAILURES")
        for f in FAILURES[:20]:
            print("  ", f)
        return 1
    print("OK")
    return 0


def extra():
    pass


if __name__ == "__main__":
    sys.exit(main())
