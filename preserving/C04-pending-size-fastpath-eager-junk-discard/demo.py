"""Demonstration for C04: V3 stream reassembly is segmentation-independent.

Feeds streams of V3 packets to _LanProtocolV3.data_received under many
segmentations and checks that every packet is delivered exactly once, complete,
in order and in the very data_received call that supplied its last byte.
Also runs one end-to-end LAN.send with a fake transport.
"""
import asyncio
import itertools
import logging
import random
import sys
from hashlib import sha256

from msmart.lan import LAN, Security, _LanProtocolV3, _Packet

logging.disable(logging.CRITICAL)

MARK = b"\x83\x70"


class FakeTransport:
    def __init__(self, on_write=None):
        self.closed = False
        self.on_write = on_write
        self.written = []

    def get_extra_info(self, name):
        return ("10.0.0.1", 6444)

    def is_closing(self):
        return self.closed

    def close(self):
        self.closed = True

    def write(self, data):
        self.written.append(bytes(data))
        if self.on_write:
            self.on_write(bytes(data))


def raw_packet(payload_len, rng, ptype=0x3, with_marker=False):
    """A syntactically valid V3 packet: marker, size, 0x20, pad/type, 2 id bytes, body."""
    body = bytearray(rng.randbytes(payload_len))
    if with_marker and payload_len >= 2:
        pos = rng.randrange(0, payload_len - 1)
        body[pos:pos + 2] = MARK
    ident = rng.randbytes(2)
    return MARK + payload_len.to_bytes(2, "big") + b"\x20" + bytes([ptype]) + ident + bytes(body)


def new_protocol():
    p = _LanProtocolV3()
    p.connection_made(FakeTransport())
    return p


def drain(p):
    out = []
    while True:
        try:
            out.append(p._queue.get_nowait())
        except asyncio.QueueEmpty:
            return out


def check(stream_prefix, packets, cuts):
    """Feed prefix+packets split at cuts; verify delivery per segment."""
    stream = stream_prefix + b"".join(packets)
    ends = []
    pos = len(stream_prefix)
    for pk in packets:
        pos += len(pk)
        ends.append(pos)

    p = new_protocol()
    delivered = []
    bounds = [0] + sorted(cuts) + [len(stream)]
    for a, b in zip(bounds, bounds[1:]):
        if a == b:
            continue
        p.data_received(stream[a:b])
        delivered += [bytes(x) for x in drain(p)]
        expect = sum(1 for e in ends if e <= b)
        assert len(delivered) == expect, (
            f"after {b} bytes expected {expect} packets, have {len(delivered)}; cuts={cuts}")
    assert delivered == packets, f"packets differ; cuts={cuts}"


def marker_free(n, rng):
    while True:
        g = rng.randbytes(n)
        # Must not contain a marker and must not form one with what follows
        if MARK not in g:
            return g


def part_exhaustive(rng):
    n = 0
    for sizes in [(0,), (1,), (16, 0), (3, 5), (2, 2, 2)]:
        packets = [raw_packet(s, rng, with_marker=(s >= 2)) for s in sizes]
        total = sum(map(len, packets))
        for k in range(0, 4):
            if total > 24 and k == 3:
                # Keep run time small: sample 3-cut segmentations for long streams
                combos = [tuple(sorted(rng.sample(range(1, total), 3))) for _ in range(400)]
            else:
                combos = itertools.combinations(range(1, total), k)
            for cuts in combos:
                check(b"", packets, list(cuts))
                n += 1
    return n


def part_random(rng):
    n = 0
    for _ in range(300):
        count = rng.randint(1, 4)
        packets = [raw_packet(rng.choice([0, 1, 2, 15, 16, 17, 64, 104, 300]), rng,
                              ptype=rng.choice([0x1, 0x3, 0xF, 0x13, 0xA3]),
                              with_marker=rng.random() < 0.5) for _ in range(count)]
        total = sum(map(len, packets))
        mode = rng.random()
        if mode < 0.2:
            cuts = list(range(1, total))  # byte by byte
        elif mode < 0.3:
            cuts = []  # everything in one segment
        else:
            cuts = sorted(rng.sample(range(1, total), rng.randint(1, min(total - 1, 40))))
        check(b"", packets, cuts)
        n += 1
    return n


def part_garbage(rng):
    n = 0
    prefixes = [b"\x00", b"\x83", b"\x70", b"\x70\x83", b"\x83\x83", b"\x83\x00\x70",
                b"\x70\x70\x83"] + [marker_free(rng.randint(1, 20), rng) for _ in range(30)]
    for g in prefixes:
        count = rng.randint(1, 3)
        packets = [raw_packet(rng.choice([0, 2, 16, 33]), rng, with_marker=True)
                   for _ in range(count)]
        total = len(g) + sum(map(len, packets))
        # all single and double cut points
        for k in (0, 1, 2):
            for cuts in itertools.combinations(range(1, total), k):
                if k == 2 and rng.random() < 0.7:
                    continue
                check(g, packets, list(cuts))
                n += 1
        check(g, packets, list(range(1, total)))
        n += 1
    return n


async def part_send(rng):
    """End to end: LAN.send over a fake connection; the device answers in odd segments."""
    token = rng.randbytes(64)
    key = rng.randbytes(32)
    tcp_key = rng.randbytes(32)
    local_key = bytes(a ^ b for a, b in zip(tcp_key, key))
    device = _LanProtocolV3()  # used only as an encoder
    device._local_key = local_key
    loop = asyncio.get_running_loop()
    state = {"proto": None, "count": 0}

    def dev_encrypted(frame_packet, ident):
        # Encrypted response (type 3) in the same layout as an encrypted request
        req = device._encode_encrypted_request(ident, frame_packet)
        header = bytearray(req[:6])
        header[5] = (header[5] & 0xF0) | 0x3
        plain = Security.decrypt_aes_cbc(local_key, req[6:-32])
        return bytes(header) + Security.encrypt_aes_cbc(local_key, plain) + \
            sha256(bytes(header) + plain).digest()

    frames = [bytes([0xAA, 0x10 + i]) + rng.randbytes(20 + i) for i in range(3)]

    def feed(chunks):
        for i, c in enumerate(chunks):
            loop.call_later(0.01 * (i + 1), state["proto"].data_received, c)

    def on_write(data):
        state["count"] += 1
        if state["count"] == 1:
            # Handshake reply, delivered byte by byte
            payload = Security.encrypt_aes_cbc(key, tcp_key) + sha256(tcp_key).digest()
            reply = MARK + len(payload).to_bytes(2, "big") + b"\x20\x01" + b"\x00\x00" + payload
            feed([reply[i:i + 1] for i in range(len(reply))])
        else:
            # Three responses coalesced, then cut in awkward places, with junk in front
            pk = [dev_encrypted(_Packet.encode(1234, f), i) for i, f in enumerate(frames)]
            stream = b"\x00\x83\x01" + b"".join(pk)
            cuts = [1, 4, 8, len(pk[0]) + 2, len(pk[0]) + len(pk[1]) + 3 + 5]
            bounds = [0] + cuts + [len(stream)]
            # Put the first chunks in individual calls and the tail in one
            feed([stream[a:b] for a, b in zip(bounds, bounds[1:])])

    async def fake_create_connection(factory, host, port, **kw):
        proto = factory()
        transport = FakeTransport(on_write)
        proto.connection_made(transport)
        state["proto"] = proto
        return transport, proto

    loop.create_connection = fake_create_connection

    orig_sleep = asyncio.sleep

    async def fast_sleep(t, *a, **k):
        await orig_sleep(0)

    lan = LAN("10.0.0.1", 6444, 1234)
    asyncio.sleep = fast_sleep
    try:
        await lan.authenticate(token, key)
    finally:
        asyncio.sleep = orig_sleep
    assert lan._protocol._local_key == local_key
    got = await lan.send(b"\xaa\x01\x02")
    # The segment that completes response 0 also completes response 1, so send() returns both;
    # response 2 arrives later and is picked up by the next send() before its own replies.
    assert got == frames[:2], got
    await orig_sleep(0.2)
    got2 = await lan.send(b"\xaa\x01\x03")
    assert got2 == frames[2:] + frames[:2], got2
    return 1


def part_long(rng):
    """Large packets trickling in (many segments per packet), then a burst of small ones."""
    n = 0
    for size in (1000, 4096, 65535 - 8):
        packets = [raw_packet(size, rng, with_marker=True), raw_packet(0, rng),
                   raw_packet(size // 3, rng, with_marker=True), raw_packet(1, rng)]
        total = sum(map(len, packets))
        step = 1 if size == 1000 else 37
        check(b"", packets, list(range(step, total, step)))
        check(b"\x70\x83", packets, list(range(1, total, step)))
        n += 2
    # Junk arriving in several segments of its own before the first packet
    for g in (b"\x00" * 5, b"\x83" * 4, b"\x70\x70\x12", b"\x12\x83"):
        assert MARK not in g * 3
        packets = [raw_packet(18, rng, with_marker=True), raw_packet(2, rng, with_marker=True)]
        check(g * 3, packets, [len(g), 2 * len(g), 3 * len(g), 3 * len(g) + 1, 3 * len(g) + 7])
        n += 1
    return n


def main():
    rng = random.Random(404)
    a = part_exhaustive(rng)
    b = part_random(rng)
    c = part_garbage(rng)
    e = part_long(rng)
    d = asyncio.run(part_send(rng))
    print(f"ok: exhaustive={a} random={b} garbage={c} long={e} send={d}")
    return 0


if __name__ == "__main__":
    sys.exit(main())
