"""Demo 4: what each individual transmission of a cloud request carries.

Conforming fake NetHome Plus / SmartHome servers (httpx.MockTransport) verify EVERY transmission
on its own - first attempts, retries after timeouts, requests that had to queue behind others,
requests overlapping a forced re-login: signature over exactly the bytes sent, a well-formed
recent timestamp, login id, password derivation, and a session id / access token the server issued.
"""
import asyncio
import hashlib
import hmac
import json
import sys
from datetime import datetime, timezone
from urllib.parse import parse_qsl, unquote_plus, urlencode

import httpx

from msmart.cloud import CloudError, NetHomePlusCloud, SmartHomeCloud

NH_KEY = "3742e9e5842d4ad59c2db887e12449f9"
SH_LOGIN_KEY = "ac21b9f9cbfe4ca5a88562ef25e2b768"
ACCOUNT, PASSWORD = "me@example.net", "correct horse 1"
LOGIN_ID = "feedfacefeedfacefeedfacefeedface"


def check(cond, what):
    if not cond:
        print("FAIL:", what)
        sys.exit(1)
    print("ok:", what)


def recent(stamp):
    try:
        t = datetime.strptime(stamp, "%Y%m%d%H%M%S").replace(tzinfo=timezone.utc)
    except (TypeError, ValueError):
        return False
    return abs((datetime.now(timezone.utc) - t).total_seconds()) < 30


class Server:
    def __init__(self):
        self.script, self.problems, self.log = [], [], []
        self.sessions, self.access = [], []
        self.tokens = {f"{i:032x}": (f"{i:0128x}", f"{i:064x}") for i in range(1, 9)}

    def client(self, *a, **k):
        return httpx.AsyncClient(transport=httpx.MockTransport(self.handle))

    async def handle(self, request):
        if request.url.path == "/mas/v5/app/proxy":
            verdict = self.smarthome(request)
        else:
            verdict = self.nethome(request)
        action = self.script.pop(0) if self.script else "ok"
        await asyncio.sleep(0.002)
        if action == "timeout":
            raise httpx.ReadTimeout("scripted", request=request)
        return verdict()

    # NetHome Plus ----------------------------------------------------------------------
    def nethome(self, request):
        path = request.url.path
        f = dict(parse_qsl(request.content.decode(), keep_blank_values=True))
        self.log.append((path, dict(f)))
        sign = f.pop("sign", "")
        q = unquote_plus(urlencode(sorted(f.items())))
        if sign != hashlib.sha256((path + q + NH_KEY).encode()).hexdigest():
            self.problems.append(f"{path}: signature")
        if not recent(f.get("stamp")):
            self.problems.append(f"{path}: stamp {f.get('stamp')!r}")
        for k, v in (("appId", "1017"), ("src", "1017"), ("format", "2"), ("clientType", "1"), ("language", "en_US")):
            if f.get(k) != v:
                self.problems.append(f"{path}: {k}")
        if not f.get("deviceId"):
            self.problems.append(f"{path}: deviceId")

        def ok(result):
            return httpx.Response(200, text=json.dumps({"errorCode": "0", "result": result}))

        if path == "/v1/user/login/id/get":
            if f.get("loginAccount") != ACCOUNT:
                self.problems.append("account")
            return lambda: ok({"loginId": LOGIN_ID})
        if path == "/v1/user/login":
            h = hashlib.sha256(PASSWORD.encode()).hexdigest()
            if f.get("password") != hashlib.sha256((LOGIN_ID + h + NH_KEY).encode()).hexdigest():
                self.problems.append("password derivation")
            if f.get("loginAccount") != ACCOUNT:
                self.problems.append("account")

            def issue():
                self.sessions.append(f"sess-{len(self.sessions) + 1}")
                return ok({"sessionId": self.sessions[-1]})
            return issue
        if path == "/v1/iot/secure/getToken":
            if f.get("sessionId") not in self.sessions:
                self.problems.append(f"session id {f.get('sessionId')!r} was never issued")
            lst = [{"udpId": u, "token": t, "key": k} for u, (t, k) in self.tokens.items()]
            if f.get("udpid") not in self.tokens:
                lst = lst[:2]
            return lambda: ok({"tokenlist": lst})
        self.problems.append("unknown path " + path)
        return lambda: httpx.Response(404)

    # SmartHome -------------------------------------------------------------------------
    def smarthome(self, request):
        raw = request.content.decode()
        alias = request.url.params["alias"]
        body = json.loads(raw)
        self.log.append((alias, body))
        good = hmac.new(b"PROD_VnoClJI9aikS8dyy", ("meicloud" + raw + request.headers.get("random", "")).encode(),
                        hashlib.sha256).hexdigest()
        if request.headers.get("sign") != good or len(request.headers.get("random", "")) < 16:
            self.problems.append(f"{alias}: signature")
        if request.headers.get("secretVersion") != "1":
            self.problems.append(f"{alias}: secretVersion")

        def ok(data):
            return httpx.Response(200, text=json.dumps({"code": 0, "msg": "ok", "data": data}))

        if alias == "/v1/user/login/id/get":
            if body.get("loginAccount") != ACCOUNT or not recent(body.get("stamp")) or not body.get("reqId"):
                self.problems.append("login id request fields")
            return lambda: ok({"loginId": LOGIN_ID})
        if alias == "/mj/user/login":
            iot = body.get("iotData", {})
            h = hashlib.sha256(PASSWORD.encode()).hexdigest()
            pw = hashlib.sha256((LOGIN_ID + h + SH_LOGIN_KEY).encode()).hexdigest()
            m = hashlib.md5(hashlib.md5(PASSWORD.encode()).hexdigest().encode()).hexdigest()
            iam = hashlib.sha256((LOGIN_ID + m + SH_LOGIN_KEY).encode()).hexdigest()
            if iot.get("password") != pw or iot.get("iampwd") != iam or iot.get("loginAccount") != ACCOUNT:
                self.problems.append("smarthome password derivation")
            if not recent(iot.get("stamp")) or not iot.get("reqId") or iot.get("appId") != "1010":
                self.problems.append("smarthome login fields")

            def issue():
                self.access.append(f"acc-{len(self.access) + 1}")
                return ok({"mdata": {"accessToken": self.access[-1]}})
            return issue
        if alias == "/v1/iot/secure/getToken":
            if request.headers.get("accessToken") not in self.access:
                self.problems.append("access token was never issued")
            lst = [{"udpId": u, "token": t, "key": k} for u, (t, k) in self.tokens.items()]
            return lambda: ok({"tokenlist": lst})
        self.problems.append("unknown alias " + alias)
        return lambda: httpx.Response(404)


async def flow(name, cls, srv):
    ids = list(srv.tokens)
    cloud = cls("US", account=ACCOUNT, password=PASSWORD, get_async_client=srv.client)

    # login with a timeout on each of its two requests
    srv.script = ["timeout", "ok", "timeout", "timeout", "ok"]
    n = len(srv.log)
    await cloud.login()
    check(len(srv.log) - n == 5, f"{name}: login = 2 + 3 transmissions, each verified on its own")

    # retried token request
    srv.script = ["timeout", "timeout", "ok"]
    check(await cloud.get_token(ids[4]) == srv.tokens[ids[4]], f"{name}: token after two timeouts")

    # a queue of requests, some of them retried
    srv.script = ["timeout", "ok", "ok", "timeout", "timeout", "ok", "ok"]
    res = await asyncio.gather(*(cloud.get_token(i) for i in ids[:4]))
    check(list(res) == [srv.tokens[i] for i in ids[:4]], f"{name}: queued requests each get their entry")

    # requests overlapping a forced re-login
    t1 = asyncio.ensure_future(cloud.get_token(ids[0]))
    await asyncio.sleep(0)
    t2 = asyncio.ensure_future(cloud.login(force=True))
    await asyncio.sleep(0)
    t3 = asyncio.ensure_future(cloud.get_token(ids[7]))
    r1, _, r3 = await asyncio.gather(t1, t2, t3)
    check(r1 == srv.tokens[ids[0]] and r3 == srv.tokens[ids[7]], f"{name}: requests around a re-login")
    check(await cloud.get_token(ids[2]) == srv.tokens[ids[2]], f"{name}: request after the re-login")

    # budget exhausted, unknown id
    srv.script = ["timeout"] * 3
    n = len(srv.log)
    try:
        await cloud.get_token(ids[1])
        check(False, "should time out")
    except CloudError:
        check(len(srv.log) - n == 3, f"{name}: CloudError after exactly three transmissions")
    try:
        await cloud.get_token("0" * 31 + "9")
        check(False, "should not be found")
    except CloudError:
        check(True, f"{name}: unknown id refused")


async def main():
    srv = Server()
    await flow("nethome", NetHomePlusCloud, srv)
    await flow("smarthome", SmartHomeCloud, srv)
    check(not srv.problems, f"every one of the {len(srv.log)} transmissions verified {srv.problems[:5]}")


asyncio.run(main())
