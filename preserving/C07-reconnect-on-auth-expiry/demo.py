"""Demonstration 2 for C07 (V3 session discipline), with extra authentication expiry histories.

A simulated V3 device on the loopback interface records every packet it receives on
every connection and checks, with its own keys:
  * nothing but a handshake request carrying the configured token arrives before a
    successful handshake on that connection,
  * every data packet decrypts/verifies under the session key of the latest handshake
    of its connection,
  * every counter is previous + 1 (wrapping to zero inside the 2 byte field),
  * after a 12 h clock jump / connection lifetime expiry / peer close / timeout the next
    exchange starts with a handshake (new connection where required) before any data.
Exits 0 if everything holds.
"""
import asyncio
import datetime as _dt
import logging
import os
import sys
from hashlib import sha256

from Crypto.Cipher import AES
from Crypto.Util.strxor import strxor

import msmart.lan as lan_mod
from msmart.lan import LAN, _LanProtocolV3, _Packet

logging.disable(logging.CRITICAL)

TOKEN = os.urandom(64)
KEY = os.urandom(32)
FRAME = bytes.fromhex(
    "aa23ac00000000000303c00145660000003c0010045c6800000000000000000000018426")

FAILURES = []


def check(cond, msg):
    if not cond:
        FAILURES.append(msg)
        print("FAIL:", msg)


# ---------------------------------------------------------------- fake clock
class FakeDatetime(_dt.datetime):
    offset = _dt.timedelta(0)

    @classmethod
    def now(cls, tz=None):
        return _dt.datetime.now(tz) + cls.offset


lan_mod.datetime = FakeDatetime


def jump(**kw):
    FakeDatetime.offset += _dt.timedelta(**kw)


# ---------------------------------------------------------------- device model
def cbc(key):
    return AES.new(key, AES.MODE_CBC, iv=bytes(16))


class Conn:
    """Per connection record kept by the simulated device."""

    def __init__(self, n):
        self.n = n
        self.session_key = None
        self.events = []  # ("hs", ok) / ("data", counter)
        self.counters = []
        self.buf = b""


class Device:
    def __init__(self):
        self.conns = []
        self.silent = False
        self.close_after_reply = False
        self.server = None
        self.writers = []

    async def start(self):
        self.server = await asyncio.start_server(self.handle, "127.0.0.1", 0)
        return self.server.sockets[0].getsockname()[1]

    async def stop(self):
        for w in self.writers:
            w.close()
        self.server.close()

    def note_counter(self, c, counter):
        if c.counters:
            prev = c.counters[-1]
            ok = counter == prev + 1 or (
                counter == 0 and prev + 1 in (0x1000, 0x10000))
            check(ok, f"conn {c.n}: counter {counter} after {prev}")
        c.counters.append(counter)

    def on_packet(self, c, pkt):
        """Returns reply bytes or None."""
        check(pkt[:2] == b"\x83\x70" and pkt[4] == 0x20,
              f"conn {c.n}: bad header")
        ptype = pkt[5] & 0xF
        if ptype == 0x0:
            counter = int.from_bytes(pkt[6:8], "big")
            self.note_counter(c, counter)
            token = pkt[8:]
            check(token == TOKEN, f"conn {c.n}: handshake without the token")
            c.events.append(("hs", token == TOKEN))
            if token != TOKEN:
                return b"\x83\x70\x00\x00\x20\x0f\x00\x00"
            plain = os.urandom(32)
            c.session_key = strxor(plain, KEY)
            body = cbc(KEY).encrypt(plain) + sha256(plain).digest()
            return b"\x83\x70" + len(body).to_bytes(2, "big") + b"\x20\x01" + pkt[6:8] + body
        if ptype == 0x6:
            check(c.session_key is not None,
                  f"conn {c.n}: data before successful handshake")
            if c.session_key is None:
                return None
            header, enc, rx_hash = pkt[:6], pkt[6:-32], pkt[-32:]
            check(len(enc) % 16 == 0, f"conn {c.n}: payload not block aligned")
            dec = cbc(c.session_key).decrypt(enc)
            check(sha256(header + dec).digest() == rx_hash,
                  f"conn {c.n}: data packet not under latest session key")
            counter = int.from_bytes(dec[:2], "big")
            self.note_counter(c, counter)
            pad = header[5] >> 4
            inner = dec[2:len(dec) - pad]
            try:
                frame = _Packet.decode(inner)
            except Exception as e:  # pylint: disable=broad-except
                frame = None
                check(False, f"conn {c.n}: inner packet undecodable: {e}")
            check(frame == FRAME, f"conn {c.n}: wrong frame")
            c.events.append(("data", counter))
            # Encrypted reply
            data = _Packet.encode(1, FRAME)
            rem = (len(data) + 2) % 16
            rpad = 16 - rem if rem else 0
            rheader = b"\x83\x70" + \
                (len(data) + rpad + 32).to_bytes(2, "big") + \
                b"\x20" + bytes([rpad << 4 | 0x3])
            payload = dec[:2] + data + bytes(rpad)
            return rheader + cbc(c.session_key).encrypt(payload) + sha256(rheader + payload).digest()
        check(False, f"conn {c.n}: unexpected packet type {ptype}")
        return None

    async def handle(self, reader, writer):
        c = Conn(len(self.conns))
        self.conns.append(c)
        self.writers.append(writer)
        try:
            while True:
                data = await reader.read(65536)
                if not data:
                    break
                c.buf += data
                while len(c.buf) >= 6:
                    total = int.from_bytes(c.buf[2:4], "big") + 8
                    if len(c.buf) < total:
                        break
                    pkt, c.buf = c.buf[:total], c.buf[total:]
                    reply = self.on_packet(c, pkt)
                    if reply is not None and not (self.silent and pkt[5] & 0xF == 0x6):
                        writer.write(reply)
                        if self.close_after_reply:
                            await writer.drain()
                            writer.close()
                            return
        except ConnectionError:
            pass


def first_is_handshake(dev, idx, what):
    c = dev.conns[idx]
    check(c.events and c.events[0] == ("hs", True),
          f"{what}: connection {idx} does not start with a good handshake: {c.events[:3]}")


def events_since(dev, marks):
    """Events recorded since marks (list of per-connection event counts)."""
    out = []
    for i, c in enumerate(dev.conns):
        start = marks[i] if i < len(marks) else 0
        out += [(i,) + e for e in c.events[start:]]
    return out


def mark(dev):
    return [len(c.events) for c in dev.conns]


async def scenarios():
    dev = Device()
    port = await dev.start()

    lan = LAN("127.0.0.1", port, 1)
    await lan.authenticate(TOKEN, KEY)
    for _ in range(3):
        r = await lan.send(FRAME)
        check(r == [FRAME], "plain send: wrong responses")
    check(len(dev.conns) == 1, "plain sends should share one connection")
    first_is_handshake(dev, 0, "plain")
    check([e[0] for e in dev.conns[0].events] == ["hs", "data", "data", "data"],
          f"plain: {dev.conns[0].events}")

    # 12 h authentication expiry: handshake must precede the next data packet
    m = mark(dev)
    jump(hours=12, minutes=1)
    await lan.send(FRAME)
    ev = events_since(dev, m)
    check(len(ev) >= 2 and ev[0][1] == "hs" and ev[0][2] and ev[1][1] == "data" and ev[0][0] == ev[1][0],
          f"auth expiry: expected handshake then data on one connection, got {ev}")
    for i in range(len(dev.conns)):
        first_is_handshake(dev, i, "auth expiry")

    # connection lifetime: new connection, handshake, then data
    lan2 = LAN("127.0.0.1", port, 1)
    lan2.max_connection_lifetime = 30
    await lan2.authenticate(TOKEN, KEY)
    await lan2.send(FRAME)
    n = len(dev.conns)
    m = mark(dev)
    jump(seconds=31)
    await lan2.send(FRAME)
    ev = events_since(dev, m)
    check(len(dev.conns) == n + 1, "lifetime expiry: no new connection")
    check([e[:2] for e in ev] == [(n, "hs"), (n, "data")],
          f"lifetime expiry: {ev}")

    # peer close: next send is on a new connection with handshake first
    dev.close_after_reply = True
    await lan2.send(FRAME)
    dev.close_after_reply = False
    await asyncio.sleep(0.2)
    n = len(dev.conns)
    m = mark(dev)
    await lan2.send(FRAME)
    ev = events_since(dev, m)
    check(len(dev.conns) == n + 1 and [e[:2] for e in ev] == [(n, "hs"), (n, "data")],
          f"peer close: {ev}")

    # silent device -> timeout; next exchange re-handshakes on a new connection
    dev.silent = True
    try:
        await lan2.send(FRAME, retries=1)
        check(False, "silent device: no timeout")
    except TimeoutError:
        pass
    dev.silent = False
    n = len(dev.conns)
    m = mark(dev)
    await lan2.send(FRAME)
    ev = events_since(dev, m)
    check(len(dev.conns) == n + 1 and [e[:2] for e in ev] == [(n, "hs"), (n, "data")],
          f"after timeout: {ev}")

    # unauthenticated V3 protocol refuses to encode data
    p = _LanProtocolV3()
    try:
        p._encode_encrypted_request(0, b"x")  # pylint: disable=protected-access
        check(False, "encode without key did not raise")
    except lan_mod.ProtocolError:
        pass


    # --- demo2 extras: repeated authentication expiries, also combined with a lifetime
    lan3 = LAN("127.0.0.1", port, 1)
    lan3.max_connection_lifetime = 30 * 3600
    await lan3.authenticate(TOKEN, KEY)
    await lan3.send(FRAME)
    for _ in range(2):
        m = mark(dev)
        n = len(dev.conns)
        jump(hours=12, seconds=5)
        await lan3.send(FRAME)
        await lan3.send(FRAME)
        ev = events_since(dev, m)
        kinds = [e[1] for e in ev]
        check(kinds == ["hs", "data", "data"] and len({e[0] for e in ev}) == 1,
              f"repeated auth expiry: {ev}")
        print("auth expiry handled on", "a new" if len(dev.conns) > n else "the same", "connection")
    # third jump also exceeds the 30 h lifetime of the first connection: must be a new connection
    m = mark(dev)
    n = len(dev.conns)
    jump(hours=12, seconds=5)
    await lan3.send(FRAME)
    ev = events_since(dev, m)
    check(len(dev.conns) == n + 1 and [e[:2] for e in ev] == [(n, "hs"), (n, "data")],
          f"auth + lifetime expiry: {ev}")
    # explicit authenticate after an expiry, then data
    m = mark(dev)
    jump(hours=13)
    await lan3.authenticate(TOKEN, KEY)
    await lan3.send(FRAME)
    ev = events_since(dev, m)
    check([e[1] for e in ev] == ["hs", "data"] and ev[0][0] == ev[1][0],
          f"explicit authenticate after expiry: {ev}")

    # every connection the device ever saw starts with a good handshake
    for i in range(len(dev.conns)):
        first_is_handshake(dev, i, "global")

    await dev.stop()


class FakeTransport:
    def __init__(self, sink):
        self.sink = sink

    def is_closing(self):
        return False

    def get_extra_info(self, _name):
        return ("127.0.0.1", 6444)

    def write(self, data):
        self.sink(data)

    def close(self):
        pass


def long_session():
    """More than 65,536 packets on one connection."""
    dev = Device()
    c = Conn(0)
    dev.conns.append(c)
    replies = []

    p = _LanProtocolV3()
    p.connection_made(FakeTransport(lambda d: replies.append(dev.on_packet(c, d))))
    p.write(TOKEN, packet_type=_LanProtocolV3.PacketType.HANDSHAKE_REQUEST)
    # Complete the handshake by hand
    p._local_key = c.session_key  # pylint: disable=protected-access
    p._local_key_expiration = FakeDatetime.now(  # pylint: disable=protected-access
        _dt.timezone.utc) + _dt.timedelta(hours=12)
    packet = _Packet.encode(1, FRAME)
    total = 66000
    for _ in range(total):
        p.write(packet)
    check(len(c.counters) == total + 1, "long session: packets lost")
    check(c.counters.count(0) >= 2, "long session: counter never wrapped")
    check(max(c.counters) <= 0xFFFF, "long session: counter outside field")


def main():
    asyncio.run(scenarios())
    long_session()
    if FAILURES:
        print(f"{len(FAILURES)} failure(s)")
        return 1
    print("OK")
    return 0


if __name__ == "__main__":
    sys.exit(main())
