"""Demo for change 1: control command temperature fields.

Builds control commands for every half-degree setpoint 13-43 C in several modes and
decodes the temperature the way the vendor layout does (primary 4-bit field at body[2],
extended 5-bit field at body[18] taking precedence when non-zero). Exits 0 when every
setpoint round-trips and every frame is well formed.
"""
import sys

import msmart.crc8 as crc8
from msmart.device.AC.command import Command, SetStateCommand
from msmart.frame import Frame


def decode_temperature(body: bytes) -> float:
    primary = body[2] & 0x0F
    half = 0.5 if body[2] & 0x10 else 0.0
    alt = body[18] & 0x1F
    whole = (alt + 12) if alt else (primary + 16)
    return whole + half


def decode_temperature_primary_first(body: bytes) -> float:
    primary = body[2] & 0x0F
    half = 0.5 if body[2] & 0x10 else 0.0
    alt = body[18] & 0x1F
    whole = (primary + 16) if primary else (alt + 12)
    return whole + half


def main() -> int:
    bodies = set()
    count = 0
    last_id = None
    for mode in (1, 2, 3, 4, 5):
        for half_steps in range(26, 87):  # 13.0 .. 43.0
            target = half_steps / 2
            cmd = SetStateCommand()
            cmd.power_on = True
            cmd.operational_mode = mode
            cmd.target_temperature = target
            cmd.fan_speed = 60
            cmd.fahrenheit = False
            frame = cmd.tobytes()

            # Well-formed frame
            assert frame[0] == 0xAA and frame[1] == len(frame) - 1
            assert frame[2] == 0xAC and frame[9] == 0x02
            with memoryview(frame) as mv:
                Frame.validate(mv)
            body = frame[10:-1]
            assert body[0] == 0x40
            assert crc8.calculate(body[:-1]) == body[-1]

            # Message ids advance by one
            msg_id = body[-2]
            if last_id is not None:
                assert msg_id == (last_id + 1) & 0xFF, (msg_id, last_id)
            last_id = msg_id

            # Temperature and mode decode to what was asked, with either field precedence
            assert decode_temperature(body) == target, (target, body.hex())
            assert decode_temperature_primary_first(body) == target, (target, body.hex())
            assert body[2] >> 5 == mode
            assert body[1] & 0x01 == 1 and body[3] == 60

            bodies.add(bytes(body[:-2]))
            count += 1

    # Distinct states give distinct bodies
    assert len(bodies) == count, (len(bodies), count)

    for t in (17.0, 22.5, 30.0, 16.5, 31.0, 43.0):
        cmd = SetStateCommand()
        cmd.target_temperature = t
        b = cmd.tobytes()[10:-1]
        print(f"{t:5.1f} C -> body[2]=0x{b[2]:02X} body[18]=0x{b[18]:02X}")
    print(f"OK: {count} control commands round-tripped")
    return 0


if __name__ == "__main__":
    sys.exit(main())
