"""Demonstration for C13: corrupted responses are rejected and never change state.

Runs without network. Exits 0 if the property holds on the sampled inputs.
"""
import asyncio
import logging
import sys

from msmart.device import AirConditioner as AC
from msmart.device.AC.command import (InvalidResponseException, PropertiesResponse,
                                      Response)
from msmart.frame import InvalidFrameException

logging.disable(logging.CRITICAL)

VALID = {
    "state": bytes.fromhex(
        "aa23ac00000000000303c00145660000003c0010045c6b20000000000000000000020d79"),
    "capabilities": bytes.fromhex(
        "aa29ac00000000000303b5071202010113020101140201011502010116020101170201001a020101dedb"),
    "properties": bytes.fromhex(
        "aa21ac00000000000303b10409000001000a00000100150000012b1e020000005fa3"),
    "energy": bytes.fromhex(
        "aa20ac00000000000203c121014400564a02640000000014ae0000000000041a22"),
    "humidity": bytes.fromhex(
        "aa20ac00000000000303c12101453f546c005d0a000000de1f0000ba9a0004af9c"),
}

REJECT = (InvalidFrameException, InvalidResponseException)


# Independent reference implementation of the two body checks and the frame checksum
def ref_crc8(data: bytes) -> int:
    crc = 0
    for b in data:
        crc ^= b
        for _ in range(8):
            crc = (crc >> 1) ^ 0x8C if crc & 1 else crc >> 1
    return crc


def ref_sum(data: bytes) -> int:
    return (256 - sum(data) % 256) % 256


def ref_accepts(frame: bytes) -> bool:
    if ref_sum(frame[1:-1]) != frame[-1]:
        return False
    if frame[10] in (0xB0, 0xB1):
        return True  # Property responses are exempt from the body check
    body = frame[10:-1]
    return body[-1] in (ref_crc8(body[:-1]), ref_sum(body[:-1]))


def constructs(frame: bytes) -> bool:
    try:
        Response.construct(frame)
    except REJECT:
        return False
    except Exception:
        # Accepted by the checks, but the (corrupted, exempt) content failed to parse
        return True
    return True


def corruptions(frame: bytes, fixup: bool):
    if not fixup:
        positions = range(1, len(frame))
    else:
        # Body bytes other than the trailing check byte
        positions = range(10, len(frame) - 2)
    for pos in positions:
        for value in range(256):
            if value == frame[pos]:
                continue
            bad = bytearray(frame)
            bad[pos] = value
            if fixup:
                bad[-1] = ref_sum(bad[1:-1])
            yield pos, bytes(bad)


def check_construct() -> int:
    count = 0
    for kind, frame in VALID.items():
        assert constructs(frame), f"valid {kind} frame was rejected"
        assert ref_accepts(frame)

        # Any single byte corruption after the start byte is rejected by the frame checksum
        for pos, bad in corruptions(frame, fixup=False):
            assert not constructs(bad), f"{kind}: corrupted byte {pos} accepted: {bad.hex()}"
            count += 1

        # With the frame checksum repaired the body check decides (properties are exempt)
        for pos, bad in corruptions(frame, fixup=True):
            expected = ref_accepts(bad)
            if kind != "properties" and bad[10] not in (0xB0, 0xB1):
                # A single byte change always alters both CRC-8 and additive checksum,
                # only a cross match between the two algorithms could accept it
                body = bad[10:-1]
                cross = body[-1] in (ref_crc8(body[:-1]), ref_sum(body[:-1]))
                assert expected == cross
            assert constructs(bad) == expected, f"{kind}: byte {pos}: {bad.hex()} expected accept={expected}"
            count += 1
    return count


async def check_device() -> int:
    count = 0
    for kind, frame in VALID.items():
        dev = AC(ip="127.0.0.1", port=6444, device_id=1234)

        feed = []

        async def send(data, *args, **kwargs):
            return list(feed)

        dev._lan.send = send

        # Prime the device with valid data so there is state that could be lost
        feed[:] = [VALID["capabilities"]]
        await dev.get_capabilities()
        feed[:] = [VALID["state"], VALID["energy"], VALID["humidity"], VALID["properties"]]
        await dev.refresh()
        assert dev.online and dev.supported

        def snapshot():
            d = dev.to_dict()
            d.pop("online")
            d.pop("supported")
            return repr(d)

        before = snapshot()

        rejected = [bad for fixup in (False, True)
                    for pos, bad in corruptions(frame, fixup) if not ref_accepts(bad)]
        # Sample to keep the run time low: every 37th corrupted frame, plus a batch of several at once
        for bad in rejected[::37]:
            feed[:] = [bad]
            await dev.refresh()
            assert not dev.online, f"{kind}: online after {bad.hex()}"
            assert not dev.supported, f"{kind}: supported after {bad.hex()}"
            assert snapshot() == before, f"{kind}: state changed after {bad.hex()}"
            count += 1

        feed[:] = rejected[:50]
        await dev.refresh()
        assert not dev.online and not dev.supported and snapshot() == before

        # A valid frame afterwards is still used
        feed[:] = [VALID["state"]]
        await dev.refresh()
        assert dev.online and dev.supported
    return count


def main() -> int:
    n = check_construct()
    m = asyncio.run(check_device())
    print(f"OK: {n} corrupted frames checked at construct level, {m} refreshes at device level")
    return 0


if __name__ == "__main__":
    sys.exit(main())
