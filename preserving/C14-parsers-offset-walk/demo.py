"""Demonstration for property C14 (application containment).

Feeds an AirConditioner, through a fake LAN layer, every kind of response frame
 * truncated to every shorter length (checksums recomputed),
 * with every count / size field set to 0..255,
 * with every response id 0..255 and random bodies,
 * mixed with good frames in one exchange,
and checks that refresh / apply / get_capabilities / toggle_display /
start_self_clean never raise and that the good frames of a mixed exchange are
still applied.

Exits 0 when the property held in every trial.
"""
import asyncio
import logging
import random
import sys

import msmart.crc8 as crc8
from msmart.device import AirConditioner as AC
from msmart.device.AC.command import (InvalidResponseException, PropertyId,
                                      Response)
from msmart.frame import Frame, InvalidFrameException

logging.disable(logging.CRITICAL)

FOCUS = "parsers"  # Which part the extra checks of this demo concentrate on

GOOD = {
    "state": bytes.fromhex(
        "aa23ac00000000000303c00145660000003c0010045c6b20000000000000000000020d79"),
    "caps": bytes.fromhex(
        "aa3dac00000000000303b50a12020101430001011402010115020101160201001a020101100201011f020103250207203c203c203c05400001000100c805"),
    "caps_more": bytes.fromhex(
        "aa23ac00000000000303b5051e020101130201012202010019020100390001010000febe"),
    "props": bytes.fromhex(
        "aa21ac00000000000303b10409000001000a00000100150000012b1e020000005fa3"),
    "ack": bytes.fromhex(
        "aa18ac00000000000302b0020a0000013209001101000089a4"),
    "energy": bytes.fromhex(
        "aa22ac00000000000803c1210144000005e00000000000000006000aeb000000487a5e"),
    "humidity": bytes.fromhex(
        "aa20ac00000000000303c12101453f546c005d0a000000de1f0000ba9a0004af9c"),
}


def wrap(payload: bytes, frame_type: int = 3, length=None) -> bytes:
    """Wrap a payload (without CRC) in a frame with valid CRC and checksum."""
    body = bytes(payload) + bytes([crc8.calculate(bytes(payload))])
    header = bytearray(10)
    header[0] = 0xAA
    header[1] = (len(body) + 10 if length is None else length) & 0xFF
    header[2] = 0xAC
    header[8] = 3
    header[9] = frame_type
    frame = bytes(header) + body
    return frame + bytes([Frame.checksum(frame[1:])])


def refit(raw: bytes) -> bytes:
    """Recompute the trailing CRC and checksum of an arbitrary cut of a frame."""
    raw = bytearray(raw)
    if len(raw) >= 13:
        raw[-2] = crc8.calculate(bytes(raw[10:-2]))
    if len(raw) >= 2:
        raw[-1] = Frame.checksum(bytes(raw[1:-1]))
    return bytes(raw)


def payload_of(frame: bytes) -> bytes:
    return frame[10:-2]


def truncations(frame: bytes):
    """Every shorter version of a frame, in three flavours."""
    payload = payload_of(frame)
    ftype = frame[9]
    for n in range(len(payload)):
        # Proper re-wrap with fresh length byte
        yield wrap(payload[:n], ftype)
        # Proper re-wrap that keeps the stale length byte
        yield wrap(payload[:n], ftype, length=frame[1])
    for n in range(len(frame)):
        # Raw cut anywhere (header included) with the trailing bytes refitted
        yield refit(frame[:n])
        # Raw cut with only the outer checksum fixed
        cut = bytearray(frame[:n])
        if len(cut) >= 2:
            cut[-1] = Frame.checksum(bytes(cut[1:-1]))
        yield bytes(cut)


def field_sweeps(frame: bytes, record_header: int):
    """Set the count byte and each record's size byte to 0..255."""
    payload = bytearray(payload_of(frame))
    ftype = frame[9]

    # Locate the size bytes by walking the records of the good frame
    positions = [1]
    offset = 2
    for _ in range(payload[1]):
        if offset + record_header > len(payload):
            break
        size_at = offset + record_header - 1
        positions.append(size_at)
        offset += record_header + payload[size_at]

    for pos in positions:
        for value in range(256):
            mutated = bytearray(payload)
            mutated[pos] = value
            yield wrap(mutated, ftype)


def random_id_frames(rng: random.Random):
    for response_id in range(256):
        for ftype in (2, 3, 4, 5):
            n = rng.choice([0, 1, 2, 3, 4, 5, 8, 15, 16, 19, 20, 22, 30, 60, 200])
            yield wrap(bytes([response_id]) + rng.randbytes(n), ftype)
    # Oversized
    for response_id in (0xB0, 0xB1, 0xB5, 0xC0, 0xC1, 0x00):
        yield wrap(bytes([response_id]) + rng.randbytes(243), 3)
        yield wrap(bytes([response_id]) + b"\xff" * 243, 3)
        yield wrap(bytes([response_id, 0xFF]) + bytes(242), 3)


def grammar_frames(rng: random.Random, n: int = 4000):
    """Capability / property record sequences whose counts and sizes lie about the data."""
    cap_ids = [0x0212, 0x0214, 0x0215, 0x0210, 0x0225, 0x0040, 0x0018, 0x0043, 0x0039, 0x1234]
    prop_ids = [0x0009, 0x000A, 0x0015, 0x0018, 0x001A, 0x0039, 0x0042, 0x0043, 0x0048, 0x00E3, 0x1234]
    for _ in range(n):
        caps = rng.random() < 0.5
        body = bytearray()
        records = rng.randrange(0, 7)
        for _ in range(records):
            size = rng.choice([0, 1, 1, 2, 5, 6, 7, 8, rng.randrange(256)])
            actual = size if rng.random() < 0.7 else rng.randrange(0, 10)
            if caps:
                body += rng.choice(cap_ids).to_bytes(2, "little") + bytes([size])
            else:
                body += rng.choice(prop_ids).to_bytes(2, "little") + bytes([rng.choice([0, 0x10, 0x11]), size])
            body += rng.randbytes(actual)
        body += rng.randbytes(rng.choice([0, 0, 1, 2]))
        count = records if rng.random() < 0.5 else rng.randrange(256)
        payload = bytes([0xB5 if caps else rng.choice([0xB0, 0xB1]), count]) + bytes(body)
        if rng.random() < 0.3:
            payload = payload[:rng.randrange(1, len(payload) + 1)]
        yield wrap(payload, 3 if caps else rng.choice([2, 3]))


def bad_frames():
    rng = random.Random(14)
    yield b""
    yield from grammar_frames(random.Random(1402))
    for name, frame in GOOD.items():
        yield from truncations(frame)
    for name in ("caps", "caps_more"):
        yield from field_sweeps(GOOD[name], 3)
    for name in ("props", "ack"):
        yield from field_sweeps(GOOD[name], 4)
    yield from random_id_frames(rng)


class FakeLan:
    """Stand in for msmart.lan.LAN that answers from a script."""

    def __init__(self, script) -> None:
        self._script = script
        self.sent = []
        self.max_connection_lifetime = None
        self.token = None
        self.key = None

    async def send(self, data: bytes, retries: int = 3):
        self.sent.append(bytes(data))
        return list(self._script(bytes(data)))


def kind_of_request(data: bytes) -> str:
    body = data[10]
    if body == 0xB5:
        return "caps_more" if data[12] == 0x01 else "caps"
    if body == 0xB1:
        return "props"
    if body == 0xB0:
        return "ack"
    if body == 0x40:
        return "state"
    if body == 0x41:
        if data[11] == 0x21:
            return "energy" if data[13] == 0x44 else "humidity"
        return "state"
    return "state"


def make_device(script) -> AC:
    device = AC(ip="0.0.0.0", port=6444, device_id=1)
    device._lan = FakeLan(script)
    return device


def prime(device: AC) -> None:
    """Make refresh() send all four queries."""
    device._request_energy_usage = True
    device._supports_humidity = True
    device._supported_properties.update(
        {PropertyId.SWING_LR_ANGLE, PropertyId.SWING_UD_ANGLE, PropertyId.SELF_CLEAN})


OPERATIONS = {
    "refresh": lambda d: d.refresh(),
    "apply": lambda d: d.apply(),
    "get_capabilities": lambda d: d.get_capabilities(),
    "toggle_display": lambda d: d.toggle_display(),
    "start_self_clean": lambda d: d.start_self_clean(),
}

failures = []


def fail(msg: str) -> None:
    failures.append(msg)
    if len(failures) <= 20:
        print("FAIL:", msg)


async def run_op(name: str, device: AC, what: str) -> None:
    try:
        await OPERATIONS[name](device)
    except Exception as e:  # pylint: disable=broad-except
        fail(f"{name} raised {type(e).__name__}: {e} for {what}")


def snapshot(device: AC) -> dict:
    state = dict(device.to_dict())
    state["_supported_properties"] = sorted(device._supported_properties)
    state["_self_clean"] = device._self_clean_active
    return state


def decodable(frame: bytes) -> bool:
    """Classify a frame with the library itself; also checks the exception classes."""
    try:
        Response.construct(frame)
        return True
    except (InvalidFrameException, InvalidResponseException):
        return False
    except Exception as e:  # pylint: disable=broad-except
        fail(f"Response.construct raised {type(e).__name__} for {frame.hex()}")
        return False


async def reference(op: str) -> dict:
    """State after an exchange that consists of good frames only."""
    device = make_device(lambda data: [GOOD[kind_of_request(data)]])
    prime(device)
    device.horizontal_swing_angle = AC.SwingAngle.POS_3  # Give apply() properties to send
    await run_op(op, device, "good frames only")
    return snapshot(device)


async def main() -> int:
    frames = list(dict.fromkeys(bad_frames()))
    undecodable = [f for f in frames if not decodable(f)]
    print(f"{len(frames)} crafted frames, {len(undecodable)} of them undecodable")

    references = {op: await reference(op) for op in OPERATIONS}

    # Sanity: the good frames really are applied in the reference runs
    if references["refresh"]["target_temperature"] != 21.0:
        fail(f"reference refresh did not apply state: {references['refresh']}")
    if references["start_self_clean"]["horizontal_swing_angle"] != AC.SwingAngle.POS_3:
        fail("reference ack did not apply properties")

    trials = 0

    # 1. A bad frame alone, for every operation
    for i, bad in enumerate(frames):
        # All operations for a slice of the corpus, a rotating one for the rest
        ops = list(OPERATIONS) if i % 7 == 0 else [list(OPERATIONS)[i % len(OPERATIONS)]]
        for op in ops:
            device = make_device(lambda data, bad=bad: [bad])
            prime(device)
            device.horizontal_swing_angle = AC.SwingAngle.POS_3
            await run_op(op, device, f"lone frame {bad.hex()}")
            trials += 1

    # 2. Undecodable frames mixed with good ones: the good ones are still applied
    for i, bad in enumerate(undecodable):
        op = list(OPERATIONS)[i % len(OPERATIONS)]
        for layout in ("before", "after", "both"):
            def script(data, bad=bad, layout=layout):
                good = GOOD[kind_of_request(data)]
                return {"before": [bad, good], "after": [good, bad], "both": [bad, good, bad]}[layout]

            device = make_device(script)
            prime(device)
            device.horizontal_swing_angle = AC.SwingAngle.POS_3
            await run_op(op, device, f"mixed({layout}) frame {bad.hex()}")
            trials += 1

            if snapshot(device) != references[op]:
                fail(f"{op}: state after mixed({layout}) exchange with {bad.hex()} differs from good-only exchange")

    # 3. Decodable-but-odd frames followed by a good frame: no raise, and for a
    #    state query the trailing good state response determines the state
    odd = [f for f in frames if f not in set(undecodable)]
    for i, bad in enumerate(odd):
        op = list(OPERATIONS)[i % len(OPERATIONS)]
        device = make_device(lambda data, bad=bad: [bad, GOOD[kind_of_request(data)]])
        if op != "refresh":
            # An unprimed refresh() is a single state query, so the good state response is the last word
            prime(device)
        device.horizontal_swing_angle = AC.SwingAngle.POS_3
        await run_op(op, device, f"odd frame {bad.hex()} then good")
        trials += 1
        if op == "refresh" and device.target_temperature != 21.0:
            fail(f"refresh: good state response after {bad.hex()} not applied")

    print(f"{trials} operation trials ({FOCUS}), {len(failures)} failures")
    return 1 if failures else 0


if __name__ == "__main__":
    sys.exit(asyncio.run(main()))
