"""Demo 1: V2 packet encoding interoperates with an independent decoder.

Checks only what the format fixes (marker, LE length, AES-ECB/PKCS7 payload, keyed MD5,
device id); the header's message-id and timestamp fields are left free.
"""
import asyncio
import os
import sys
from hashlib import md5

from Crypto.Cipher import AES

from msmart.lan import LAN, _LanProtocol, _Packet

SIGN_KEY = b"xhdiwjnchekd4d512chdjx5d8e4c394D2D7S"
ENC_KEY = md5(SIGN_KEY).digest()


def ref_decode(packet: bytes):
    assert packet[:2] == b"\x5a\x5a", "marker"
    length = int.from_bytes(packet[4:6], "little")
    assert length == len(packet), "length"
    assert md5(packet[:-16] + SIGN_KEY).digest() == packet[-16:], "signature"
    body = packet[40:-16]
    assert len(body) % 16 == 0 and len(body) >= 16
    plain = AES.new(ENC_KEY, AES.MODE_ECB).decrypt(body)
    pad = plain[-1]
    assert 1 <= pad <= 16 and plain[-pad:] == bytes([pad]) * pad, "padding"
    return plain[:-pad], int.from_bytes(packet[20:28], "little")


def ref_encode(frame: bytes, device_id: int) -> bytes:
    pad = 16 - len(frame) % 16
    body = AES.new(ENC_KEY, AES.MODE_ECB).encrypt(frame + bytes([pad]) * pad)
    length = 40 + len(body) + 16
    head = (b"\x5a\x5a\x01\x11" + length.to_bytes(2, "little") + b"\x20\x80" + os.urandom(4)
            + os.urandom(8) + device_id.to_bytes(8, "little") + bytes(12))
    return head + body + md5(head + body + SIGN_KEY).digest()


def codec() -> None:
    ids = [0, 1, 255, 256, 65535, 65536, 2**32 - 1, 2**32, 2**48 - 1, 2**63, 2**64 - 1, 123456]
    for n in range(256):
        frame = os.urandom(n)
        for device_id in (ids[n % len(ids)], ids[(n * 7 + 3) % len(ids)]):
            packet = _Packet.encode(device_id, frame)
            assert ref_decode(packet) == (frame, device_id), (n, device_id)
            assert _Packet.decode(packet) == frame
            assert _Packet.decode(ref_encode(frame, device_id)) == frame

    # The same frame encoded repeatedly always decodes to itself
    frame = bytes.fromhex("aa21ac8d000000000003418100ff03ff000200000000000000000000000003016971")
    for _ in range(300):
        assert ref_decode(_Packet.encode(987654321, frame)) == (frame, 987654321)


class FakeTransport:
    """V2 device that ignores the first transmission and answers the second."""

    def __init__(self, protocol, reply: bytes):
        self.protocol, self.reply, self.written, self.closing = protocol, reply, [], False

    def get_extra_info(self, name):
        return ("10.0.0.9", 6444) if name == "peername" else None

    def is_closing(self):
        return self.closing

    def close(self):
        self.closing = True

    def write(self, data):
        self.written.append(bytes(data))
        if len(self.written) >= 2:
            asyncio.get_running_loop().call_soon(self.protocol.data_received, self.reply)


async def exchange() -> None:
    request = bytes.fromhex("aa20ac00000000000003418100ff03ff00020000000000000000000000000301cd9c")
    response = bytes.fromhex("aa22ac00000000000303c0014566000000300010045cff2070000000000000008bed19")

    lan = LAN("10.0.0.9", 6444, 0x1234_5678_9ABC)
    transports = []

    async def connect():
        protocol = _LanProtocol()
        transport = FakeTransport(protocol, ref_encode(response, 0x1234_5678_9ABC))
        protocol.connection_made(transport)
        transports.append(transport)
        lan._protocol = protocol

    lan._connect = connect
    frames = await lan.send(request, retries=3)
    assert frames == [response], frames

    (transport,) = transports
    assert len(transport.written) == 2
    for packet in transport.written:
        assert ref_decode(packet) == (request, 0x1234_5678_9ABC)


if __name__ == "__main__":
    codec()
    asyncio.run(exchange())
    print("demo OK")
    sys.exit(0)
