"""Demo for change 1 (response framing validation and class dispatch).

Exercises Frame.validate, Response.validate and Response.construct through their public behaviour only.
"""
import asyncio
import logging
import sys
from unittest.mock import patch

import msmart.crc8 as crc8
from msmart.base_device import Device
from msmart.device import AirConditioner as AC
from msmart.device.AC.command import (CapabilitiesResponse,
                                      EnergyUsageResponse, HumidityResponse,
                                      InvalidResponseException,
                                      PropertiesResponse, Response,
                                      StateResponse)
from msmart.frame import Frame, InvalidFrameException

logging.disable(logging.CRITICAL)

REJECTED = (InvalidFrameException, InvalidResponseException)


def frame(payload: bytes, frame_type: int = 3, crc: bool = True) -> bytes:
    body = bytes(payload)
    body += bytes([crc8.calculate(body) if crc else Frame.checksum(body)])
    header = bytearray(10)
    header[0] = 0xAA
    header[1] = len(body) + 10
    header[2] = 0xAC
    header[9] = frame_type
    f = bytes(header) + body
    return f + bytes([Frame.checksum(f[1:])])


def check(cond, msg):
    if not cond:
        print("FAIL:", msg)
        sys.exit(1)


STATE = bytes.fromhex(
    "aa23ac00000000000303c00145660000003c0010045c6b20000000000000000000020d79")
STATE_CHECKSUM = bytes.fromhex(
    "aa1eac00000000000003c0004b1e7f7f000000000069630000000000000d33")
CAPS = bytes.fromhex(
    "aa29ac00000000000303b5071202010113020101140201011502010116020101170201001a020101dedb")
NOTIFY = bytes.fromhex("aa1aac00000000000205b50310060101090001010a000101dcbcb4")
PROPS = bytes.fromhex(
    "aa21ac00000000000303b10409000001000a00000100150000012b1e020000005fa3")
PROPS_ACK = bytes.fromhex("aa18ac00000000000302b0020a0000013209001101000089a4")
PROPS_BAD_CRC = bytes.fromhex("aa14ac00000000000303b10109000001003c000042")
ENERGY = bytes.fromhex(
    "aa20ac00000000000203c121014400564a02640000000014ae0000000000041a22")
HUMIDITY = bytes.fromhex(
    "aa20ac00000000000303c12101453f546c005d0a000000de1f0000ba9a0004af9c")

# 1. Every kind of response is built as its own class, with the payload preserved
for data, klass in [(STATE, StateResponse), (STATE_CHECKSUM, StateResponse), (CAPS, CapabilitiesResponse),
                    (NOTIFY, Response), (PROPS, PropertiesResponse), (PROPS_ACK, PropertiesResponse),
                    (PROPS_BAD_CRC, PropertiesResponse), (ENERGY, EnergyUsageResponse),
                    (HUMIDITY, HumidityResponse)]:
    resp = Response.construct(data)
    check(type(resp) is klass, f"{data.hex()} -> {type(resp)}")
    check(resp.id == data[10] and resp.payload == data[10:-2], "id/payload")
    # Both bytes and memoryview frames validate
    with memoryview(data) as mv:
        Frame.validate(mv)

# Unknown ids and other group data are generic responses
check(type(Response.construct(frame(b"\xa0\x01\x02\x03"))) is Response, "unknown id")
check(type(Response.construct(frame(b"\xc1\x21\x01\x41" + bytes(16)))) is Response, "other group")
check(type(Response.construct(frame(b"\xc1\x21\x01\x44" + bytes(16), crc=False))) is EnergyUsageResponse,
      "group 4 with additive check")

# 2. Any single corrupted byte after the start byte is rejected (frame checksum)
for good in (STATE, CAPS, PROPS, ENERGY, HUMIDITY):
    for pos in range(1, len(good)):
        for delta in (1, 0x80, 0xFF):
            bad = bytearray(good)
            bad[pos] = (bad[pos] + delta) & 0xFF
            try:
                Response.construct(bytes(bad))
                check(False, f"corruption accepted at {pos}")
            except InvalidFrameException:
                pass

# 3. Body corruption with the outer checksum fixed up is rejected by the payload check
#    ...except for properties, which are exempt
for good in (STATE, CAPS, ENERGY, HUMIDITY):
    for pos in range(10, len(good) - 2):
        bad = bytearray(good)
        bad[pos] ^= 0x21
        bad[-1] = Frame.checksum(bad[1:-1])
        try:
            Response.construct(bytes(bad))
            check(False, f"payload corruption accepted at {pos}")
        except InvalidResponseException:
            pass
check(type(Response.construct(PROPS_BAD_CRC)) is PropertiesResponse, "properties exempt")

# Response.validate accepts CRC-8 or additive check, nothing else
body = STATE[10:-2]
for ok in (crc8.calculate(body), Frame.checksum(body)):
    with memoryview(body + bytes([ok])) as mv:
        Response.validate(mv)
for v in range(256):
    if v in (crc8.calculate(body), Frame.checksum(body)):
        continue
    try:
        with memoryview(body + bytes([v])) as mv:
            Response.validate(mv)
        check(False, "bad check byte accepted")
    except InvalidResponseException:
        pass

# 4. Truncation never escapes as anything but the two documented exceptions
for good in (STATE, CAPS, PROPS, ENERGY, HUMIDITY):
    payload = good[10:-2]
    for n in range(0, len(good)):
        try:
            Response.construct(good[:n])
        except REJECTED:
            pass
    for n in range(0, len(payload)):
        for style in (True, False):
            try:
                resp = Response.construct(frame(payload[:n], good[9], style))
                check(resp.payload == payload[:n], "truncated payload kept")
            except REJECTED:
                pass


# 5. Device level: bad frames are skipped, good ones still applied, nothing raises
async def device_level():
    dev = AC(ip="127.0.0.1", port=6444, device_id=1)
    bad = bytearray(STATE)
    bad[14] ^= 0xFF
    for batch, online in [([bytes(bad), STATE[:12], b"", STATE], True), ([bytes(bad), STATE[:5]], False)]:
        async def fake(self, command, batch=batch):
            return list(batch)
        with patch.object(Device, "_send_command", fake):
            await dev.refresh()
        check(dev.online == online and dev.supported == online, "online/supported")
    check(dev.target_temperature == 21.0 and dev.power_state is True, "good state applied")

asyncio.run(device_level())
print("demo OK")
