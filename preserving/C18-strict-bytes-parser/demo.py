"""Demonstration for C18: one device per responding host; bad responders are omitted.

Runs Discover.discover() against a simulated datagram endpoint with scripted replies.
Exits 0 if the property holds in all exercised cases.
"""
import asyncio
import itertools
import logging
import os
import random
import sys

from msmart.discover import Discover
from msmart.lan import Security

logging.disable(logging.CRITICAL)


# ---------------------------------------------------------------- reply builders
def v2_reply(ip: str, device_id: int, name: str = "net_ac_F7B4", body: bytes = None) -> bytes:
    if body is None:
        body = bytes(reversed([int(x) for x in ip.split(".")]))
        body += (6444).to_bytes(2, "little") + b"\x00\x00"
        body += b"000000P0000000Q1F0C9D153F7B40000"
        body += bytes([len(name)]) + name.encode()
        body += bytes(20)
    header = bytearray(40)
    header[0:2] = b"\x5a\x5a"
    header[2:4] = b"\x01\x11"
    header[20:26] = device_id.to_bytes(6, "little")
    return bytes(header) + Security.encrypt_aes(body) + bytes(16)


def v3_reply(ip: str, device_id: int, **kw) -> bytes:
    return b"\x83\x70\x00\xc8\x20\x0f\x00\x00" + v2_reply(ip, device_id, **kw) + bytes(16)


def bad_replies(ip: str, rnd: random.Random) -> dict:
    return {
        "random": bytes(rnd.randrange(256) for _ in range(rnd.randrange(1, 120))),
        "random_5a5a": b"\x5a\x5a" + bytes(rnd.randrange(256) for _ in range(100)),
        "short_body": v2_reply(ip, 1, body=b"\x01\x02\x03"),
        "short_body_v3": v3_reply(ip, 1, body=bytes(30)),
        "empty_envelope": b"\x5a\x5a" + bytes(20),
        "nontext_body": v2_reply(ip, 1, body=bytes([10, 0, 0, 10, 1, 2, 0, 0]) + b"\xff\xfe" * 16 + b"\x05\xff\xff\xff\xff\xff"),
        "no_separators": v2_reply(ip, 1, name="netacF7B4"),
        "nonhex_type": v3_reply(ip, 1, name="net_zz_F7B4"),
        "xml_no_attrs": b"<root><body><device/></body></root>",
        "xml_no_device": b"<root><body/></root>",
        "truncated": v2_reply(ip, 1)[:57],
    }


# ---------------------------------------------------------------- simulated network
class FakeSocket:
    def setsockopt(self, *a):
        pass


class FakeTransport:
    def __init__(self):
        self.sent = []
        self.closed = False

    def get_extra_info(self, name, default=None):
        return FakeSocket() if name == "socket" else default

    def sendto(self, data, addr=None):
        self.sent.append((data, addr))

    def close(self):
        self.closed = True

    def is_closing(self):
        return self.closed

    def abort(self):
        self.closed = True


async def run_discovery(script, timeout=0.05):
    """script: list of (delay, (ip, port), data)."""
    loop = asyncio.get_running_loop()
    transport = FakeTransport()

    async def fake_endpoint(factory, *a, **kw):
        protocol = factory()
        protocol.connection_made(transport)

        def deliver(data, addr):
            if not transport.closed:
                protocol.datagram_received(data, addr)
        for delay, addr, data in script:
            loop.call_later(delay, deliver, data, addr)
        return transport, protocol

    orig = loop.create_datagram_endpoint
    loop.create_datagram_endpoint = fake_endpoint
    try:
        Discover._lock = None
        return await Discover.discover(timeout=timeout, auto_connect=False)
    finally:
        loop.create_datagram_endpoint = orig


def check(devices, expected: dict, label: str):
    got = sorted((d.ip, d.id) for d in devices)
    want = sorted(expected.items())
    assert got == want, f"{label}: got {got}, want {want}"
    for d in devices:
        assert d.port == 6444 and d.name == "net_ac_F7B4", label


async def main():
    rnd = random.Random(18)
    hosts = [f"10.0.0.{i}" for i in range(1, 5)]
    ids = {h: 1000 + i for i, h in enumerate(hosts)}
    cases = 0

    # 1. Duplicates from different ports, all exhaustive interleavings for 2 hosts x (2+2 replies)
    base = [(hosts[0], 6445, v2_reply(hosts[0], ids[hosts[0]])),
            (hosts[0], 20086, v2_reply(hosts[0], ids[hosts[0]])),
            (hosts[1], 6445, v3_reply(hosts[1], ids[hosts[1]])),
            (hosts[1], 6445, v3_reply(hosts[1], ids[hosts[1]]))]
    for perm in set(itertools.permutations(range(4))):
        script = [(0.001 * k, (base[i][0], base[i][1]), base[i][2]) for k, i in enumerate(perm)]
        check(await run_discovery(script, 0.02), {h: ids[h] for h in hosts[:2]}, f"perm{perm}")
        cases += 1

    # 2. Every bad class from one host, interleaved with good hosts (with duplicates)
    for kind in bad_replies(hosts[0], rnd):
        for bad_first in (True, False):
            bad = bad_replies(hosts[2], rnd)[kind]
            script = [(0.002, (hosts[0], 6445), v2_reply(hosts[0], ids[hosts[0]])),
                      (0.001 if bad_first else 0.003, (hosts[2], 6445), bad),
                      (0.004, (hosts[2], 20086), bad),
                      (0.004, (hosts[1], 20086), v3_reply(hosts[1], ids[hosts[1]])),
                      (0.005, (hosts[0], 20086), v2_reply(hosts[0], ids[hosts[0]]))]
            check(await run_discovery(script, 0.02), {h: ids[h] for h in hosts[:2]}, f"bad:{kind}")
            cases += 1

    # 3. Random multisets / orders, any subset of hosts bad
    for trial in range(60):
        n = rnd.randrange(1, 5)
        script, expected = [], {}
        for h in hosts[:n]:
            is_bad = rnd.random() < 0.4
            if is_bad:
                kind = rnd.choice(sorted(bad_replies(h, rnd)))
                data = bad_replies(h, rnd)[kind]
            else:
                data = rnd.choice([v2_reply, v3_reply])(h, ids[h])
                expected[h] = ids[h]
            for _ in range(rnd.randrange(1, 5)):
                script.append((rnd.random() * 0.01, (h, rnd.choice([6445, 20086, 40000])), data))
        rnd.shuffle(script)
        check(await run_discovery(script, 0.03), expected, f"random{trial}")
        cases += 1

    # 5. Parsed values of good replies are what the wire bytes say (also for unusual-but-valid bodies)
    def body(ip, port, sn, name, name_len=None, tail=bytes(7)):
        b = bytes(reversed([int(x) for x in ip.split(".")])) + port.to_bytes(2, "little") + b"\x00\x00"
        b += sn.encode() + bytes([len(name.encode()) if name_len is None else name_len]) + name.encode() + tail
        return b
    variants = [
        # (reported ip, port, sn, name, name_len, tail, expected name, expected type)
        ("10.0.0.1", 6444, "000000P0000000Q1F0C9D153F7B40000", "net_ac_F7B4", None, bytes(7), "net_ac_F7B4", 0xAC),
        ("192.168.7.9", 1, "X" * 32, "net_AC_0000", None, b"", "net_AC_0000", 0xAC),       # mismatching reported IP
        ("10.0.0.1", 65535, "0" * 32, "midea_a1_12_34", None, bytes(3), "midea_a1_12_34", 0xA1),
        ("10.0.0.1", 6444, "0" * 32, "net_ac_F7B4", 200, b"", "net_ac_F7B4", 0xAC),           # length byte beyond end
        ("10.0.0.1", 6444, "0" * 32, "net_ac_F7B4zzzz", 11, b"", "net_ac_F7B4", 0xAC),        # name shorter than tail
        ("10.0.0.1", 6444, "0" * 32, "n\u00e9t_fd_1", None, b"", "n\u00e9t_fd_1", 0xFD),       # UTF-8 name
    ]
    for k, (rip, port, sn, name, nlen, tail, ename, etype) in enumerate(variants):
        for builder in (v2_reply, v3_reply):
            good = builder(hosts[0], 4242 + k, body=body(rip, port, sn, name, nlen, tail))
            bad = bad_replies(hosts[1], rnd)["nontext_body"]
            script = [(0.001, (hosts[1], 6445), bad), (0.002, (hosts[0], 6445), good), (0.003, (hosts[0], 20086), good)]
            devs = await run_discovery(script, 0.02)
            assert len(devs) == 1, (k, devs)
            d = devs[0]
            got = (d.ip, d.port, d.id, d.sn, d.name, d.type, d.version)
            want = (hosts[0], port, 4242 + k, sn, ename, etype, 2 if builder is v2_reply else 3)
            assert got == want, (got, want)
            assert type(d).__name__ == ("AirConditioner" if etype == 0xAC else "Device")
            cases += 1

    # 4. No replies at all
    check(await run_discovery([], 0.01), {}, "empty")
    print(f"OK: {cases + 1} discovery runs satisfied the property")


if __name__ == "__main__":
    asyncio.run(main())
    sys.exit(0)
