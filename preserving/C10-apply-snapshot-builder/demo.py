"""Demonstration for property C10: the 0x40 control body produced by
AirConditioner.apply() decodes (independent decoder, vendor bit layout as used
by the library) to exactly the requested state, and distinct states give
distinct bodies.  Only the fields named in the statement are looked at; the
timer bytes, the reserved bytes, the message id, the CRC and the frame checksum
are deliberately left free (only their internal consistency is checked)."""
import asyncio
import itertools
import logging
import random
import sys

import msmart.crc8 as crc8
from msmart.device import AirConditioner as AC
from msmart.device.AC.command import SetStateCommand
from msmart.frame import Frame

logging.disable(logging.CRITICAL)

FIELDS = ("beep", "power", "temp", "mode", "fan", "swing", "eco", "turbo", "sleep",
          "fahrenheit", "freeze", "follow_me", "purifier", "humidity", "aux")


def decode(body: bytes) -> dict:
    assert body[0] == 0x40 and len(body) == 24, body.hex()
    assert body[1] & 0x02, "control source"
    alt = body[18] & 0x1F
    temp = (alt + 12) if alt else ((body[2] & 0x0F) + 16)
    if body[2] & 0x10:
        temp += 0.5
    turbo, turbo_alt = bool(body[10] & 0x02), bool(body[8] & 0x20)
    assert turbo == turbo_alt
    aux = ("AUX_HEAT" if body[9] & 0x08 else "AUX_ONLY" if body[22] & 0x08 else "OFF")
    assert not (body[9] & 0x08 and body[22] & 0x08)
    assert not body[9] & 0x10  # force aux never requested by apply()
    return dict(beep=bool(body[1] & 0x40), power=bool(body[1] & 0x01), temp=temp,
                mode=body[2] >> 5, fan=body[3] & 0x7F, swing=body[7] & 0x0F,
                eco=bool(body[9] & 0x80), turbo=turbo, sleep=bool(body[10] & 0x01),
                fahrenheit=bool(body[10] & 0x04), freeze=bool(body[21] & 0x80),
                follow_me=bool(body[8] & 0x80), purifier=bool(body[9] & 0x20),
                humidity=body[19] & 0x7F, aux=aux)


def unframe(frame: bytes) -> bytes:
    """Check framing consistency and return the 24 byte body (without id/CRC)."""
    assert frame[0] == 0xAA and frame[1] == len(frame) - 1
    assert frame[2] == 0xAC and frame[9] == 0x02
    assert Frame.checksum(frame[1:-1]) == frame[-1]
    payload = frame[10:-1]
    assert crc8.calculate(payload[:-1]) == payload[-1]
    assert len(payload) == 26
    return bytes(payload[:24])


async def apply_and_capture(state: dict) -> bytes:
    dev = AC(ip="127.0.0.1", port=6444, device_id=1)
    sent = []

    async def fake_send(data, *a, **k):
        sent.append(bytes(data))
        return []
    dev._lan.send = fake_send

    dev.beep = state["beep"]
    dev.power_state = state["power"]
    dev.target_temperature = state["temp"]
    dev.operational_mode = state["mode"]
    dev.fan_speed = state["fan"]
    dev.swing_mode = state["swing"]
    dev.eco = state["eco"]
    dev.turbo = state["turbo"]
    dev.sleep = state["sleep"]
    dev.fahrenheit = state["fahrenheit"]
    dev.freeze_protection = state["freeze"]
    dev.follow_me = state["follow_me"]
    dev.purifier = state["purifier"]
    dev.target_humidity = state["humidity"]
    dev.aux_mode = AC.AuxHeatMode[state["aux"]]
    await dev.apply()

    controls = [f for f in sent if f[9] == 0x02 and f[10] == 0x40]
    assert len(controls) == 1, [f.hex() for f in sent]
    return unframe(controls[0])


BASE = dict(beep=False, power=True, temp=24.0, mode=AC.OperationalMode.COOL, fan=AC.FanSpeed.AUTO,
            swing=AC.SwingMode.OFF, eco=False, turbo=False, sleep=False, fahrenheit=False,
            freeze=False, follow_me=False, purifier=False, humidity=40, aux="OFF")


def norm(state: dict) -> dict:
    s = dict(state)
    s["mode"], s["fan"], s["swing"] = int(s["mode"]), int(s["fan"]), int(s["swing"])
    s["temp"] = float(s["temp"])
    return s


async def main() -> int:
    rng = random.Random(10)
    states = []
    temps = [13 + i / 2 for i in range(62)]          # 13.0 .. 43.5
    for t, m in itertools.product(temps, AC.OperationalMode.list()):
        states.append({**BASE, "temp": t, "mode": m})
    for fan in range(128):
        states.append({**BASE, "fan": fan})
    for sw in AC.SwingMode.list():
        states.append({**BASE, "swing": sw})
    flags = ("beep", "power", "eco", "turbo", "sleep", "fahrenheit", "freeze", "follow_me", "purifier")
    for bits in itertools.product((False, True), repeat=len(flags)):
        states.append({**BASE, **dict(zip(flags, bits))})
    for aux, hum in itertools.product(("OFF", "AUX_HEAT", "AUX_ONLY"), (0, 1, 35, 40, 85, 100, 127)):
        states.append({**BASE, "aux": aux, "humidity": hum})
    states.append({**BASE, "temp": 25})               # int setpoint
    for _ in range(1500):
        states.append(dict(
            beep=rng.random() < .5, power=rng.random() < .5, temp=rng.choice(temps),
            mode=rng.choice(AC.OperationalMode.list()), fan=rng.randrange(1, 103),
            swing=rng.choice(AC.SwingMode.list()), eco=rng.random() < .5, turbo=rng.random() < .5,
            sleep=rng.random() < .5, fahrenheit=rng.random() < .5, freeze=rng.random() < .5,
            follow_me=rng.random() < .5, purifier=rng.random() < .5, humidity=rng.randrange(0, 101),
            aux=rng.choice(("OFF", "AUX_HEAT", "AUX_ONLY"))))

    seen = {}
    for st in states:
        body = await apply_and_capture(st)
        want, got = norm(st), decode(body)
        if got != want:
            print("MISMATCH", want, got, body.hex())
            return 1
        key = tuple(want[f] for f in FIELDS)
        if seen.setdefault(body, key) != key:
            print("COLLISION", seen[body], key, body.hex())
            return 1
    if len(set(seen.values())) != len(seen):
        print("same state gave two bodies")
        return 1

    # Direct use of the command class: same answer as through apply()
    cmd = SetStateCommand()
    cmd.beep_on, cmd.power_on, cmd.target_temperature = False, True, 30.5
    cmd.operational_mode, cmd.fan_speed, cmd.swing_mode = 4, 60, 0xF
    cmd.eco, cmd.fahrenheit, cmd.turbo, cmd.target_humidity = False, False, True, 55
    got = decode(unframe(cmd.tobytes()))
    assert (got["temp"], got["mode"], got["fan"], got["swing"], got["turbo"], got["humidity"]) == \
        (30.5, 4, 60, 0xF, True, 55), got

    # Unknown (None) local values fall back to the documented defaults, ints/enums/bools
    # given in other but equal forms give the same body
    dev = AC(ip="127.0.0.1", port=6444, device_id=2)
    sent = []

    async def fake_send(data, *a, **k):
        sent.append(bytes(data))
        return []
    dev._lan.send = fake_send
    for attr in ("_power_state", "_target_temperature", "_eco", "_turbo", "_freeze_protection", "_sleep",
                 "_fahrenheit_unit", "_follow_me", "_purifier", "_target_humidity"):
        setattr(dev, attr, None)
    await dev.apply()
    got = decode(unframe(sent[-1]))
    assert got == dict(beep=False, power=False, temp=25.0, mode=1, fan=102, swing=0, eco=False, turbo=False,
                       sleep=False, fahrenheit=False, freeze=False, follow_me=False, purifier=False,
                       humidity=40, aux="OFF"), got
    a = await apply_and_capture({**BASE, "mode": 4, "fan": 80, "swing": 0xC, "temp": 30, "power": 1, "eco": 1})
    b = await apply_and_capture({**BASE, "mode": AC.OperationalMode.HEAT, "fan": AC.FanSpeed.HIGH,
                                 "swing": AC.SwingMode.VERTICAL, "temp": 30.0, "power": True, "eco": True})
    assert a == b, (a.hex(), b.hex())

    print(f"OK: {len(states)} states, {len(seen)} distinct bodies")
    return 0


if __name__ == "__main__":
    sys.exit(asyncio.run(main()))
