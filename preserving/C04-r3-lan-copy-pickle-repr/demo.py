"""Demonstration for C04 (V3 stream reassembly is segmentation independent).

Part A drives _LanProtocolV3.data_received directly with many segmentations.
Part B drives LAN.send against a simulated V3 unit on a virtual-time event loop
and checks which frames are returned and at which (virtual) time.
Part C is specific to the change this demo accompanies (see bottom).

Exits 0 when everything holds.
"""
import asyncio
import copy
import heapq
import itertools
import logging
import os
import pickle
import random
import sys
from hashlib import sha256

from Crypto.Util.strxor import strxor

from msmart.lan import LAN, Security, _LanProtocolV3, _Packet

logging.disable(logging.CRITICAL)

MARK = b"\x83\x70"
RNG = random.Random(404)


def check(cond, msg):
    if not cond:
        print("FAIL:", msg)
        sys.exit(1)


# ---------------------------------------------------------------- virtual time
class VLoop(asyncio.SelectorEventLoop):
    """Selector loop whose clock jumps to the next timer when idle."""

    def __init__(self):
        super().__init__()
        self._vt = 0.0

    def time(self):
        return self._vt

    def _run_once(self):
        while self._scheduled and self._scheduled[0]._cancelled:
            h = heapq.heappop(self._scheduled)
            h._scheduled = False
            self._timer_cancelled_count = max(
                0, self._timer_cancelled_count - 1)
        if not self._ready and self._scheduled:
            self._vt = max(self._vt, self._scheduled[0]._when)
        super()._run_once()


# ---------------------------------------------------------------- wire helpers
def raw_packet(body: bytes) -> bytes:
    """A V3 packet for framing purposes: 6 byte header + body (>= 2 bytes)."""
    assert len(body) >= 2
    return MARK + (len(body) - 2).to_bytes(2, "big") + b"\x20\x03" + body


def garbage(n: int) -> bytes:
    """Marker free garbage of n bytes (may contain lone 0x83 / 0x70)."""
    while True:
        g = bytes(RNG.choice([0x83, 0x70, 0x00, 0x5A, RNG.randrange(256)])
                  for _ in range(n))
        # must not contain the marker, and must not form one with the packet start
        if MARK not in g + b"\x83":
            return g


class NullTransport:
    def __init__(self):
        self.closed = False
        self.written = []

    def get_extra_info(self, name, default=None):
        return ("10.0.0.1", 6444) if name == "peername" else default

    def is_closing(self):
        return self.closed

    def close(self):
        self.closed = True

    def abort(self):
        self.closed = True

    def write(self, data):
        self.written.append(bytes(data))

    def __deepcopy__(self, memo):
        raise TypeError("cannot copy a transport (like a real socket)")

    def __reduce__(self):
        raise TypeError("cannot pickle a transport (like a real socket)")


def new_proto():
    p = _LanProtocolV3()
    p.connection_made(NullTransport())
    return p


def drain(p):
    out = []
    while p._queue.qsize():
        out.append(bytes(p._queue.get_nowait()))
    return out


def feed_and_check(packets, prefix, cuts, what):
    """Feed prefix+packets split at cuts; check exact, ordered, prompt delivery."""
    stream = prefix + b"".join(packets)
    ends = list(itertools.accumulate(
        [len(prefix) + len(packets[0])] + [len(x) for x in packets[1:]]))
    bounds = [0] + sorted(cuts) + [len(stream)]
    p = new_proto()
    got = []
    for a, b in zip(bounds, bounds[1:]):
        if a == b:
            continue
        p.data_received(stream[a:b])
        got += drain(p)
        due = sum(1 for e in ends if e <= b)
        check(len(got) == due,
              f"{what}: after {b} bytes {len(got)} packets delivered, {due} complete (cuts={cuts})")
    check(got == packets, f"{what}: packets differ (cuts={cuts})")


def part_a():
    n = 0
    # exhaustive: up to 3 cut points on short streams of 1..3 packets
    for sizes in ([2], [5], [2, 3], [18, 2], [2, 2, 2], [3, 2, 4]):
        packets = [raw_packet(bytes(RNG.randrange(256) for _ in range(s)))
                   for s in sizes]
        for prefix in (b"", garbage(1), garbage(3)):
            total = len(prefix) + sum(map(len, packets))
            for k in range(0, 4 if total <= 30 else 3):
                for cuts in itertools.combinations(range(1, total), k):
                    feed_and_check(packets, prefix, list(cuts), "exhaustive")
                    n += 1
    # payloads containing the marker, marker at the very end, length bytes 83 70
    tricky = [raw_packet(MARK * 3), raw_packet(b"\x00" + MARK),
              raw_packet(b"\x83" * 5 + b"\x70"),
              raw_packet(b"\x70\x83\x70\x83")]
    for prefix in (b"", garbage(2), b"\x83", b"\x70\x83"):
        total = len(prefix) + sum(map(len, tricky))
        for k in (0, 1, 2):
            for cuts in itertools.combinations(range(1, total), k):
                if k == 2 and RNG.random() < 0.9:
                    continue
                feed_and_check(tricky, prefix, list(cuts), "tricky")
                n += 1
        feed_and_check(tricky, prefix, list(range(1, total)), "tricky bytewise")
    # random: 1..4 packets, arbitrary sizes, many cuts
    for _ in range(300):
        packets = []
        for _ in range(RNG.randint(1, 4)):
            size = RNG.choice([2, 3, 16, 34, 66, 130, 300, 1200])
            body = bytearray(RNG.randrange(256) for _ in range(size))
            if size > 8 and RNG.random() < 0.5:
                at = RNG.randrange(size - 1)
                body[at:at + 2] = MARK
            packets.append(raw_packet(bytes(body)))
        prefix = garbage(RNG.choice([0, 0, 1, 2, 7, 40]))
        total = len(prefix) + sum(map(len, packets))
        mode = RNG.random()
        if mode < 0.2:
            cuts = list(range(1, total))
        else:
            cuts = sorted(RNG.sample(range(1, total),
                                     min(total - 1, RNG.choice([1, 2, 3, 10, 50]))))
        feed_and_check(packets, prefix, cuts, "random")
        n += 1
    # a packet whose size field equals the marker bytes
    odd = raw_packet(bytes(RNG.randrange(256) for _ in range(0x8370 + 2)))
    check(odd[:4] == MARK + MARK, "size field is the marker")
    for cuts in ([], [1], [2], [3], [4], [2, 3, 4], [1, 2, 3], [5, len(odd) - 1], [len(odd) + 1]):
        feed_and_check([odd, raw_packet(MARK)], b"", cuts, "size==marker")
        feed_and_check([raw_packet(b"xy"), odd], garbage(4), cuts, "size==marker")
        n += 2
    # a 65535+8 byte packet, the largest the size field can express
    big = raw_packet(bytes(RNG.randrange(256) for _ in range(0xFFFF + 2)))
    feed_and_check([big, raw_packet(b"ab")], b"", [1, 5, 6, 70000], "largest")
    return n


# ---------------------------------------------------------------- simulated unit
TOKEN = bytes(range(64))
KEY = bytes(range(32, 64))
SECRET = bytes((7 * i + 1) % 256 for i in range(32))
LOCAL_KEY = strxor(SECRET, KEY)
DEVICE_ID = 0x1234


def handshake_reply() -> bytes:
    body = Security.encrypt_aes_cbc(KEY, SECRET) + sha256(SECRET).digest()
    return MARK + len(body).to_bytes(2, "big") + b"\x20\x01" + b"\x00\x00" + body


def encrypted_reply(frame: bytes, count: int, want_marker=False) -> bytes:
    inner = _Packet.encode(DEVICE_ID, frame)
    while True:
        remainder = (len(inner) + 2) % 16
        pad = 16 - remainder if remainder else 0
        header = MARK + (len(inner) + pad + 32).to_bytes(2, "big") + \
            bytes([0x20, pad << 4 | 0x3])
        plain = count.to_bytes(2, "big") + inner + os.urandom(pad)
        pkt = header + Security.encrypt_aes_cbc(LOCAL_KEY, plain) + \
            sha256(header + plain).digest()
        if not want_marker or MARK in pkt[6:]:
            return pkt
        count = (count + 1) & 0xFFFF


class Unit:
    """Simulated V3 unit. `script` is a list of replies, one per request: each a
    list of (delay, bytes) segments handed to data_received."""

    def __init__(self, loop):
        self.loop = loop
        self.script = []
        self.requests = []
        self.protocols = []
        self.busy_until = 0.0

    async def create_connection(self, factory, host=None, port=None, **kw):
        proto = factory()
        tr = UnitTransport(self, proto)
        self.protocols.append(proto)
        proto.connection_made(tr)
        return tr, proto


class UnitTransport(NullTransport):
    def __init__(self, unit, proto):
        super().__init__()
        self.unit = unit
        self.proto = proto

    def write(self, data):
        data = bytes(data)
        check(not self.closed, "write on closed transport")
        unit = self.unit
        if data[5] & 0xF == 0x0:
            unit.loop.call_later(0.05, self._deliver, handshake_reply())
            return
        unit.requests.append((unit.loop.time(), data))
        if unit.script:
            # the unit writes its replies one after the other
            now = unit.loop.time()
            base = max(now, unit.busy_until)
            for delay, seg in unit.script.pop(0):
                unit.loop.call_at(base + delay, self._deliver, seg)
                unit.busy_until = base + delay

    def _deliver(self, seg):
        if not self.closed:
            self.proto.data_received(seg)


def segments(stream, cuts, t0=0.1, step=0.03):
    bounds = [0] + sorted(cuts) + [len(stream)]
    out = []
    for i, (a, b) in enumerate(zip(bounds, bounds[1:])):
        out.append((t0 + i * step, stream[a:b]))
    return out


def frame(i):
    return bytes([0xAA, 0x20 + i]) + bytes((i * 31 + j) % 256 for j in range(5 + 9 * i))


async def one_exchange_case(loop, unit, lan, frames, prefix, cuts, what):
    """One send whose reply carries len(frames) packets in the given segmentation,
    then (after everything has arrived) a second send with a plain reply."""
    packets = [encrypted_reply(f, 100 + i, want_marker=(i % 2 == 0))
               for i, f in enumerate(frames)]
    stream = prefix + b"".join(packets)
    segs = segments(stream, cuts)
    unit.script.append(segs)

    # when is each packet complete?
    ends = list(itertools.accumulate(
        [len(prefix) + len(packets[0])] + [len(x) for x in packets[1:]]))
    fed = list(itertools.accumulate(len(s) for _, s in segs))
    done_at = [next(segs[i][0] for i, n in enumerate(fed) if n >= e) for e in ends]

    t0 = loop.time()
    got = await lan.send(b"\xAA\x01request")
    t1 = loop.time()
    first = [f for f, d in zip(frames, done_at) if d <= done_at[0]]
    check(abs((t1 - t0) - done_at[0]) < 1e-6,
          f"{what}: send returned after {t1 - t0:.3f}s, first packet complete at {done_at[0]:.3f}s")
    check(got == first, f"{what}: first send returned {len(got)} frames, expected {len(first)}")

    await asyncio.sleep(segs[-1][0] + 1)
    tail = frame(9)
    unit.script.append([(0.1, encrypted_reply(tail, 7))])
    t0 = loop.time()
    got2 = await lan.send(b"\xAA\x02request")
    check(abs(loop.time() - t0 - 0.1) < 1e-6, f"{what}: second send timing")
    check(got2 == frames[len(first):] + [tail],
          f"{what}: second send returned wrong frames ({len(got2)})")


async def part_b(loop):
    unit = Unit(loop)
    loop.create_connection = unit.create_connection
    lan = LAN("10.0.0.1", 6444, DEVICE_ID)
    await lan.authenticate(TOKEN, KEY)
    check(len(unit.protocols) == 1, "one connection")

    n = 0
    for count in (1, 2, 3, 4):
        frames = [frame(i) for i in range(count)]
        size = len(b"".join(encrypted_reply(f, 1) for f in frames))
        for prefix in (b"", garbage(5)):
            total = size + len(prefix)
            cases = [[], [1], [total - 1], [1, 2, 3], list(range(1, total, 7))]
            cases.append(list(range(1, total)) if count <= 2 else
                         sorted(RNG.sample(range(1, total), 40)))
            for _ in range(4):
                cases.append(sorted(RNG.sample(range(1, total), RNG.randint(1, 3))))
            for cuts in cases:
                await one_exchange_case(loop, unit, lan, frames, prefix, cuts,
                                        f"send n={count} prefix={len(prefix)}")
                n += 1
    check(len(unit.protocols) == 1, "connection was kept for the whole run")
    return n, unit, lan


# ---------------------------------------------------------------- part C
def part_c_protocol():
    """Looking at the objects (repr/str/format) at any moment does not disturb framing."""
    n = 0
    for _ in range(60):
        packets = [raw_packet(MARK + bytes(RNG.randrange(256) for _ in range(RNG.choice([0, 14, 62]))))
                   for _ in range(RNG.randint(1, 4))]
        stream = garbage(RNG.choice([0, 3])) + b"".join(packets)
        p = new_proto()
        got = []
        step = RNG.choice([1, 1, 2, 5, 9])
        for i in range(0, len(stream), step):
            check(isinstance(repr(p), str) and isinstance(f"{p}", str), "repr")
            p.data_received(stream[i:i + step])
            check(isinstance(repr(p), str), "repr")
            got += drain(p)
        check(got == packets, "framing with repr() between segments")
        n += 1
    return n


async def exchange(loop, unit, lan, frames, cuts, prefix=b""):
    stream = prefix + b"".join(encrypted_reply(f, 50 + i, want_marker=True)
                               for i, f in enumerate(frames))
    unit.script.append([(0.1 + 0.001 * i, seg) for i, (_, seg) in
                        enumerate(segments(stream, cuts))])
    got = await lan.send(b"\xAA\x0Ax")
    await asyncio.sleep(1)
    unit.script.append([(0.1, encrypted_reply(frame(8), 8))])
    got += await lan.send(b"\xAA\x0By")
    check(got == frames + [frame(8)], f"exchange: {len(got)} frames for {len(frames)}+1 packets")
    check(isinstance(repr(lan), str), "repr(lan)")


async def part_c(loop, unit, lan):
    """Copies of a LAN object (made while it has no connection) are independent
    objects that talk to the unit over their own connection."""
    check(isinstance(repr(lan), str), "repr(lan)")

    # 1. copies of an object that has no connection at the moment
    lan._disconnect()
    conns = len(unit.protocols)
    clones = [copy.deepcopy(lan), copy.copy(lan), pickle.loads(pickle.dumps(lan))]
    fresh = copy.deepcopy(LAN("10.0.0.1", 6444, DEVICE_ID))
    await fresh.authenticate(TOKEN.hex(), KEY.hex())
    clones.append(fresh)
    for c in clones:
        check(c is not lan and c.token == TOKEN and c.key == KEY, "copy keeps credentials")
        check(c._protocol is None or c is fresh, "copy has no connection")
    objs = [lan] + clones
    for rnd in range(3):
        for i, o in enumerate(objs):
            frames = [frame(j) for j in range(1 + (i + rnd) % 4)]
            total = sum(len(encrypted_reply(f, 1)) for f in frames)
            cuts = list(range(1, total)) if (i + rnd) % 2 else sorted(
                RNG.sample(range(1, total), 3))
            await exchange(loop, unit, o, frames, cuts, garbage(rnd))
    check(len(unit.protocols) == conns + len(objs), "one connection per object")
    check(len({id(o._protocol) for o in objs}) == len(objs), "no shared protocol objects")

    # 2. copy made while a packet is half received on the original's connection.
    #    (Only possible if the object supports being copied in that state.)
    proto = lan._protocol
    r = encrypted_reply(frame(5), 5, want_marker=True)
    proto.data_received(r[:40])
    before = bytes(proto._buffer)
    try:
        twin = copy.deepcopy(lan)
    except Exception as e:  # sockets, loops, transports can not be copied
        twin = None
        print(f"  copy of a connected object not supported here ({type(e).__name__})")
    check(lan._protocol is proto and bytes(proto._buffer) == before,
          "copying does not disturb the connection of the original")
    if twin is not None:
        print(f"  copy of a connected object: {twin!r}")
        await exchange(loop, unit, twin, [frame(6)], [5])
    proto.data_received(r[40:])
    unit.script.append([(0.1, encrypted_reply(frame(7), 7))])
    got = await lan.send(b"\xAA\x0Cz")
    check(got == [frame(5), frame(7)], "original after being copied mid packet")


def main():
    n_a = part_a()
    n_c = part_c_protocol()
    loop = VLoop()
    asyncio.set_event_loop(loop)
    try:
        n_b, unit, lan = loop.run_until_complete(part_b(loop))
        loop.run_until_complete(part_c(loop, unit, lan))
    finally:
        loop.close()
    print(f"OK: {n_a} framing cases, {n_b} send cases, {n_c} repr cases, part C passed")


if __name__ == "__main__":
    main()
