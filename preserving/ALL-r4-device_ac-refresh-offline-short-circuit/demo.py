"""Demo 1: refresh()/toggle_display() against responsive, silent, half-silent and unreachable units.

Runs a small fake V2 unit on the loopback interface.  Exits 0 on the original code and with change.patch.
"""
import asyncio
import struct
import sys

import msmart.crc8 as crc8
import msmart.lan as lan
from msmart.const import DeviceType, FrameType
from msmart.device import AirConditioner as AC
from msmart.frame import Frame

# Shorten the 2 s read timeout so silent-unit scenarios finish quickly (counts are unchanged)
_orig_read = lan._LanProtocol.read


async def _fast_read(self, timeout=2):
    return await _orig_read(self, timeout=0.15 if timeout else 0)

lan._LanProtocol.read = _fast_read


class _Resp(Frame):
    def __init__(self, ftype):
        super().__init__(DeviceType.AIR_CONDITIONER, ftype)


def build(ftype, body: bytes) -> bytes:
    return _Resp(ftype).tobytes(bytes(body) + bytes([crc8.calculate(bytes(body))]))


class FakeUnit:
    """A V2 unit with state, humidity, energy, properties and capabilities."""

    def __init__(self):
        self.power = True
        self.mode = 2
        self.temp = 22.5
        self.fan = 60
        self.swing = 0xC
        self.eco = False
        self.turbo = False
        self.sleep = False
        self.display = True
        self.humidity_target = 45
        self.indoor_humidity = 51
        self.props = {0x0009: bytes([25]), 0x000A: bytes([50]), 0x0048: bytes([75])}
        self.silent = False          # never answer
        self.mute_kinds = set()      # kinds not answered
        self.log = []                # (kind, frame) of every received transmission
        self.server = None
        self.port = None
        self.writers = []

    async def start(self):
        self.server = await asyncio.start_server(self._client, "127.0.0.1", 0)
        self.port = self.server.sockets[0].getsockname()[1]

    async def stop(self):
        self.server.close()
        for w in self.writers:
            w.close()

    # -- frames ---------------------------------------------------------------------------
    def state_frame(self) -> bytes:
        b = bytearray(24)
        b[0] = 0xC0
        b[1] = 0x01 if self.power else 0
        whole = int(self.temp)
        b[2] = ((self.mode & 7) << 5) | ((whole - 16) & 0xF) | (0x10 if self.temp != whole else 0)
        b[3] = self.fan
        b[7] = 0x30 | self.swing
        b[8] = 0x20 if self.turbo else 0
        b[9] = 0x10 if self.eco else 0
        b[10] = (1 if self.sleep else 0) | (2 if self.turbo else 0)
        b[11] = 50 + 2 * 24
        b[12] = 0xFF
        b[14] = 0x00 if self.display else 0x70
        b[19] = self.humidity_target
        return build(FrameType.QUERY, b)

    def humidity_frame(self) -> bytes:
        b = bytearray(21)
        b[0], b[1], b[2], b[3] = 0xC1, 0x21, 0x01, 0x45
        b[4] = self.indoor_humidity
        return build(FrameType.QUERY, b)

    def energy_frame(self) -> bytes:
        b = bytearray(21)
        b[0], b[1], b[2], b[3] = 0xC1, 0x21, 0x01, 0x44
        b[4:8] = bytes([0x00, 0x12, 0x34, 0x56])
        b[12:16] = bytes([0x00, 0x00, 0x01, 0x50])
        b[16:19] = bytes([0x00, 0x07, 0x50])
        return build(FrameType.QUERY, b)

    def caps_frame(self) -> bytes:
        recs = [
            (0x0009, [1]), (0x000A, [1]), (0x0048, [1]),      # swing angles, 2 level rate select
            (0x021F, [2]),                                     # humidity
            (0x0216, [2]),                                     # energy
            (0x0214, [1]), (0x0215, [1]), (0x0210, [1]), (0x0224, [1]),
        ]
        b = bytearray([0xB5, len(recs)])
        for cid, data in recs:
            b += struct.pack("<H", cid) + bytes([len(data)]) + bytes(data)
        b += bytes([0, 0])  # no further page, message id
        return build(FrameType.QUERY, b)

    def props_frame(self, rid, ids) -> bytes:
        b = bytearray([rid, len(ids)])
        for i in ids:
            v = self.props.get(i, bytes([0]))
            b += struct.pack("<H", i) + bytes([0, len(v)]) + v
        b += bytes([0])
        return build(FrameType.QUERY, b)

    # -- request handling -----------------------------------------------------------------
    def handle(self, frame: bytes):
        body = frame[10:-1]
        kind = "other"
        replies = []
        if body[0] == 0x41 and body[1] == 0x81:
            kind, replies = "state", [self.state_frame()]
        elif body[0] == 0x41 and body[1] == 0x21 and body[3] == 0x44:
            kind, replies = "energy", [self.energy_frame()]
        elif body[0] == 0x41 and body[1] == 0x21 and body[3] == 0x45:
            kind, replies = "humidity", [self.humidity_frame()]
        elif body[0] == 0x41 and body[4] == 0x02:
            kind = "toggle"
            if not self.silent and kind not in self.mute_kinds:
                self.display = not self.display
            replies = [self.state_frame()]
        elif body[0] == 0xB5:
            kind, replies = "caps", [self.caps_frame()]
        elif body[0] == 0xB1:
            ids = [struct.unpack("<H", body[2 + 2 * n:4 + 2 * n])[0] for n in range(body[1])]
            kind, replies = "getprops", [self.props_frame(0xB1, ids)]
        self.log.append((kind, frame))
        if self.silent or kind in self.mute_kinds:
            return []
        return replies

    async def _client(self, reader, writer):
        self.writers.append(writer)
        try:
            while True:
                head = await reader.readexactly(6)
                size = int.from_bytes(head[4:6], "little")
                packet = head + await reader.readexactly(size - 6)
                frame = lan._Packet.decode(packet)
                for reply in self.handle(frame):
                    writer.write(lan._Packet.encode(1234, reply))
                await writer.drain()
        except (asyncio.IncompleteReadError, ConnectionError, asyncio.CancelledError):
            pass
        finally:
            writer.close()


def kinds(unit, since=0):
    return [k for k, _ in unit.log[since:]]


def check(cond, what):
    if not cond:
        print("FAIL:", what)
        sys.exit(1)
    print("ok:", what)


async def main():
    unit = FakeUnit()
    await unit.start()
    dev = AC(ip="127.0.0.1", port=unit.port, device_id=1234)

    # 1. responsive unit
    await dev.get_capabilities()
    check(dev.supports_humidity and dev.supports_vertical_swing_angle, "capabilities read")
    await dev.refresh()
    check(dev.online and dev.supported, "responsive unit is online and supported")
    check(dev.target_temperature == 22.5 and dev.fan_speed == 60 and dev.operational_mode == AC.OperationalMode.COOL,
          "state read back")
    check(dev.indoor_humidity == 51 and dev.vertical_swing_angle == AC.SwingAngle.POS_2
          and dev.rate_select == AC.RateSelect.GEAR_75, "humidity and properties read back")
    check(dev.total_energy_usage is not None, "energy read back")
    seen = kinds(unit)
    check(seen[0] == "caps" and seen[1] == "state" and set(seen[1:]) == {"state", "energy", "humidity", "getprops"},
          "refresh queried state first, then energy, humidity and properties")

    # 2. unit answers the state query only: still online, other queries were attempted
    unit.mute_kinds = {"energy", "humidity", "getprops"}
    unit.temp = 24.0
    mark = len(unit.log)
    await dev.refresh()
    check(dev.online and dev.target_temperature == 24.0, "half-silent unit stays online with fresh state")
    check({"energy", "humidity", "getprops"} <= set(kinds(unit, mark)), "the unanswered queries were still sent")
    unit.mute_kinds = set()

    # 3. unit goes completely silent
    before = dev.to_dict()
    unit.silent = True
    mark = len(unit.log)
    await dev.refresh()
    check(not dev.online and not dev.supported, "silent unit is reported offline and unsupported")
    after = dev.to_dict()
    check({k: v for k, v in after.items() if k not in ("online", "supported")}
          == {k: v for k, v in before.items() if k not in ("online", "supported")}, "exposed state unchanged")
    seen = kinds(unit, mark)
    check(seen[0] == "state", "state query was the first transmission")
    check(all(seen.count(k) <= 3 for k in set(seen)) and 1 <= seen.count("state") <= 3,
          "every query transmitted at least once and at most 3 times")

    # 4. toggling the display of a silent unit neither raises nor flips anything
    mark = len(unit.log)
    await dev.toggle_display()
    check(not dev.online, "toggle on a silent unit leaves it offline")
    check(1 <= kinds(unit, mark).count("toggle") <= 3, "toggle transmitted 1..3 times")

    # 5. the unit answers again: next refresh succeeds without intervention
    unit.silent = False
    unit.temp = 19.0
    unit.fan = 40
    await dev.refresh()
    check(dev.online and dev.supported and dev.target_temperature == 19.0 and dev.fan_speed == 40
          and dev.indoor_humidity == 51, "recovered after the unit answers again")

    # 6. display toggle on a responsive unit
    was = dev.display_on
    await dev.toggle_display()
    check(dev.display_on == (not was) and dev.online, "display toggled and read back")

    # 7. unreachable unit (connection refused)
    await unit.stop()
    await asyncio.sleep(0.05)
    gone = AC(ip="127.0.0.1", port=unit.port, device_id=1234)
    gone._supports_humidity = True
    gone._online = True
    await gone.refresh()
    check(not gone.online and not gone.supported, "unreachable unit is offline")
    await gone.toggle_display()
    check(not gone.online, "toggle on unreachable unit does not raise")

    for d in (dev, gone):
        d._lan._disconnect()
    await asyncio.sleep(0.05)
    print("demo 1 passed")

if __name__ == "__main__":
    asyncio.run(main())
