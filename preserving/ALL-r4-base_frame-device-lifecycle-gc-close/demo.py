"""Demo 3: device objects over their life: used, closed, dropped, replaced, compared."""
import asyncio
import gc
import logging
import sys

from msmart.base_device import Device
from msmart.const import DeviceType
from msmart.device import AirConditioner as AC
from msmart.lan import _Packet

STATE = bytes.fromhex(
    "aa23ac00000000000303c00145660000003c0010045c6b20000000000000000000020d79")


class FakeV2Device:
    """A V2 unit on loopback that answers every request with a state response."""

    def __init__(self) -> None:
        self.connections = 0
        self.closed = 0
        self.requests = []  # (connection number, frame)
        self._server = None

    async def start(self) -> int:
        self._server = await asyncio.start_server(self._serve, "127.0.0.1", 0)
        return self._server.sockets[0].getsockname()[1]

    def stop(self) -> None:
        self._server.close()

    async def _serve(self, reader, writer) -> None:
        self.connections += 1
        conn = self.connections
        try:
            while True:
                head = await reader.readexactly(6)
                length = int.from_bytes(head[4:6], "little")
                rest = await reader.readexactly(length - 6)
                self.requests.append((conn, _Packet.decode(head + rest)))
                writer.write(_Packet.encode(1234, STATE))
                await writer.drain()
        except (asyncio.IncompleteReadError, ConnectionError):
            pass
        finally:
            self.closed += 1
            writer.close()


async def settle(pred, timeout=1.0) -> bool:
    """Wait until pred() holds or the timeout elapses."""
    end = asyncio.get_running_loop().time() + timeout
    while not pred():
        if asyncio.get_running_loop().time() > end:
            return False
        await asyncio.sleep(0.02)
    return True


async def main() -> int:
    fake = FakeV2Device()
    port = await fake.start()

    # 1. A device keeps one connection across operations
    dev = AC(ip="127.0.0.1", port=port, device_id=1234)
    await dev.refresh()
    await dev.refresh()
    dev.target_temperature = 23.5
    await dev.apply()
    assert dev.online and dev.supported
    assert fake.connections == 1 and len(fake.requests) == 3
    assert fake.closed == 0

    # 2. Closing the link by hand: the object stays usable and reconnects
    if hasattr(dev, "close"):
        dev.close()
        dev.close()  # idempotent
    else:
        dev._lan._disconnect()
    assert await settle(lambda: fake.closed == 1)
    await dev.refresh()
    assert dev.online and fake.connections == 2

    # 3. As a context manager where available
    if hasattr(Device, "__aenter__"):
        async with AC(ip="127.0.0.1", port=port, device_id=1234) as scoped:
            await scoped.refresh()
            assert scoped.online
        assert await settle(lambda: fake.closed == 2)
        mine = 3
    else:
        scoped = AC(ip="127.0.0.1", port=port, device_id=1234)
        await scoped.refresh()
        scoped._lan._disconnect()
        assert await settle(lambda: fake.closed == 2)
        mine = 3
    assert fake.connections == mine
    del scoped

    # 4. Dropping the last reference to a connected device. When (or whether) the
    #    peer sees the connection go away is not promised; a replacement works at once.
    n_closed = fake.closed
    del dev
    gc.collect()
    dropped_closed = await settle(lambda: fake.closed == n_closed + 1, 0.5)
    dev = AC(ip="127.0.0.1", port=port, device_id=1234)
    await dev.refresh()
    assert dev.online and dev.target_temperature == 21.0
    assert fake.connections == mine + 1

    # 5. Comparing and collecting devices
    other = AC(ip="127.0.0.2", port=port, device_id=99)
    generic = Device(ip="127.0.0.3", port=6444, device_id=7,
                     device_type=DeviceType.AIR_CONDITIONER)
    assert dev == dev and dev != other and other != generic
    assert dev in [other, dev] and generic not in [other, dev]
    assert len({dev, other, generic}) == 3
    assert {dev: 1}[dev] == 1
    assert dev != 1234 and dev is not None

    # 6. Every request seen was a valid frame; ids advance by one
    ids = [f[-3] for _c, f in fake.requests]
    for a, b in zip(ids, ids[1:]):
        assert b == (a + 1) & 0xFF, (a, b)

    dev._lan._disconnect()
    fake.stop()
    print("demo3 ok: connection of a dropped device closed promptly: %s" %
          dropped_closed)
    return 0


if __name__ == "__main__":
    logging.basicConfig(level=logging.CRITICAL)
    sys.exit(asyncio.run(main()))
