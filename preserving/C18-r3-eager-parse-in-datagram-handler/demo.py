"""Demonstration for C18: one device per responding host; bad responders are omitted without
spoiling the rest.  Runs Discover.discover() against a scripted in-process "network"
(loop.create_datagram_endpoint is replaced by a fake that feeds datagrams to the protocol).

Exit status 0 = every scenario behaved as the property demands.
"""
import asyncio
import itertools
import logging
import random
import sys

from msmart.discover import Discover
from msmart.lan import Security

logging.disable(logging.CRITICAL)


# ---------------------------------------------------------------- reply builders
def good_payload(ip, port=6444, sn=None, name="net_ac_F7B4"):
    sn = (sn or "000000P0000000Q1F0C9D153F7B40000").encode()
    assert len(sn) == 32
    body = bytes(reversed([int(x) for x in ip.split(".")]))
    body += port.to_bytes(2, "little") + bytes(2)
    body += sn
    n = name.encode()
    body += bytes([len(n)]) + n
    body += bytes(20)
    return body


def v2(ip, device_id, payload=None, encrypted=None):
    header = bytearray(40)
    header[0:4] = b"\x5a\x5a\x01\x11"
    header[20:26] = device_id.to_bytes(6, "little")
    if encrypted is None:
        encrypted = Security.encrypt_aes(payload if payload is not None else good_payload(ip))
    return bytes(header) + encrypted + bytes(16)


def v3(ip, device_id, **kw):
    return b"\x83\x70\x00\xc8\x20\x0f\x00\x00" + v2(ip, device_id, **kw) + bytes(16)


def bad_reply(kind, ip, rng):
    if kind == "random":
        return bytes(rng.getrandbits(8) | 1 for _ in range(rng.randrange(1, 90)))
    if kind == "short_body":        # valid envelope, body far too short to hold the fields
        return v2(ip, 77, payload=b"\x01\x02\x03")
    if kind == "undecryptable":     # valid envelope, body not a whole number of AES blocks
        return v2(ip, 77, encrypted=b"\x99" * 23)
    if kind == "bad_padding":
        return v3(ip, 77, encrypted=bytes(rng.getrandbits(8) for _ in range(64)))
    if kind == "non_text":          # serial number is not text
        p = bytearray(good_payload(ip))
        p[8:40] = b"\xff" * 32
        return v3(ip, 77, payload=bytes(p))
    if kind == "no_separator":      # name without '_' separators
        return v2(ip, 77, payload=good_payload(ip, name="nounderscores"))
    if kind == "non_hex_type":
        return v2(ip, 77, payload=good_payload(ip, name="net_zz_F7B4"))
    if kind == "xml_no_attrs":
        return b"<root><body><device/></body></root>"
    if kind == "xml_no_device":
        return b"<root><body/></root>"
    if kind == "truncated":
        return v3(ip, 77)[:30]
    raise AssertionError(kind)


BAD_KINDS = ["random", "short_body", "undecryptable", "bad_padding", "non_text", "no_separator",
             "non_hex_type", "xml_no_attrs", "xml_no_device", "truncated"]


# ---------------------------------------------------------------- fake network
class FakeSocket:
    def setsockopt(self, *a):
        pass


class FakeTransport:
    def __init__(self):
        self.sent = []
        self.closed = False

    def get_extra_info(self, name, default=None):
        return FakeSocket() if name == "socket" else default

    def sendto(self, data, addr=None):
        self.sent.append((data, addr))

    def close(self):
        self.closed = True

    def is_closing(self):
        return self.closed

    def abort(self):
        self.closed = True


async def run_discovery(script, timeout=0.25, **kwargs):
    """script: list of (delay, data, (ip, port)).  Returns the list discover() returns."""
    loop = asyncio.get_running_loop()
    real = loop.create_datagram_endpoint
    made = {}

    async def fake_endpoint(factory, **kw):
        proto = factory()
        transport = FakeTransport()
        made["t"] = transport
        proto.connection_made(transport)

        def deliver(data, addr):
            if not transport.closed:
                proto.datagram_received(data, addr)

        for delay, data, addr in script:
            loop.call_later(delay, deliver, data, addr)
        return transport, proto

    loop.create_datagram_endpoint = fake_endpoint
    try:
        kwargs.setdefault("auto_connect", False)
        result = await Discover.discover(timeout=timeout, **kwargs)
    finally:
        loop.create_datagram_endpoint = real
    assert made["t"].closed, "transport must be closed when discover() returns"
    assert len(made["t"].sent) == 6, "3 probes to each of the two ports by default"
    return result


def check(result, expected):
    """expected: dict ip -> device id."""
    got = sorted((d.ip, d.id) for d in result)
    want = sorted(expected.items())
    assert got == want, f"reported {got}, expected {want}"
    assert all(d is not None for d in result)


# ---------------------------------------------------------------- scenarios
async def scenario_duplicates_exhaustive():
    """2 hosts x 2 replies each (different source ports), every arrival order."""
    hosts = {"10.0.0.1": 1001, "10.0.0.2": 1002}
    replies = []
    for ip, did in hosts.items():
        replies.append((v2(ip, did), (ip, 6445)))
        replies.append((v3(ip, did), (ip, 20086)))
    n = 0
    for order in itertools.permutations(replies):
        script = [(0.001 * (i + 1), data, addr) for i, (data, addr) in enumerate(order)]
        check(await run_discovery(script, timeout=0.02), hosts)
        n += 1
    return n


async def scenario_bad_classes():
    """Each bad class from one host, interleaved with duplicates from 3 good hosts."""
    rng = random.Random(18)
    good = {"192.168.1.10": 11, "192.168.1.11": 12, "192.168.1.12": 13}
    for kind in BAD_KINDS:
        bad_ip = "192.168.1.66"
        replies = []
        for ip, did in good.items():
            for port in (6445, 20086, 6445):
                replies.append(((v3 if did % 2 else v2)(ip, did), (ip, port)))
        for port in (6445, 20086):
            replies.append((bad_reply(kind, bad_ip, rng), (bad_ip, port)))
        rng.shuffle(replies)
        script = [(0.001 * (i + 1), data, addr) for i, (data, addr) in enumerate(replies)]
        try:
            check(await run_discovery(script, timeout=0.05), good)
        except Exception as e:
            raise AssertionError(f"bad class {kind!r}: {e!r}") from e
    return len(BAD_KINDS)


async def scenario_random_subsets(rounds=60):
    """Up to 4 hosts, any subset bad (any class), random multiset/arrival order/timing."""
    rng = random.Random(1818)
    for r in range(rounds):
        ips = [f"172.16.{rng.randrange(256)}.{i + 1}" for i in range(rng.randrange(1, 5))]
        expected = {}
        replies = []
        for i, ip in enumerate(ips):
            bad = rng.random() < 0.4
            did = 5000 + 10 * r + i
            if not bad:
                expected[ip] = did
            for _ in range(rng.randrange(1, 5)):
                data = (bad_reply(rng.choice(BAD_KINDS), ip, rng) if bad
                        else rng.choice([v2, v3])(ip, did))
                replies.append((data, (ip, rng.choice([6445, 20086, 40000 + rng.randrange(1000)]))))
        rng.shuffle(replies)
        script = [(rng.choice([0.0, 0.001, 0.004, 0.01]), data, addr) for data, addr in replies]
        check(await run_discovery(script, timeout=0.04), expected)
    return rounds


async def scenario_burst_same_tick():
    """All replies delivered in the same loop iteration, right after the probes went out."""
    hosts = {f"10.1.1.{i}": 900 + i for i in range(1, 5)}
    rng = random.Random(3)
    script = []
    for ip, did in hosts.items():
        for _ in range(6):
            script.append((0.0, v3(ip, did), (ip, 6445)))
    script.append((0.0, bad_reply("random", "10.1.1.9", rng), ("10.1.1.9", 6445)))
    script.append((0.0, bad_reply("short_body", "10.1.1.8", rng), ("10.1.1.8", 6445)))
    rng.shuffle(script)
    check(await run_discovery(script, timeout=0.03), hosts)
    return 1


async def scenario_nobody():
    check(await run_discovery([], timeout=0.01), {})
    only_bad = [(0.001, b"hello", ("10.9.9.9", 6445)), (0.002, b"<a/>", ("10.9.9.8", 6445))]
    check(await run_discovery(only_bad, timeout=0.02), {})
    return 2


async def scenario_cancelled_run_then_fresh_run():
    """A run abandoned half-way does not influence the next run (fresh de-duplication state)."""
    hosts = {"10.2.0.1": 71, "10.2.0.2": 72, "10.2.0.3": 73}
    script = [(0.001 * (i + 1), v3(ip, did), (ip, 6445)) for i, (ip, did) in enumerate(hosts.items())]
    script.append((0.002, b"\x00garbage", ("10.2.0.9", 6445)))
    task = asyncio.ensure_future(run_discovery(script, timeout=5))
    await asyncio.sleep(0.01)
    task.cancel()
    try:
        await task
        raise AssertionError("cancelled discovery returned normally")
    except asyncio.CancelledError:
        pass
    check(await run_discovery(script + script, timeout=0.03), hosts)
    return 2


async def scenario_auto_connect_stubbed():
    """Same property with auto_connect=True; the connect step is stubbed (no network here)."""
    rng = random.Random(5)
    connected = []

    async def fake_connect(dev):
        await asyncio.sleep(rng.choice([0, 0.001, 0.03]))   # some finish after the listening window
        connected.append(dev.ip)
        return True

    real_connect = Discover.connect
    Discover.connect = fake_connect
    try:
        hosts = {"10.3.0.1": 31, "10.3.0.2": 32, "10.3.0.3": 33, "10.3.0.4": 34}
        script = []
        for ip, did in hosts.items():
            for port in (6445, 20086):
                script.append((rng.choice([0.001, 0.002, 0.005]), rng.choice([v2, v3])(ip, did), (ip, port)))
        for kind in ("short_body", "no_separator", "xml_no_attrs", "random"):
            ip = f"10.3.9.{len(script)}"
            script.append((0.002, bad_reply(kind, ip, rng), (ip, 6445)))
        rng.shuffle(script)
        check(await run_discovery(script, timeout=0.02, auto_connect=True), hosts)
        assert sorted(connected) == sorted(hosts), f"each good host connected exactly once: {connected}"
    finally:
        Discover.connect = real_connect
    return 1


async def main():
    total = 0
    for sc in (scenario_duplicates_exhaustive, scenario_bad_classes, scenario_random_subsets,
               scenario_burst_same_tick, scenario_nobody, scenario_cancelled_run_then_fresh_run,
               scenario_auto_connect_stubbed):
        n = await sc()
        total += n
        print(f"ok  {sc.__name__}: {n} run(s)")
    print(f"all {total} discovery runs satisfied the property")


if __name__ == "__main__":
    try:
        asyncio.run(asyncio.wait_for(main(), 25))
    except AssertionError as e:
        print("PROPERTY VIOLATED:", e)
        sys.exit(1)
    sys.exit(0)
