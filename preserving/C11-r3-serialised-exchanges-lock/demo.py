"""Demonstration for C11 (state responses decode to exactly the reported state).

Change under test: the base Device serialises the exchanges of one object with a lock
that is created lazily for the running event loop and is never carried into copies.
This demo therefore also decodes reported states through two tasks sharing one object,
through one object used in two event loops, and through copies of an object.

A small simulated unit (local TCP, V2 packets) reports chosen raw states; a fresh
AirConditioner refreshes against it and the public attributes are compared with an
independent reading of the raw bytes.  Exits 0 on the original and on the changed code.
"""
import asyncio
import copy
import logging
import pickle
import random
import sys

from msmart import crc8
from msmart.device import AirConditioner as AC
from msmart.device.AC.command import Response, StateResponse
from msmart.lan import _Packet

logging.disable(logging.CRITICAL)

FAILURES = []


def check(cond, msg):
    if not cond:
        FAILURES.append(msg)
        if len(FAILURES) < 20:
            print("FAIL:", msg)


# ---------------------------------------------------------------- raw state helpers
def additive(data):
    return (~sum(data) + 1) & 0xFF


def frame(body, style="crc", frame_type=0x03):
    body = bytes(body)
    tail = crc8.calculate(body) if style == "crc" else additive(body)
    hdr = bytearray(10)
    hdr[0] = 0xAA
    hdr[1] = 10 + len(body) + 1
    hdr[2] = 0xAC
    hdr[9] = frame_type
    f = bytes(hdr) + body + bytes([tail])
    return f + bytes([additive(f[1:])])


def state_body(length=24, **f):
    b = bytearray(length)
    b[0] = 0xC0
    b[1] = f.get("b1", 0x01)
    b[2] = f.get("b2", 0x45)
    b[3] = f.get("fan", 102)
    b[7] = f.get("b7", 0x3C)
    b[8] = f.get("b8", 0)
    b[9] = f.get("b9", 0)
    b[10] = f.get("b10", 0)
    b[11] = f.get("indoor", 0x5C)
    b[12] = f.get("outdoor", 0x6B)
    b[13] = f.get("b13", 0)
    b[14] = f.get("b14", 0)
    b[15] = f.get("b15", 0)
    if length > 19:
        b[19] = f.get("b19", 0)
    if length > 21:
        b[21] = f.get("b21", 0)
    return bytes(b)


def expected_temperature(raw, digit, fahrenheit):
    """Return (kind, value) - an independent reading of the statement."""
    if raw == 0xFF:
        return ("unknown", None)
    coarse = (raw - 50) / 2
    if not fahrenheit and 1 <= digit <= 9:
        whole = int(coarse)
        return ("exact", whole + (digit if coarse >= 0 else -digit) / 10)
    return ("near", coarse)


def check_temperature(name, got, raw, digit, fahrenheit):
    kind, value = expected_temperature(raw, digit, fahrenheit)
    if kind == "unknown":
        check(got is None, f"{name}: raw 0xFF must be unknown, got {got!r}")
        return
    check(got is not None, f"{name}: raw {raw} must be known")
    if got is None:
        return
    coarse = (raw - 50) / 2
    check(abs(got - coarse) < 1.0 + 1e-9,
          f"{name}: raw {raw} digit {digit} F={fahrenheit}: {got} not within 1 of {coarse}")
    if kind == "exact":
        check(abs(got - value) < 1e-9,
              f"{name}: raw {raw} digit {digit}: {got} != {value}")
        check(round(abs(got) * 10) % 10 == digit,
              f"{name}: raw {raw} tenths digit {digit} not reflected in {got}")


def check_device(dev, body, ctx=""):
    n = len(body)
    fahrenheit = bool(body[10] & 0x04)
    check(dev.power_state is bool(body[1] & 1), ctx + "power")
    alt = body[13] & 0x1F
    target = (alt + 12 if alt else (body[2] & 0xF) + 16) + (0.5 if body[2] & 0x10 else 0)
    check(dev.target_temperature == target, ctx + f"target {dev.target_temperature} != {target}")
    mode = (body[2] >> 5) & 7
    exp_mode = AC.OperationalMode(mode) if mode in (1, 2, 3, 4, 5, 6) else AC.OperationalMode.DEFAULT
    check(dev.operational_mode == exp_mode, ctx + "mode")
    check(int(dev.fan_speed) == body[3], ctx + f"fan {dev.fan_speed!r} != {body[3]}")
    if body[3] in (102, 100, 80, 60, 40, 20):
        check(isinstance(dev.fan_speed, AC.FanSpeed), ctx + "fan enum")
    swing = body[7] & 0xF
    exp_swing = AC.SwingMode(swing) if swing in (0, 3, 0xC, 0xF) else AC.SwingMode.DEFAULT
    check(dev.swing_mode == exp_swing, ctx + "swing")
    check(dev.turbo is bool(body[8] & 0x20 or body[10] & 0x02), ctx + "turbo")
    check(dev.follow_me is bool(body[8] & 0x80), ctx + "follow_me")
    check(dev.eco is bool(body[9] & 0x10), ctx + "eco")
    check(dev.purifier is bool(body[9] & 0x20), ctx + "purifier")
    check(dev.sleep is bool(body[10] & 0x01), ctx + "sleep")
    check(dev.fahrenheit is fahrenheit, ctx + "fahrenheit")
    if body[8] & 0x40:
        aux = AC.AuxHeatMode.AUX_ONLY
    elif body[9] & 0x08:
        aux = AC.AuxHeatMode.AUX_HEAT
    else:
        aux = AC.AuxHeatMode.OFF
    check(dev.aux_mode == aux, ctx + "aux")
    check(dev.filter_alert is bool(body[13] & 0x20), ctx + "filter")
    check(dev.display_on is ((body[14] & 0x70) != 0x70), ctx + "display")
    check_temperature(ctx + "indoor", dev.indoor_temperature, body[11], body[15] & 0xF, fahrenheit)
    check_temperature(ctx + "outdoor", dev.outdoor_temperature, body[12], body[15] >> 4, fahrenheit)
    if n >= 20:
        check(dev.target_humidity == body[19] & 0x7F, ctx + "humidity")
    else:
        check(dev.target_humidity is None, ctx + f"humidity invented: {dev.target_humidity!r}")
    if n >= 22:
        check(dev.freeze_protection is bool(body[21] & 0x80), ctx + "freeze")
    else:
        check(dev.freeze_protection is None, ctx + f"freeze invented: {dev.freeze_protection!r}")


# ---------------------------------------------------------------- simulated unit
class Unit:
    """Answers every request with the answers queued for it (V2 packets)."""

    def __init__(self):
        self.body = state_body()
        self.style = "crc"
        self.requests = []
        self.server = None
        self.port = None
        self.writers = []

    async def start(self):
        self.server = await asyncio.start_server(self._client, "127.0.0.1", 0)
        self.port = self.server.sockets[0].getsockname()[1]

    async def stop(self):
        # close client connections ourselves: with two tasks connecting at once the original
        # library may leave an extra connection open, which wait_closed() would wait for
        self.server.close()
        for writer in self.writers:
            writer.close()
        await asyncio.sleep(0.05)

    def answers(self, request):
        kind = request[10]
        if kind == 0x41 and request[11] == 0x81:
            return [frame(self.body, self.style)]
        if kind == 0x41 and request[13] == 0x44:  # energy
            body = bytearray(20)
            body[0], body[3] = 0xC1, 0x44
            body[4:8] = bytes([0x00, 0x01, 0x23, 0x45])
            body[16:19] = bytes([0x00, 0x12, 0x30])
            return [frame(body)]
        if kind == 0x41 and request[13] == 0x45:  # humidity
            body = bytearray(20)
            body[0], body[3], body[4] = 0xC1, 0x45, 55
            return [frame(body)]
        if kind == 0xB1:  # properties: vertical angle 50
            return [frame(bytes([0xB1, 1, 0x09, 0x00, 0x00, 0x01, 50]))]
        return []

    async def _client(self, reader, writer):
        self.writers.append(writer)
        try:
            while True:
                head = await reader.readexactly(6)
                length = int.from_bytes(head[4:6], "little")
                rest = await reader.readexactly(length - 6)
                request = _Packet.decode(head + rest)
                self.requests.append(request)
                for answer in self.answers(request):
                    writer.write(_Packet.encode(1, answer))
                await writer.drain()
        except (asyncio.IncompleteReadError, ConnectionError):
            pass
        finally:
            writer.close()


async def refreshed(unit, body, style="crc", dev=None):
    unit.body, unit.style = body, style
    if dev is None:
        dev = AC("127.0.0.1", 1, unit.port)
    await dev.refresh()
    dev._lan._disconnect()
    return dev


def random_body(rng):
    return state_body(length=rng.choice((16, 17, 19, 20, 21, 22, 24, 31)),
                      b1=rng.randrange(256), b2=rng.randrange(256), fan=rng.randrange(256),
                      b7=rng.randrange(256), b8=rng.randrange(256), b9=rng.randrange(256),
                      b10=rng.randrange(256), indoor=rng.randrange(256), outdoor=rng.randrange(256),
                      b13=rng.randrange(256), b14=rng.randrange(256),
                      b15=rng.randrange(10) | (rng.randrange(10) << 4),
                      b19=rng.randrange(256), b21=rng.randrange(256))


async def first_loop(rng, shared):
    """Sequential grid, two tasks on one object, copies.  Returns the number of states checked."""
    unit = Unit()
    await unit.start()
    n = 0

    # 1. sequential refreshes of fresh objects: sensors in both units, both check styles, all lengths
    for raw in (0, 1, 49, 50, 51, 0x5C, 149, 254, 255):
        for digit in (0, 1, 5, 9):
            for b10 in (0x00, 0x04):
                body = state_body(length=rng.choice((16, 17, 19, 20, 21, 22, 24, 31)),
                                  indoor=raw, outdoor=rng.randrange(256),
                                  b15=digit | (rng.randrange(10) << 4), b10=b10,
                                  b19=rng.randrange(256), b21=rng.randrange(256))
                dev = await refreshed(unit, body, style=rng.choice(("crc", "sum")))
                check(dev.online and dev.supported, "online/supported after answered refresh")
                check_device(dev, body, f"[tcp {body.hex()}] ")
                n += 1

    # 2. two tasks refresh ONE fresh object at the same time; the unit reports one state, so whatever
    #    the interleaving the attributes afterwards must equal that state
    for _ in range(3):
        body = random_body(rng)
        unit.body, unit.style = body, "crc"
        dev = AC("127.0.0.1", 1, unit.port)
        await asyncio.gather(dev.refresh(), dev.refresh())
        dev._lan._disconnect()
        check_device(dev, body, f"[2 tasks {body.hex()}] ")
        n += 1

    # 3. a short legacy answer refreshed into an object, then copies of it: the copies expose the same
    #    values (including the unknown optional fields), can be refreshed on their own, and refreshing
    #    a copy does not disturb the original
    body = state_body(length=16, indoor=0xFF, outdoor=49, b15=0x70, b8=0xE0, b9=0x38, b10=0x03)
    dev = await refreshed(unit, body)
    check_device(dev, body, "[orig] ")
    for name, clone in (("copy", copy.copy), ("deepcopy", copy.deepcopy),
                        ("pickle", lambda d: pickle.loads(pickle.dumps(d)))):
        twin = clone(dev)
        check(type(twin) is AC, name + " type")
        check_device(twin, body, f"[{name}] ")
        if name == "copy":
            continue  # a shallow copy shares the connection object with the original by definition
        other = random_body(rng)
        await refreshed(unit, other, dev=twin)
        check_device(twin, other, f"[{name} refreshed] ")
        check_device(dev, body, f"[orig after {name} refreshed] ")
        n += 2

    # the object that is going to be used again in a second event loop
    body = random_body(rng)
    shared._port = shared._lan._port = unit.port
    await refreshed(unit, body, dev=shared)
    check_device(shared, body, "[loop 1] ")
    n += 1

    await unit.stop()
    return n


async def second_loop(rng, shared):
    """The same object in a new event loop: the newest report wins, also with two tasks."""
    unit = Unit()
    await unit.start()
    shared._port = shared._lan._port = unit.port
    n = 0
    for _ in range(5):
        body = random_body(rng)
        await refreshed(unit, body, dev=shared)
        check_device(shared, body, f"[loop 2 {body.hex()}] ")
        n += 1
    body = random_body(rng)
    unit.body = body
    await asyncio.gather(shared.refresh(), shared.refresh(), shared.refresh())
    shared._lan._disconnect()
    check_device(shared, body, "[loop 2, 3 tasks] ")
    await unit.stop()
    return n + 1


def main():
    rng = random.Random(112)
    shared = AC("127.0.0.1", 1, 1)  # constructed without a running loop
    n = asyncio.run(first_loop(rng, shared))
    n += asyncio.run(second_loop(rng, shared))

    # decode-only sweep (no socket): every flag byte value
    for index in (1, 2, 3, 7, 8, 9, 10, 13, 14):
        for value in range(256):
            raw = bytearray(state_body(length=22, b19=0x55, b21=0x80))
            raw[index] = value
            body = bytes(raw)
            resp = Response.construct(frame(body, "sum" if value & 1 else "crc"))
            check(type(resp) is StateResponse, "class")
            dev = AC("0.0.0.0", 1, 6444)
            dev._update_state(resp)
            check_device(dev, body, f"[mem {body.hex()}] ")
            n += 1

    print(f"{n} reported states checked, {len(FAILURES)} failures")
    return 1 if FAILURES else 0


if __name__ == "__main__":
    sys.exit(main())
