"""Demo for C19: NetHome Plus login / token flow against a model cloud server.

Run: cd <worktree> && PYTHONPATH=<worktree> /venv/bin/python demo.py
Exits 0 if the property holds in the representative cases exercised.
"""
import asyncio
import hashlib
import logging
import sys
from urllib.parse import parse_qsl, urlparse

import httpx

from msmart.cloud import ApiError, CloudError, NetHomePlusCloud

logging.disable(logging.CRITICAL)

APP_KEY = "3742e9e5842d4ad59c2db887e12449f9"


class ModelCloud:
    """A conforming model of the NetHome Plus server (order independent)."""

    def __init__(self, account, password, tokens):
        self.account = account
        self.password = password
        self.tokens = tokens  # list of dict entries returned as tokenlist
        self.login_id = "lid-" + hashlib.md5(account.encode()).hexdigest()[:12]
        self.session_id = "sess-" + hashlib.md5(password.encode()).hexdigest()[:12]
        self.faults = []  # consumed one per request
        self.requests = []  # (path, fields)
        self.violations = []

    def client(self, *args, **kwargs):
        return httpx.AsyncClient(transport=httpx.MockTransport(self.handle))

    def _ok(self, result):
        return httpx.Response(200, json={"errorCode": "0", "msg": "ok", "result": result})

    def handle(self, request: httpx.Request) -> httpx.Response:
        path = urlparse(str(request.url)).path
        ctype = request.headers.get("content-type", "")
        if request.method != "POST" or not ctype.startswith("application/x-www-form-urlencoded"):
            self.violations.append(f"bad method/content-type {request.method} {ctype}")
        pairs = parse_qsl(request.content.decode("utf-8"), keep_blank_values=True)
        fields = dict(pairs)
        if len(fields) != len(pairs):
            self.violations.append("duplicate form field")
        self.requests.append((path, fields))

        # Signature as verified by the server: over the sorted received fields
        sign = fields.pop("sign", None)
        query = "&".join(f"{k}={v}" for k, v in sorted(fields.items()))
        expect = hashlib.sha256((path + query + APP_KEY).encode()).hexdigest()
        if sign != expect:
            self.violations.append(f"bad sign on {path}")
        for k in ("appId", "src", "format", "clientType", "language", "deviceId", "stamp", "sessionId"):
            if k not in fields:
                self.violations.append(f"missing {k} on {path}")
        if fields.get("appId") != "1017" or fields.get("src") != "1017":
            self.violations.append("bad appId/src")
        stamp = fields.get("stamp", "")
        if len(stamp) != 14 or not stamp.isdigit():
            self.violations.append("bad stamp")

        # Inject faults
        if self.faults:
            fault = self.faults.pop(0)
            if fault == "timeout":
                raise httpx.ReadTimeout("model timeout", request=request)
            if fault == "connect":
                raise httpx.ConnectError("model connect error", request=request)
            if isinstance(fault, int) and fault >= 400:
                return httpx.Response(fault, text="model http failure")
            if isinstance(fault, tuple):
                return httpx.Response(200, json={"errorCode": str(fault[1]), "msg": "model api error"})

        if path == "/v1/user/login/id/get":
            if fields.get("loginAccount") != self.account:
                return httpx.Response(200, json={"errorCode": "3101", "msg": "no account"})
            return self._ok({"loginId": self.login_id})

        if path == "/v1/user/login":
            m1 = hashlib.sha256(self.password.encode()).hexdigest()
            pw = hashlib.sha256((self.login_id + m1 + APP_KEY).encode()).hexdigest()
            if fields.get("loginAccount") != self.account or fields.get("password") != pw:
                return httpx.Response(200, json={"errorCode": "3102", "msg": "bad password"})
            return self._ok({"sessionId": self.session_id, "userId": "1"})

        if path == "/v1/iot/secure/getToken":
            if fields.get("sessionId") != self.session_id:
                return httpx.Response(200, json={"errorCode": "3106", "msg": "bad session"})
            if "udpid" not in fields:
                self.violations.append("missing udpid")
            return self._ok({"tokenlist": self.tokens})

        return httpx.Response(404)


def entry(udpid, n):
    return {"udpId": udpid, "token": f"{n:02x}" * 64, "key": f"{n + 128:02x}" * 32}


async def expect_raises(coro, cls, what, failures):
    try:
        await coro
    except cls:
        return
    except Exception as e:  # pylint: disable=broad-except
        failures.append(f"{what}: raised {type(e).__name__} instead of {cls.__name__}")
        return
    failures.append(f"{what}: did not raise")


async def main() -> int:
    failures = []
    want = "4fbe0d4139de99dd88a0285e14657045"
    near = [
        "4fbe0d4139de99dd88a0285e14657044",
        "4FBE0D4139DE99DD88A0285E14657045",
        "4fbe0d4139de99dd88a0285e1465704",
        "4fbe0d4139de99dd88a0285e146570455",
        want[::-1],
    ]

    # 1. Login + token selection for several positions of the matching entry
    for account, password in [("user@example.com", "hunter2+&=%"), ("a+b c@x.org", "p w")]:
        for pos in (0, 2, 5, None):
            tokens = [entry(u, i) for i, u in enumerate(near)]
            if pos is not None:
                tokens.insert(pos, entry(want, 77))
            model = ModelCloud(account, password, tokens)
            cloud = NetHomePlusCloud("US", account=account, password=password,
                                     get_async_client=model.client)
            await cloud.login()
            if pos is None:
                await expect_raises(cloud.get_token(want), CloudError, "absent entry", failures)
            else:
                token, key = await cloud.get_token(want)
                if (token, key) != ("4d" * 64, f"{77 + 128:02x}" * 32):
                    failures.append(f"wrong creds for pos {pos}")
            paths = [p for p, _ in model.requests]
            if paths != ["/v1/user/login/id/get", "/v1/user/login", "/v1/iot/secure/getToken"]:
                failures.append(f"unexpected request sequence {paths}")
            if model.requests[2][1].get("udpid") != want:
                failures.append("getToken did not carry the requested udpid")
            failures.extend(model.violations)

    # 2. Bad password -> ApiError (a CloudError)
    model = ModelCloud("user@example.com", "right", [])
    cloud = NetHomePlusCloud("US", account="user@example.com", password="wrong",
                             get_async_client=model.client)
    await expect_raises(cloud.login(), ApiError, "bad password", failures)
    failures.extend(model.violations)

    # 3. Faults: timeouts within the budget succeed, exhausted budget -> CloudError after <= 3 attempts
    model = ModelCloud("u@e.com", "pw", [entry(want, 1)])
    cloud = NetHomePlusCloud("US", account="u@e.com", password="pw", get_async_client=model.client)
    model.faults = ["timeout", "timeout"]
    await cloud.login()
    model.requests.clear()
    model.faults = ["timeout"] * 10
    await expect_raises(cloud.get_token(want), CloudError, "exhausted timeouts", failures)
    if not 1 <= len(model.requests) <= NetHomePlusCloud.RETRIES:
        failures.append(f"{len(model.requests)} attempts for exhausted timeouts")
    for fault in (500, 404, "connect", ("api", 3176)):
        model.requests.clear()
        model.faults = [fault]
        await expect_raises(cloud.get_token(want), CloudError, f"fault {fault}", failures)
        if not 1 <= len(model.requests) <= NetHomePlusCloud.RETRIES:
            failures.append(f"{len(model.requests)} attempts for fault {fault}")
    model.faults = []
    if await cloud.get_token(want) != ("01" * 64, "81" * 32):
        failures.append("wrong creds after faults")
    failures.extend(model.violations)

    for f in failures:
        print("FAIL:", f)
    print("demo: %s" % ("FAILED" if failures else "ok"))
    return 1 if failures else 0


if __name__ == "__main__":
    sys.exit(asyncio.run(main()))
