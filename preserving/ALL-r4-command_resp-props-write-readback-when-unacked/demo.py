"""Demo 3: property writes against devices that acknowledge them, answer with something else, or stay silent."""
import asyncio
import logging
import sys
from unittest.mock import patch

import msmart.crc8 as crc8
from msmart.device import AirConditioner as AC
from msmart.device.AC.command import PropertyId
from msmart.frame import Frame

logging.basicConfig(level=logging.CRITICAL)


def frame(body: bytes, frame_type: int = 0x03) -> bytes:
    body = bytes(body)
    data = bytearray([0xAA, 10 + len(body) + 1, 0xAC, 0, 0, 0, 0, 0, 0, frame_type]) + body + bytes([crc8.calculate(body)])
    data.append(Frame.checksum(data[1:]))
    return bytes(data)


def check(cond, what):
    if not cond:
        print("FAIL:", what)
        sys.exit(1)


STATE = bytes.fromhex("aa23ac00000000000303c00145660000003c0010045c6b20000000000000000000020d79")


class FakeAC:
    """A unit with a property store. `ack` selects how a property write is answered."""

    def __init__(self, ack: str):
        self.ack = ack
        self.props = {0x0009: bytes([0]), 0x000A: bytes([0]), 0x0048: bytes([100]), 0x0043: bytes([1]),
                      0x00E3: bytes([0, 0]), 0x0039: bytes([0])}
        self.writes = []   # list of dict id -> value bytes, one per write command
        self.reads = []    # list of id lists, one per query command
        self.ids = []

    def _props_response(self, rid, ids):
        body = bytearray([rid, len(ids)])
        for i in ids:
            value = self.props.get(i, b"")
            body += bytes([i & 0xFF, i >> 8, 0x00, len(value)]) + value
        body += bytes([0x11])
        return frame(body)

    def handle(self, data: bytes):
        check(data[0] == 0xAA and data[1] == len(data) - 1 and data[2] == 0xAC, "well-formed command")
        check(Frame.checksum(data[1:-1]) == data[-1] and crc8.calculate(data[10:-2]) == data[-2], "command checks")
        self.ids.append(data[-3])
        body = data[10:-3]
        if body[0] == 0xB0:
            n, pos, rec = body[1], 2, {}
            for _ in range(n):
                i = body[pos] | (body[pos + 1] << 8)
                size = body[pos + 2]
                rec[i] = bytes(body[pos + 3:pos + 3 + size])
                pos += 3 + size
            check(pos == len(body), "write fully parsed")
            self.writes.append(rec)
            for i, v in rec.items():
                if i == 0x00E3:
                    self.props[i] = bytes([v[1], v[2]])
                elif i != 0x001A:
                    self.props[i] = v
            if self.ack == "ack":
                return [self._props_response(0xB0, [i for i in rec if i != 0x001A])]
            if self.ack == "state-only":
                return [STATE]
            if self.ack == "garbled":
                bad = bytearray(self._props_response(0xB0, [i for i in rec if i != 0x001A]))
                bad[12] ^= 0x40
                return [bytes(bad)]
            if self.ack == "late-ack":
                return [STATE, self._props_response(0xB0, [i for i in rec if i != 0x001A])]
            return []  # silent
        if body[0] == 0xB1:
            ids = [body[2 + 2 * k] | (body[3 + 2 * k] << 8) for k in range(body[1])]
            self.reads.append(ids)
            return [self._props_response(0xB1, ids)]
        if body[0] in (0x40, 0x41):
            return [STATE]
        return []


async def scenario(ack: str):
    fake = FakeAC(ack)
    dev = AC("0.0.0.0", 1, 6444)
    dev._supported_properties.update({PropertyId.SWING_UD_ANGLE, PropertyId.SWING_LR_ANGLE, PropertyId.RATE_SELECT,
                                      PropertyId.BREEZE_CONTROL, PropertyId.IECO, PropertyId.SELF_CLEAN})

    async def _send_command(self, command):
        return fake.handle(command.tobytes())

    with patch("msmart.base_device.Device._send_command", new=_send_command):
        await dev.refresh()
        n_reads = len(fake.reads)

        # An apply without changed properties sends no property write (and no property query)
        dev.beep = True
        await dev.apply()
        check(fake.writes == [] and len(fake.reads) == n_reads, f"{ack}: nothing to write")

        # Change several settings, one apply: one write with the buzzer, correct encoding
        dev.vertical_swing_angle = AC.SwingAngle.POS_3
        dev.rate_select = AC.RateSelect.LEVEL_2
        dev.breezeless = True
        dev.ieco = True
        await dev.apply()
        check(len(fake.writes) == 1, f"{ack}: exactly one write")
        w = fake.writes[0]
        check(set(w) == {0x0009, 0x0048, 0x0043, 0x00E3, 0x001A}, f"{ack}: ids {sorted(w)}")
        check(w[0x0009] == bytes([50]) and w[0x0048] == bytes([20]) and w[0x0043] == bytes([4]), f"{ack}: values")
        check(w[0x00E3][:3] == bytes([0, 1, 1]) and w[0x001A] == bytes([1]), f"{ack}: ieco/buzzer")
        extra = fake.reads[n_reads:]
        check(len(extra) <= 1, f"{ack}: at most one read back")
        for ids in extra:
            check(set(ids) <= {0x0009, 0x0048, 0x0043, 0x00E3}, f"{ack}: read back only what was written")
        check(dev.vertical_swing_angle == AC.SwingAngle.POS_3 and dev.rate_select == AC.RateSelect.LEVEL_2
              and dev.breezeless is True and dev.breeze_away is False and dev.breeze_mild is False
              and dev.ieco is True, f"{ack}: local state after apply")

        # Another apply right away: nothing changed, no write
        await dev.apply()
        check(len(fake.writes) == 1, f"{ack}: no repeated write")

        # Read back equal on the next refresh
        await dev.refresh()
        check(dev.vertical_swing_angle == AC.SwingAngle.POS_3 and dev.rate_select == AC.RateSelect.LEVEL_2
              and dev.breezeless is True and dev.ieco is True
              and dev.horizontal_swing_angle == AC.SwingAngle.OFF, f"{ack}: read back on refresh")
        check(sum([dev.breeze_away, dev.breeze_mild, dev.breezeless]) <= 1, f"{ack}: one breeze mode")

        # Self clean goes out as a single write too
        await dev.start_self_clean()
        check(len(fake.writes) == 2 and set(fake.writes[1]) == {0x0039, 0x001A}, f"{ack}: self clean write")
        await dev.refresh()
        check(dev.self_clean_active is True, f"{ack}: self clean read back")

    for a, b in zip(fake.ids, fake.ids[1:]):
        check(b == (a + 1) & 0xFF, f"{ack}: message ids advance by one")


async def main():
    for ack in ("ack", "late-ack", "state-only", "garbled", "silent"):
        await scenario(ack)

asyncio.run(main())
print("OK")
