"""Demo 3: Discover.discover_single() and Discover.discover() timing and results.

Uses an in-memory datagram endpoint (no network). Replies are delivered according to a
script of (delay, source address, data) entries. Only checks what callers may rely on:
the right device (or None) is returned, no later than the timeout (plus connect time),
and a device returned with auto_connect was connected before it was returned.
"""
import asyncio
import logging
import sys

from Crypto.Cipher import AES
from Crypto.Util import Padding
from hashlib import md5

from msmart.const import DISCOVERY_MSG, DeviceType
from msmart.device import AirConditioner, Device
from msmart.discover import Discover

logging.basicConfig(level=logging.CRITICAL)

SIGN_KEY = b"xhdiwjnchekd4d512chdjx5d8e4c394D2D7S"
ENC_KEY = md5(SIGN_KEY).digest()


def make_reply(version, device_id, port, sn, name, reported_ip):
    body = bytes(reversed([int(x) for x in reported_ip.split(".")]))
    body += port.to_bytes(4, "little")
    body += sn.encode().ljust(32, b"0")[:32]
    body += bytes([len(name)]) + name.encode()
    body += bytes(10)
    enc = AES.new(ENC_KEY, AES.MODE_ECB).encrypt(Padding.pad(body, 16))
    total = 40 + len(enc) + 16
    hdr = bytearray(40)
    hdr[0:2] = b"\x5a\x5a"
    hdr[2:4] = b"\x01\x11"
    hdr[4:6] = total.to_bytes(2, "little")
    hdr[6:8] = b"\x7a\x80"
    hdr[20:26] = device_id.to_bytes(6, "little")
    pkt = bytes(hdr) + enc
    pkt += md5(pkt + SIGN_KEY).digest()
    if version == 3:
        pkt = b"\x83\x70" + len(pkt).to_bytes(2, "big") + b"\x20\x0f\x00\x00" + pkt + bytes(range(16))
    return pkt


class FakeSocket:
    def setsockopt(self, *args):
        pass


class FakeTransport(asyncio.DatagramTransport):
    """In-memory datagram transport: records probes, lets fake hosts answer them."""

    def __init__(self, loop, protocol, hosts):
        super().__init__()
        self.loop = loop
        self.protocol = protocol
        self.hosts = hosts  # ip -> reply bytes
        self.sent = []  # (time, data, addr)
        self.closed = False

    def get_extra_info(self, name, default=None):
        return FakeSocket() if name == "socket" else default

    def sendto(self, data, addr=None):
        assert not self.closed
        self.sent.append((self.loop.time(), bytes(data), addr))
        if len(self.sent) == 1:
            # hosts is a script: list of (delay, (ip, port), data)
            for delay, src, reply in self.hosts:
                self.loop.call_later(delay, self._deliver, reply, src)

    def _deliver(self, data, addr):
        if not self.closed:
            self.protocol.datagram_received(data, addr)

    def is_closing(self):
        return self.closed

    def close(self):
        if not self.closed:
            self.closed = True
            self.loop.call_soon(self.protocol.connection_lost, None)

    def abort(self):
        self.close()


async def run_discovery(entry, hosts, **kwargs):
    loop = asyncio.get_event_loop()
    created = []

    async def fake_endpoint(factory, *args, **kw):
        protocol = factory()
        transport = FakeTransport(loop, protocol, hosts)
        created.append(transport)
        protocol.connection_made(transport)
        return transport, protocol

    orig = loop.create_datagram_endpoint
    loop.create_datagram_endpoint = fake_endpoint
    try:
        devices = await entry(**kwargs)
    finally:
        loop.create_datagram_endpoint = orig
    await asyncio.sleep(0.05)
    return devices, created[0]


def check(cond, msg):
    if not cond:
        print("FAIL:", msg)
        sys.exit(1)




def identity(d):
    return (type(d).__name__, d.ip, d.port, d.id, d.sn, d.name, int(d.type), d.version)


async def main():
    import time
    from functools import partial
    from unittest import mock

    HOST = "10.0.0.7"
    v2 = make_reply(2, 0x0A0B0C0D0E0F, 6444, "V" * 32, "net_ac_0A0B", HOST)
    v3 = make_reply(3, 0x112233445566, 6444, "W" * 32, "net_ac_1122", "10.9.9.9")
    other = make_reply(2, 0x77, 6444, "X" * 32, "net_fd_0077", "10.0.0.8")
    junk = b"\x5a\x5a" + bytes(70)

    single = partial(Discover.discover_single, HOST)

    # Prompt reply, late reply, duplicates: the device is returned with its advertised identity
    for delay in (0.0, 0.01, 0.3):
        for reply, exp in ((v2, ("AirConditioner", HOST, 6444, 0x0A0B0C0D0E0F, "V" * 32, "net_ac_0A0B", 0xAC, 2)),
                           (v3, ("AirConditioner", HOST, 6444, 0x112233445566, "W" * 32, "net_ac_1122", 0xAC, 3))):
            script = [(delay, (HOST, 6445), reply), (delay + 0.01, (HOST, 20086), reply), (delay + 0.02, (HOST, 6445), reply)]
            t0 = time.monotonic()
            dev, _ = await run_discovery(single, script, timeout=0.6, auto_connect=False)
            elapsed = time.monotonic() - t0
            check(dev is not None and identity(dev) == exp, f"wrong device for delay {delay}: {dev}")
            check(elapsed < 0.6 + 0.3, f"discover_single took {elapsed:.2f}s")

    # Silent host -> None, within about the timeout
    t0 = time.monotonic()
    dev, tr = await run_discovery(single, [], timeout=0.3, auto_connect=False)
    elapsed = time.monotonic() - t0
    check(dev is None, "device from silent host")
    check(0.25 <= elapsed < 0.6, f"silent host took {elapsed:.2f}s")
    check(len(tr.sent) > 0 and all(a[0] == HOST and d == DISCOVERY_MSG for _, d, a in tr.sent), "bad probes")

    # Reply arrives after the timeout -> None
    dev, _ = await run_discovery(single, [(0.5, (HOST, 6445), v2)], timeout=0.2, auto_connect=False)
    check(dev is None, "device found after timeout")

    # Bad reply only -> None; bad reply from another address followed by good reply -> device
    dev, _ = await run_discovery(single, [(0.01, (HOST, 6445), junk)], timeout=0.2, auto_connect=False)
    check(dev is None, "junk produced a device")
    dev, _ = await run_discovery(single, [(0.01, ("10.0.0.66", 6445), junk), (0.05, (HOST, 6445), v2)], timeout=0.4, auto_connect=False)
    check(dev is not None and dev.ip == HOST and dev.id == 0x0A0B0C0D0E0F, "good reply lost behind junk from another host")

    # auto_connect: the device returned has been refreshed exactly once before being returned
    refreshed = []

    async def fake_refresh(self):
        await asyncio.sleep(0.15)
        refreshed.append(self.id)

    with mock.patch.object(AirConditioner, "refresh", fake_refresh):
        dev, _ = await run_discovery(single, [(0.02, (HOST, 6445), v2), (0.03, (HOST, 6445), v2)], timeout=0.5, auto_connect=True)
    check(dev is not None and dev.id == 0x0A0B0C0D0E0F, "auto_connect device missing")
    check(refreshed == [0x0A0B0C0D0E0F], f"device not refreshed exactly once before return: {refreshed}")

    # Slow connect that outlasts the timeout is still awaited
    refreshed.clear()
    with mock.patch.object(AirConditioner, "refresh", fake_refresh):
        dev, _ = await run_discovery(single, [(0.1, (HOST, 6445), v2)], timeout=0.15, auto_connect=True)
    check(dev is not None and refreshed == [0x0A0B0C0D0E0F], "slow connect not awaited")

    # A failure while connecting surfaces to the caller
    async def failing_refresh(self):
        raise RuntimeError("boom")

    with mock.patch.object(AirConditioner, "refresh", failing_refresh):
        try:
            await run_discovery(single, [(0.01, (HOST, 6445), v2)], timeout=0.2, auto_connect=True)
            check(False, "exception swallowed")
        except RuntimeError:
            pass

    # discover(): every responder inside the window is reported, including late ones
    script = [(0.01, (HOST, 6445), v2), (0.02, ("10.0.0.8", 6445), other), (0.35, ("10.0.0.9", 6445), v3), (0.36, (HOST, 6445), v2)]
    t0 = time.monotonic()
    devices, _ = await run_discovery(Discover.discover, script, target="10.0.0.255", timeout=0.5, auto_connect=False)
    elapsed = time.monotonic() - t0
    check(sorted((d.ip, d.id, type(d).__name__) for d in devices) ==
          [("10.0.0.7", 0x0A0B0C0D0E0F, "AirConditioner"), ("10.0.0.8", 0x77, "Device"), ("10.0.0.9", 0x112233445566, "AirConditioner")],
          f"discover() result mismatch: {devices}")
    check(elapsed < 0.9, f"discover() took {elapsed:.2f}s")

    print("demo3 OK")


if __name__ == "__main__":
    asyncio.run(main())
