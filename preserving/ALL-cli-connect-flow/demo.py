"""Demonstration for change 3 (_connect / connection flow in msmart/cli.py).

Drives `msmart-ng control|query` in-process through cli.main() with
  * a fake discovery (honouring auto_connect like the real one: it calls the
    real Discover.connect, which fetches credentials from a fake cloud and
    authenticates V3 devices),
  * a fake device behind LAN.send / LAN.authenticate that refuses data from an
    unauthenticated V3 client,
and checks, for manual and --auto connections to V2 and V3 devices, that the
requested state is what gets written (same command as a library-level reference
run), that the device state was read before it is written, that the right
credentials are used, and that every failure to find / support / authenticate
the device ends in a non-zero exit without any state being written.
Exits 0 on success.
"""
import asyncio
import logging
import sys

import msmart.cli as cli
from msmart.cloud import CloudError
from msmart.base_device import Device
from msmart.device import AirConditioner as AC
from msmart.discover import Discover
from msmart.lan import LAN, AuthenticationError, ProtocolError, Security

logging.disable(logging.CRITICAL)

STATE = bytes.fromhex(
    "aa23ac00000000000303c00145660000003c0010045c6b20000000000000000000020d79")

DEVICE_ID = 0x0000A1B2C3D4E5F6 & 0xFFFFFFFFFFFF
GOOD = (bytes(range(64)), bytes(range(32)))
BAD = (bytes(64), bytes(32))


class World:
    """Everything outside the process: the network, the device and the cloud."""

    def __init__(self, *, version=2, kind="ac", found=True, good_endian="little", cloud_ok=True) -> None:
        self.version = version
        self.kind = kind
        self.found = found
        self.good_endian = good_endian
        self.cloud_ok = cloud_ok
        self.frames = []
        self.auth = []
        self.discoveries = []
        self.token_requests = []
        self.authenticated = set()

    def udpid(self, endian):
        return Security.udpid(DEVICE_ID.to_bytes(6, endian)).hex()


W = None


async def _send(self, data, retries=3):
    if W.version == 3 and id(self) not in W.authenticated:
        raise ProtocolError("not authenticated")
    W.frames.append(bytes(data))
    body = data[10:-1]
    if body[0] in (0x40, 0x41) and body[1] != 0x21:
        return [STATE]
    return []


async def _authenticate(self, token=None, key=None, retries=3):
    conv = (lambda x: bytes.fromhex(x) if isinstance(x, str) else x)
    W.auth.append((conv(token), conv(key)))
    if (conv(token), conv(key)) != GOOD:
        raise AuthenticationError("bad credentials")
    W.authenticated.add(id(self))


class FakeCloud:
    async def get_token(self, udpid):
        W.token_requests.append(udpid)
        if not W.cloud_ok:
            raise CloudError("code 3004")
        return GOOD if W.good_endian in ("little", "big") and udpid == W.udpid(W.good_endian) else BAD


async def _get_cloud():
    if not W.cloud_ok:
        raise CloudError("Failed to login to cloud.")
    return FakeCloud()


async def _discover(*, target="255.255.255.255", auto_connect=True, **kwargs):
    W.discoveries.append(target)
    if not W.found:
        return []
    info = dict(ip="10.0.0.7", port=6444, device_id=DEVICE_ID, sn="SN", name="net_ac_1234", version=W.version)
    dev = AC(**info) if W.kind == "ac" else Device(device_type=0xA1, **info)
    if auto_connect:
        await Discover.connect(dev)
    return [dev]


LAN.send = _send
LAN.authenticate = _authenticate
Discover.discover = staticmethod(_discover)
Discover._get_cloud = staticmethod(_get_cloud)


def run_cli(argv, **world):
    global W
    W = World(**world)
    sys.argv = ["msmart-ng"] + argv
    try:
        cli.main()
        status = 0
    except SystemExit as e:
        status = e.code if e.code is not None else 0
    except Exception as e:
        status = e
    return status, W


def reference_set_state(values):
    """The set-state command body the library writes for these values on top of the reported state."""
    global W
    W = World()

    async def go():
        dev = AC(ip="10.0.0.7", port=6444, device_id=DEVICE_ID)
        await dev.refresh()
        for k, v in values.items():
            setattr(dev, k, v)
        await dev.apply()
    asyncio.run(go())
    return [f[10:-3] for f in W.frames if f[9] == 0x02 and f[10] == 0x40]


def kinds(frames):
    out = []
    for f in frames:
        if f[9] == 0x02:
            out.append("set")
        elif f[10] == 0x41 and f[11] == 0x81:
            out.append("get")
        else:
            out.append("other")
    return out


failures = []


def check(cond, what):
    if not cond:
        failures.append(what)
        print("FAIL:", what)


SETTINGS = ["operational_mode=heat", "target_temperature=23.5", "fan_speed=55", "eco=0"]
VALUES = {"operational_mode": AC.OperationalMode.HEAT, "target_temperature": 23.5, "fan_speed": 55, "eco": False}
EXPECTED = reference_set_state(VALUES)
check(len(EXPECTED) == 1, "reference run wrote one set-state command")


def check_applied(label, status, w):
    check(status == 0, f"{label}: exit {status!r}")
    ks = kinds(w.frames)
    check(ks.count("set") == 1 and "get" in ks[:ks.index("set")] if "set" in ks else False,
          f"{label}: frames {ks}")
    check([f[10:-3] for f in w.frames if f[9] == 0x02 and f[10] == 0x40] == EXPECTED, f"{label}: wrong state written")


def check_nothing_written(label, status, w):
    check(status != 0, f"{label}: exit 0")
    check("set" not in kinds(w.frames), f"{label}: state written {kinds(w.frames)}")


# --- automatic connection -------------------------------------------------
for version in (2, 3):
    for endian in ("little", "big"):
        label = f"--auto V{version} ({endian})"
        status, w = run_cli(["control", "10.0.0.7", "--auto"] + SETTINGS, version=version, good_endian=endian)
        check_applied(label, status, w)
        check(w.discoveries == ["10.0.0.7"], f"{label}: discoveries {w.discoveries}")
        if version == 3:
            check(w.auth[-1] == GOOD and all(a in (GOOD, BAD) for a in w.auth), f"{label}: credentials {w.auth}")
            check(w.token_requests[0] == w.udpid("little") and set(w.token_requests) <= {w.udpid("little"), w.udpid("big")},
                  f"{label}: token requests {w.token_requests}")
            check(len(w.token_requests) <= 2, f"{label}: {len(w.token_requests)} token requests")
        else:
            check(w.auth == [] and w.token_requests == [], f"{label}: V2 device authenticated {w.auth}")

        status, w = run_cli(["query", "10.0.0.7", "--auto"], version=version, good_endian=endian)
        check(status == 0 and "get" in kinds(w.frames) and "set" not in kinds(w.frames), f"query {label}: {status!r} {kinds(w.frames)}")

# explicit credentials are ignored (not used) with --auto
status, w = run_cli(["control", "10.0.0.7", "--auto", "--token", "ff" * 64, "--key", "ee" * 32, "--id", "5"] + SETTINGS, version=3)
check_applied("--auto with ignored credentials", status, w)
check(all(a in (GOOD, BAD) for a in w.auth), f"--auto used the ignored credentials {w.auth}")

status, w = run_cli(["control", "10.0.0.7", "--auto"] + SETTINGS, found=False)
check_nothing_written("--auto, device not found", status, w)
check(w.frames == [] and w.auth == [], "--auto, device not found: device I/O")

status, w = run_cli(["control", "10.0.0.7", "--auto"] + SETTINGS, kind="other")
check_nothing_written("--auto, not an air conditioner", status, w)

status, w = run_cli(["control", "10.0.0.7", "--auto"] + SETTINGS, version=3, good_endian="none")
check_nothing_written("--auto, no valid credentials", status, w)
check(w.frames == [], f"--auto, no valid credentials: data sent unauthenticated {kinds(w.frames)}")
check(not isinstance(status, Exception) and sorted(w.token_requests) == sorted([w.udpid("little"), w.udpid("big")]) and w.auth == [BAD, BAD],
      f"--auto, no valid credentials: {status!r} {w.token_requests} {w.auth}")

status, w = run_cli(["control", "10.0.0.7", "--auto"] + SETTINGS, version=3, cloud_ok=False)
check_nothing_written("--auto, cloud failure", status, w)
check(w.frames == [] and w.auth == [], "--auto, cloud failure: device I/O")

for bad in (["bogus=1"], ["eco=maybe"], ["operational_mode=heat", "indoor_temperature=3"]):
    status, w = run_cli(["control", "10.0.0.7", "--auto"] + bad, version=3)
    check(status != 0 and w.discoveries == [] and w.frames == [] and w.auth == [] and w.token_requests == [],
          f"--auto {bad}: {status!r} {w.discoveries} {w.auth}")

# --- manual connection ----------------------------------------------------
status, w = run_cli(["control", "10.0.0.7"] + SETTINGS, version=2)
check_applied("manual V2", status, w)
check(w.auth == [] and w.discoveries == [], f"manual V2: {w.auth} {w.discoveries}")

creds = ["--token", GOOD[0].hex(), "--key", GOOD[1].hex(), "--id", str(DEVICE_ID)]
status, w = run_cli(["control", "10.0.0.7"] + creds + SETTINGS, version=3)
check_applied("manual V3", status, w)
check(w.auth == [GOOD] and w.discoveries == [] and w.token_requests == [], f"manual V3: {w.auth}")

status, w = run_cli(["query", "10.0.0.7"] + creds, version=3)
check(status == 0 and kinds(w.frames).count("get") >= 1, f"manual V3 query: {status!r}")

wrong = ["--token", BAD[0].hex(), "--key", BAD[1].hex(), "--id", str(DEVICE_ID)]
status, w = run_cli(["control", "10.0.0.7"] + wrong + SETTINGS, version=3)
check_nothing_written("manual V3, wrong credentials", status, w)
check(w.frames == [] and w.auth == [BAD], f"manual V3, wrong credentials: {w.auth} {kinds(w.frames)}")

status, w = run_cli(["control", "10.0.0.7"] + SETTINGS, version=3)
check_nothing_written("manual V3, no credentials", status, w)

# half a credential pair: either refused outright or treated as no credentials; never used, never a write
status, w = run_cli(["control", "10.0.0.7", "--token", GOOD[0].hex()] + SETTINGS, version=3)
check_nothing_written("manual V3, token without key", status, w)
check(w.auth == [], f"manual V3, token without key: {w.auth}")

for bad in (["bogus=1"], ["eco=maybe"]):
    status, w = run_cli(["control", "10.0.0.7"] + creds + bad, version=3)
    check(status != 0 and w.frames == [] and w.auth == [], f"manual {bad}: {status!r} {w.auth}")

print("demo3: %d failures" % len(failures))
sys.exit(1 if failures else 0)
