"""Demo 2: a whole session (capabilities, refresh, apply with properties, display toggle, self clean)
against a fake V2 unit on the loopback interface, looking at order, message ids, timing and results.

Exits 0 on the original code and with change2.patch.
"""
import asyncio
import struct
import sys
import time

import msmart.crc8 as crc8
import msmart.lan as lan
from msmart.const import DeviceType, FrameType
from msmart.device import AirConditioner as AC
from msmart.frame import Frame


class _Resp(Frame):
    def __init__(self, ftype):
        super().__init__(DeviceType.AIR_CONDITIONER, ftype)


def build(ftype, body: bytes) -> bytes:
    return _Resp(ftype).tobytes(bytes(body) + bytes([crc8.calculate(bytes(body))]))


class FakeUnit:
    """A V2 unit with state, humidity, energy, properties and capabilities."""

    def __init__(self):
        self.power = False
        self.mode = 2
        self.temp = 22.5
        self.fan = 60
        self.swing = 0xC
        self.eco = False
        self.turbo = False
        self.sleep = False
        self.fahrenheit = False
        self.display = True
        self.humidity_target = 45
        self.indoor_humidity = 51
        self.props = {0x0009: bytes([25]), 0x000A: bytes([50]), 0x0048: bytes([75]), 0x0039: bytes([0])}
        self.buzzer_writes = 0
        self.log = []                # (kind, frame, loop time) of every received transmission
        self.server = None
        self.port = None
        self.writers = []

    async def start(self):
        self.server = await asyncio.start_server(self._client, "127.0.0.1", 0)
        self.port = self.server.sockets[0].getsockname()[1]

    async def stop(self):
        self.server.close()
        for w in self.writers:
            w.close()

    # -- frames ---------------------------------------------------------------------------
    def state_frame(self) -> bytes:
        b = bytearray(24)
        b[0] = 0xC0
        b[1] = 0x01 if self.power else 0
        whole = int(self.temp)
        b[2] = ((self.mode & 7) << 5) | ((whole - 16) & 0xF) | (0x10 if self.temp != whole else 0)
        b[3] = self.fan
        b[7] = 0x30 | self.swing
        b[8] = 0x20 if self.turbo else 0
        b[9] = 0x10 if self.eco else 0
        b[10] = (1 if self.sleep else 0) | (2 if self.turbo else 0) | (4 if self.fahrenheit else 0)
        b[11] = 50 + 2 * 24
        b[12] = 0xFF
        b[14] = 0x00 if self.display else 0x70
        b[19] = self.humidity_target
        return build(FrameType.QUERY, b)

    def humidity_frame(self) -> bytes:
        b = bytearray(21)
        b[0], b[1], b[2], b[3] = 0xC1, 0x21, 0x01, 0x45
        b[4] = self.indoor_humidity
        return build(FrameType.QUERY, b)

    def energy_frame(self) -> bytes:
        b = bytearray(21)
        b[0], b[1], b[2], b[3] = 0xC1, 0x21, 0x01, 0x44
        b[4:8] = bytes([0x00, 0x12, 0x34, 0x56])
        b[12:16] = bytes([0x00, 0x00, 0x01, 0x50])
        b[16:19] = bytes([0x00, 0x07, 0x50])
        return build(FrameType.QUERY, b)

    def caps_frame(self) -> bytes:
        recs = [
            (0x0009, [1]), (0x000A, [1]), (0x0048, [1]), (0x0039, [1]),
            (0x021F, [2]), (0x0216, [2]),
            (0x0214, [1]), (0x0215, [1]), (0x0210, [1]), (0x0224, [1]),
        ]
        b = bytearray([0xB5, len(recs)])
        for cid, data in recs:
            b += struct.pack("<H", cid) + bytes([len(data)]) + bytes(data)
        b += bytes([0, 0])
        return build(FrameType.QUERY, b)

    def props_frame(self, rid, ids) -> bytes:
        b = bytearray([rid, len(ids)])
        for i in ids:
            v = self.props.get(i, bytes([0]))
            b += struct.pack("<H", i) + bytes([0, len(v)]) + v
        b += bytes([0])
        return build(FrameType.QUERY, b)

    # -- request handling -----------------------------------------------------------------
    def handle(self, frame: bytes):
        body = frame[10:-1]
        kind = "other"
        replies = []
        if body[0] == 0x41 and body[1] == 0x81:
            kind, replies = "state", [self.state_frame()]
        elif body[0] == 0x41 and body[1] == 0x21 and body[3] == 0x44:
            kind, replies = "energy", [self.energy_frame()]
        elif body[0] == 0x41 and body[1] == 0x21 and body[3] == 0x45:
            kind, replies = "humidity", [self.humidity_frame()]
        elif body[0] == 0x41 and body[4] == 0x02:
            kind = "toggle"
            self.display = not self.display
            replies = [self.state_frame()]
        elif body[0] == 0x40:
            kind = "setstate"
            self.power = bool(body[1] & 1)
            self.mode = body[2] >> 5
            self.temp = (body[2] & 0xF) + 16 + (0.5 if body[2] & 0x10 else 0)
            self.fan = body[3]
            self.swing = body[7] & 0xF
            self.turbo = bool(body[8] & 0x20)
            self.eco = bool(body[9] & 0x80)
            self.sleep = bool(body[10] & 1)
            self.fahrenheit = bool(body[10] & 4)
            self.humidity_target = body[19]
            replies = [self.state_frame()]
        elif body[0] == 0xB5:
            kind, replies = "caps", [self.caps_frame()]
        elif body[0] == 0xB1:
            ids = [struct.unpack("<H", body[2 + 2 * n:4 + 2 * n])[0] for n in range(body[1])]
            kind, replies = "getprops", [self.props_frame(0xB1, ids)]
        elif body[0] == 0xB0:
            kind = "setprops"
            rest = body[2:]
            ids = []
            for _ in range(body[1]):
                pid, size = struct.unpack("<H", rest[0:2])[0], rest[2]
                if pid == 0x001A:
                    self.buzzer_writes += 1
                else:
                    self.props[pid] = bytes(rest[3:3 + size])
                    ids.append(pid)
                rest = rest[3 + size:]
            replies = [self.props_frame(0xB0, ids)]
        self.log.append((kind, frame, asyncio.get_running_loop().time()))
        return replies

    async def _client(self, reader, writer):
        self.writers.append(writer)
        try:
            while True:
                head = await reader.readexactly(6)
                size = int.from_bytes(head[4:6], "little")
                packet = head + await reader.readexactly(size - 6)
                frame = lan._Packet.decode(packet)
                for reply in self.handle(frame):
                    writer.write(lan._Packet.encode(1234, reply))
                await writer.drain()
        except (asyncio.IncompleteReadError, ConnectionError, asyncio.CancelledError):
            pass
        finally:
            writer.close()


def check(cond, what):
    if not cond:
        print("FAIL:", what)
        sys.exit(1)
    print("ok:", what)


# The device object is created before any event loop exists
DEV = AC(ip="127.0.0.1", port=1, device_id=1234)


async def main():
    unit = FakeUnit()
    await unit.start()
    dev = DEV
    dev._port = unit.port
    dev._lan._port = unit.port

    t0 = time.monotonic()

    await dev.get_capabilities()
    await dev.refresh()
    check(dev.online and dev.target_temperature == 22.5 and dev.indoor_humidity == 51
          and dev.vertical_swing_angle == AC.SwingAngle.POS_2, "capabilities and refresh")
    t_refresh = time.monotonic() - t0

    # Apply a new state plus two property settings
    dev.power_state = True
    dev.operational_mode = AC.OperationalMode.HEAT
    dev.target_temperature = 20.5
    dev.fan_speed = AC.FanSpeed.LOW
    dev.eco = True
    dev.beep = True
    dev.vertical_swing_angle = AC.SwingAngle.POS_4
    dev.rate_select = AC.RateSelect.GEAR_50
    mark = len(unit.log)
    await dev.apply()
    sent = [k for k, _, _ in unit.log[mark:]]
    check(sent[:2] == ["setstate", "setprops"] and sent.count("setstate") == 1 and sent.count("setprops") == 1,
          "apply sent one state write then one property write")
    check(unit.power and unit.mode == 4 and unit.temp == 20.5 and unit.fan == 40 and unit.eco, "unit took the state")
    check(unit.props[0x0009] == bytes([75]) and unit.props[0x0048] == bytes([50]) and unit.buzzer_writes == 1,
          "unit took the properties, buzzer included once")

    mark = len(unit.log)
    await dev.apply()
    check([k for k, _, _ in unit.log[mark:]].count("setprops") == 0, "second apply sends no property write")

    # Display toggle reads the new display state back
    was = dev.display_on
    await dev.toggle_display()
    check(dev.display_on == (not was), "display toggled and read back")

    await dev.start_self_clean()
    check(unit.props[0x0039] == bytes([1]), "self clean started")

    # A second client sees what the first applied
    other = AC(ip="127.0.0.1", port=unit.port, device_id=1234)
    await other.get_capabilities()
    await other.refresh()
    check(other.power_state and other.operational_mode == AC.OperationalMode.HEAT and other.target_temperature == 20.5
          and other.fan_speed == AC.FanSpeed.LOW and other.eco
          and other.vertical_swing_angle == AC.SwingAngle.POS_4 and other.rate_select == AC.RateSelect.GEAR_50
          and other.self_clean_active, "second client reads everything back")

    total = time.monotonic() - t0

    # Message ids of everything the unit received advance by one modulo 256
    ids = [f[-3] for _, f, _ in unit.log]
    check(all((b - a) % 256 == 1 for a, b in zip(ids, ids[1:])), "message ids advance by one")

    # Every frame arrived exactly once (no retransmission was needed) and promptly
    gaps = [b - a for (_, _, a), (_, _, b) in zip(unit.log, unit.log[1:])]
    check(len(set(f for _, f, _ in unit.log)) == len(unit.log), "no frame was retransmitted")
    check(max(gaps) < 1.0 and min(gaps) >= 0, "commands follow each other within a second (max gap %.3f s)" % max(gaps))
    check(t_refresh < 2.0 and total < 8.0, "session took %.2f s" % total)

    for d in (dev, other):
        d._lan._disconnect()
    await unit.stop()
    await asyncio.sleep(0.05)
    print("demo 2 passed")

if __name__ == "__main__":
    asyncio.run(main())
