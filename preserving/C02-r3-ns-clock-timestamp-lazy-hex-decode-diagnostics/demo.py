"""Demo for change 3 (ns-clock-timestamp-lazy-hex-decode-diagnostics).

Exercises property C02 (V2 packet codec interoperates) with an independent
implementation of the format: all frame lengths and id boundaries, a sweep of
wall-clock instants (the library's clock sources are both steered), and
LAN.send on a loopback V2 unit with DEBUG logging switched on and every record
formatted.  Exits 0 on the original code and with the change.
"""
import asyncio
import logging
import time
from datetime import datetime, timezone
from unittest import mock
import hashlib
import os
import struct
import sys
import threading

from Crypto.Cipher import AES

import msmart.lan
from msmart.lan import LAN, ProtocolError, _Packet

SIGN_KEY = b"xhdiwjnchekd4d512chdjx5d8e4c394D2D7S"
ENC_KEY = hashlib.md5(SIGN_KEY).digest()


def ref_encode(device_id: int, frame: bytes, stamp: bytes = bytes(8)) -> bytes:
    pad = 16 - len(frame) % 16
    body = AES.new(ENC_KEY, AES.MODE_ECB).encrypt(frame + bytes([pad]) * pad)
    total = 40 + len(body) + 16
    head = struct.pack("<2s2sH2s4s8sQ12s", b"\x5a\x5a", b"\x01\x11", total,
                       b"\x20\x00", bytes(4), stamp, device_id, bytes(12))
    return head + body + hashlib.md5(head + body + SIGN_KEY).digest()


def ref_decode(packet: bytes):
    assert packet[:2] == b"\x5a\x5a", "start marker"
    total, = struct.unpack_from("<H", packet, 4)
    assert total == len(packet), ("length field", total, len(packet))
    assert hashlib.md5(packet[:-16] + SIGN_KEY).digest() == packet[-16:], "sign"
    body = packet[40:-16]
    assert len(body) % 16 == 0 and body
    plain = AES.new(ENC_KEY, AES.MODE_ECB).decrypt(body)
    pad = plain[-1]
    assert 1 <= pad <= 16 and plain[-pad:] == bytes([pad]) * pad, "pkcs7"
    device_id, = struct.unpack_from("<Q", packet, 20)
    return device_id, plain[:-pad]


IDS = [0, 1, 255, 256, 65535, 65536, 2**32 - 1, 2**32, 2**56 - 1, 2**56,
       2**63, 2**64 - 1, 123456, 0x0102030405060708]


def check_codec() -> None:
    for n in range(256):
        frame = os.urandom(n)
        dev = IDS[n % len(IDS)]
        got = ref_decode(_Packet.encode(dev, frame))
        assert got == (dev, frame), (n, dev)
        assert _Packet.decode(ref_encode(dev, frame, os.urandom(8))) == frame, n
    for dev in IDS:
        assert ref_decode(_Packet.encode(dev, b"\xaa" * 17)) == (dev, b"\xaa" * 17)


INSTANTS = [
    datetime(1970, 1, 1, 0, 0, 0, 0, timezone.utc),
    datetime(1999, 12, 31, 23, 59, 59, 999999, timezone.utc),
    datetime(2000, 2, 29, 12, 0, 0, 10000, timezone.utc),
    datetime(2024, 2, 29, 0, 0, 0, 9999, timezone.utc),
    datetime(2038, 1, 19, 3, 14, 8, 500000, timezone.utc),
    datetime(2099, 12, 31, 23, 59, 59, 990000, timezone.utc),
    datetime(2100, 1, 1, 0, 0, 0, 0, timezone.utc),
    datetime(2255, 6, 15, 6, 7, 8, 123456, timezone.utc),
    datetime(9999, 12, 31, 23, 59, 59, 999999, timezone.utc),
]


def at(instant: datetime):
    """Steer every wall clock the library may consult to `instant`."""
    class Frozen(datetime):
        @classmethod
        def now(cls, tz=None):
            return instant if tz is None else instant.astimezone(tz)

    epoch = datetime(1970, 1, 1, tzinfo=timezone.utc)
    delta = instant - epoch
    ns = (delta.days * 86400 + delta.seconds) * 10**9 + delta.microseconds * 1000
    stack = mock.patch.multiple(time, time_ns=lambda: ns, time=lambda: ns / 1e9)
    return stack, mock.patch.object(msmart.lan, "datetime", Frozen)


def check_clocks() -> None:
    for instant in INSTANTS:
        p1, p2 = at(instant)
        with p1, p2:
            for n in (0, 15, 16, 33, 255):
                frame = os.urandom(n)
                packet = _Packet.encode(2**64 - 1, frame)
                assert ref_decode(packet) == (2**64 - 1, frame), instant
                assert _Packet.decode(packet) == frame
            # the (free) timestamp field happens to spell the instant
            want = bytes((instant.microsecond // 10000, instant.second, instant.minute,
                          instant.hour, instant.day, instant.month,
                          instant.year % 100, instant.year // 100))
            assert packet[12:20] == want, (instant, packet[12:20].hex())


class Peer(asyncio.Protocol):
    def __init__(self, log):
        self.log = log

    def connection_made(self, transport):
        self.transport = transport

    def data_received(self, data):
        dev, frame = ref_decode(data)  # asserts interop on the wire
        self.log.append((dev, frame))
        stamp = os.urandom(8)
        self.transport.write(ref_encode(dev ^ 0xFF, b"R" + frame, stamp))


class Formatting(logging.Handler):
    """Formats every record, as a real handler would."""

    def __init__(self):
        super().__init__(logging.DEBUG)
        self.lines = []

    def emit(self, record):
        self.lines.append((record.levelno, record.getMessage()))


async def check_lan(handler: Formatting) -> None:
    loop = asyncio.get_running_loop()
    log = []
    server = await loop.create_server(lambda: Peer(log), "127.0.0.1", 0)
    port = server.sockets[0].getsockname()[1]
    for i, dev in enumerate(IDS):
        lan = LAN("127.0.0.1", port, dev)
        for n in (0, 1, 15, 16, 17, 31, 32, 254, 40 + i):
            frame = os.urandom(n)
            del log[:], handler.lines[:]
            assert await lan.send(frame) == [b"R" + frame], (dev, n)
            assert log == [(dev, frame)]
            text = "\n".join(m for _, m in handler.lines)
            # what went over the wire and what came back is in the debug log
            assert "Sending packet to" in text and "Received response from" in text
            assert (b"R" + frame).hex() in text
            assert not [m for lv, m in handler.lines if lv >= logging.WARNING], handler.lines
        lan._disconnect()
    server.close()


def check_refusals() -> None:
    # outside the statement, but the exception class is part of the API
    good = ref_encode(5, b"abc")
    for bad in (good[:-1] + bytes([good[-1] ^ 1]), good[:40], good[:3], b"\xaa" + good[1:]):
        try:
            _Packet.decode(bad)
        except ProtocolError:
            pass
        else:
            raise AssertionError(bad.hex())
    assert _Packet.decode(good + b"\x5a\x5a trailing") == b"abc"


def main() -> int:
    handler = Formatting()
    logging.getLogger("msmart").addHandler(handler)
    logging.getLogger("msmart").setLevel(logging.DEBUG)
    check_codec()
    check_clocks()
    check_refusals()
    asyncio.run(check_lan(handler))
    logging.getLogger("msmart").setLevel(logging.WARNING)
    check_codec()  # and once more with debug logging off
    print("demo3 OK")
    return 0


if __name__ == "__main__":
    sys.exit(main())
