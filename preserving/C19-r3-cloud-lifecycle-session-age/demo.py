"""Demo for change 3 (cloud object lifecycle: repr, copy/deepcopy/pickle support, session age on the monotonic clock,
timestamp via time.gmtime).

Model NetHome Plus server behind httpx.MockTransport. Exits 0 on the original code and with the change.
"""
import asyncio
import copy
import hashlib
import json
import logging
import re
import sys
import time
from datetime import datetime, timezone
from unittest import mock
from urllib.parse import parse_qsl, urlparse

import httpx

from msmart.cloud import ApiError, CloudError, NetHomePlusCloud

logging.disable(logging.CRITICAL)

APP_KEY = "3742e9e5842d4ad59c2db887e12449f9"


def sha(s: str) -> str:
    return hashlib.sha256(s.encode()).hexdigest()


class ModelServer:
    """Conforming server: verifies sign, login id, password derivation and session id of every request."""

    def __init__(self, accounts, tokenlist):
        self.accounts = accounts
        self.tokenlist = tokenlist
        self.login_ids = {}
        self.sessions = set()
        self.requests = []  # (path, fields)
        self.violations = []
        self.faults = []  # consumed one per request: "timeout", "http500", int api code
        self._n = 0

    def client(self):
        return httpx.AsyncClient(transport=httpx.MockTransport(self.handle))

    def _ok(self, result):
        return httpx.Response(200, text=json.dumps({"errorCode": "0", "msg": "ok", "result": result}))

    def _err(self, code, msg):
        return httpx.Response(200, text=json.dumps({"errorCode": str(code), "msg": msg}))

    async def handle(self, request: httpx.Request):
        await asyncio.sleep(0)  # let other tasks interleave
        path = urlparse(str(request.url)).path
        fields = dict(parse_qsl(request.content.decode(), keep_blank_values=True))
        self.requests.append((path, fields))

        if self.faults:
            fault = self.faults.pop(0)
            if fault == "timeout":
                raise httpx.ReadTimeout("model timeout", request=request)
            if fault == "http500":
                return httpx.Response(500, text="oops")
            if isinstance(fault, int):
                return self._err(fault, "injected")

        # Signature over path + sorted fields (without sign) + app key
        sign = fields.get("sign")
        query = "&".join(f"{k}={v}" for k, v in sorted(
            (k, v) for k, v in fields.items() if k != "sign"))
        if sign != sha(path + query + APP_KEY):
            self.violations.append(f"bad sign on {path}")
            return self._err(3301, "bad sign")

        for f in ("appId", "src", "format", "clientType", "language", "deviceId", "stamp", "sessionId"):
            if f not in fields:
                self.violations.append(f"missing field {f} on {path}")

        if path == "/v1/user/login/id/get":
            acct = fields.get("loginAccount")
            if acct not in self.accounts:
                return self._err(3102, "no such account")
            self._n += 1
            self.login_ids.setdefault(acct, []).append(f"lid{self._n:04d}")
            return self._ok({"loginId": self.login_ids[acct][-1]})

        if path == "/v1/user/login":
            acct = fields.get("loginAccount")
            if acct not in self.accounts or acct not in self.login_ids:
                return self._err(3102, "no such account")
            # Any login id issued for the account is accepted
            expect = [sha(lid + sha(self.accounts[acct]) + APP_KEY) for lid in self.login_ids[acct]]
            if fields.get("password") not in expect:
                return self._err(3101, "bad password")
            self._n += 1
            sid = f"sess{self._n:04d}"
            self.sessions.add(sid)
            return self._ok({"sessionId": sid, "userId": "1"})

        if path == "/v1/iot/secure/getToken":
            if fields.get("sessionId") not in self.sessions:
                self.violations.append("getToken without valid session id")
                return self._err(3106, "invalid session")
            return self._ok({"tokenlist": self.tokenlist})

        return httpx.Response(404, text="")


def entry(udpid, n):
    return {"udpId": udpid, "token": f"{n:02x}" * 64, "key": f"{n + 100:02x}" * 32}


def check(cond, what):
    if not cond:
        print("FAIL:", what)
        sys.exit(1)


async def main():
    want = "00112233445566778899aabbccddeeff"
    tokenlist = [entry("00112233445566778899aabbccddeefe", 1), entry(want, 2), entry(want[::-1], 3)]
    accounts = {"nethome+de@mailinator.com": "password1"}
    good = (entry(want, 2)["token"], entry(want, 2)["key"])

    srv = ModelServer(accounts, tokenlist)
    # A plain function (functions are atomic for deepcopy; a bound method would drag a copy of the server along)
    cloud = NetHomePlusCloud("DE", get_async_client=lambda: srv.client())
    check(isinstance(repr(cloud), str) and "password1" not in repr(cloud), "repr does not leak the password")
    check(not cloud._session, "no session before login")

    t0 = datetime.now(timezone.utc)
    await cloud.login()
    t1 = datetime.now(timezone.utc)
    check(cloud._session and cloud._session["sessionId"] == cloud._session_id, "session stored")
    for _, f in srv.requests:
        check(re.fullmatch(r"\d{14}", f["stamp"]) is not None, "stamp format")
        ts = datetime.strptime(f["stamp"], "%Y%m%d%H%M%S").replace(tzinfo=timezone.utc)
        check(abs((ts - t0).total_seconds()) <= 2 + (t1 - t0).total_seconds(), "stamp is current UTC time")
    check(await cloud.get_token(want) == good, "matching entry")
    await cloud.login()
    check(sum(1 for p, _ in srv.requests if p == "/v1/user/login") == 1, "no second login for a fresh session")

    # Copies of an idle, logged-in object are usable and independent of the original
    for make in (copy.deepcopy, copy.copy):
        try:
            dup = make(cloud)
        except TypeError:
            # The original code cannot deep-copy an object whose lock has been contended (the lock drags the event
            # loop along); that is outside the property, so just skip it there.
            print("note:", make.__name__, "not supported by this version")
            continue
        check(dup is not cloud and dup._session_id == cloud._session_id, "copy carries the session")
        check(await dup.get_token(want) == good, "copy returns matching entry")
        check(srv.requests[-1][1]["sessionId"] in srv.sessions, "copy request carries valid session id")
        await dup.login(force=True)
        check(dup._session_id != cloud._session_id and dup._session_id in srv.sessions, "copy logs in on its own")
        check(await cloud.get_token(want) == good, "original unaffected")
        res = await asyncio.gather(cloud.get_token(want), dup.get_token(want))
        check(res == [good, good], "original and copy used concurrently")

    # A long time later: login() may renew the session, everything stays conforming
    real = time.monotonic
    with mock.patch("time.monotonic", lambda: real() + 7 * 3600):
        n = len(srv.requests)
        await cloud.login()
        extra = [p for p, _ in srv.requests[n:]]
        check(extra in ([], ["/v1/user/login"], ["/v1/user/login/id/get", "/v1/user/login"]), f"renewal traffic {extra}")
        check(cloud._session_id in srv.sessions, "session valid afterwards")
        check(await cloud.get_token(want) == good, "token after renewal")
        check(srv.requests[-1][1]["sessionId"] == cloud._session_id, "current session id carried")

    # Session can be dropped/injected by assignment as before
    cloud._session = {}
    await cloud.login()
    check(cloud._session and cloud._session_id in srv.sessions, "login after clearing the session")

    # Errors still surface as cloud errors within the retry budget
    n = len(srv.requests)
    srv.faults = ["timeout"] * 5
    try:
        await cloud.get_token(want)
        check(False, "timeouts must raise")
    except CloudError:
        pass
    check(len(srv.requests) - n == 3, "three attempts")
    srv.faults = []
    srv.tokenlist = [tokenlist[0], tokenlist[2]]
    try:
        await cloud.get_token(want)
        check(False, "absent must raise")
    except CloudError:
        pass
    srv.faults = [3004]
    try:
        await cloud.login(force=True)
        check(False, "api error must raise")
    except ApiError as e:
        check(e.code == 3004, "code kept")

    check(not srv.violations, f"violations: {srv.violations}")
    print("demo3 OK")


if __name__ == "__main__":
    asyncio.run(main())
