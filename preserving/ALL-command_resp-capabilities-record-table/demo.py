"""Demo for change 2 (capabilities parser and merge).

Checks, through the public surface only, that capability records are interpreted independently,
merged in order and survive being split over two responses.
"""
import logging
import random
import sys

import msmart.crc8 as crc8
from msmart.device.AC.command import (CapabilitiesResponse, CapabilityId,
                                      InvalidResponseException, Response)
from msmart.frame import Frame, InvalidFrameException

logging.disable(logging.CRITICAL)

PROPS = ["anion", "fan_silent", "fan_low", "fan_medium", "fan_high", "fan_auto", "fan_custom",
         "breeze_away", "breeze_control", "breezeless", "swing_horizontal_angle", "swing_vertical_angle",
         "swing_horizontal", "swing_vertical", "swing_both", "dry_mode", "cool_mode", "heat_mode", "auto_mode",
         "aux_heat_mode", "aux_mode", "aux_electric_heat", "eco", "ieco", "turbo", "freeze_protection",
         "display_control", "filter_reminder", "min_temperature", "max_temperature", "energy_stats",
         "humidity", "target_humidity", "self_clean", "rate_select_levels"]


def check(cond, msg):
    if not cond:
        print("FAIL:", msg)
        sys.exit(1)


def frame(payload: bytes) -> bytes:
    body = bytes(payload) + bytes([crc8.calculate(payload)])
    header = bytearray(10)
    header[0] = 0xAA
    header[1] = len(body) + 10
    header[2] = 0xAC
    header[9] = 0x03
    f = bytes(header) + body
    return f + bytes([Frame.checksum(f[1:])])


def response(records, more=False) -> CapabilitiesResponse:
    payload = bytes([0xB5, len(records)]) + b"".join(records) + bytes([1 if more else 0, 0])
    resp = Response.construct(frame(payload))
    check(type(resp) is CapabilitiesResponse, "class")
    check(resp.additional_capabilities == more, "additional flag")
    return resp


def view(resp):
    return dict(resp.raw_capabilities), {p: getattr(resp, p) for p in PROPS}


def record(cid: int, data: bytes) -> bytes:
    return cid.to_bytes(2, "little") + bytes([len(data)]) + data


# 1. Known responses from real devices
resp = Response.construct(bytes.fromhex(
    "aa29ac00000000000303b50514020109150201021a020101250207203c203c203c003402010101007b1d"))
check(dict(resp.raw_capabilities) == {
    'heat_mode': True, 'cool_mode': True, 'dry_mode': True, 'auto_mode': True,
    "aux_heat_mode": True, "aux_mode": True,
    'swing_horizontal': False, 'swing_vertical': False,
    'turbo_heat': True, 'turbo_cool': True,
    'cool_min_temperature': 16.0, 'cool_max_temperature': 30.0,
    'auto_min_temperature': 16.0, 'auto_max_temperature': 30.0,
    'heat_min_temperature': 16.0, 'heat_max_temperature': 30.0,
    'decimals': False}, "raw capabilities")
check(resp.additional_capabilities is True, "more expected")
more = Response.construct(bytes.fromhex(
    "aa2fac00000000000303b508100201051f020100300001001302010019020101390001009300010194000101000095ca"))
check(more.additional_capabilities is False, "no more expected")
resp.merge(more)
check(resp.fan_low and resp.fan_auto and not resp.fan_silent and resp.aux_electric_heat
      and resp.heat_mode and resp.min_temperature == 16 and resp.max_temperature == 30, "merged")

# 2. Single records: spot values of each decoder family
for cid, value, key, expected in [
    (CapabilityId.BREEZELESS, 1, "breezeless", True), (CapabilityId.BREEZELESS, 100, "breezeless", False),
    (CapabilityId.PRESET_ECO, 2, "eco", True), (CapabilityId.PRESET_ECO, 3, "eco", False),
    (CapabilityId.PRESET_TURBO, 0, "turbo_cool", True), (CapabilityId.PRESET_TURBO, 3, "turbo_cool", False),
    (CapabilityId.PRESET_TURBO, 3, "turbo_heat", True), (CapabilityId.MODES, 2, "cool_mode", False),
    (CapabilityId.MODES, 200, "cool_mode", True), (CapabilityId.MODES, 9, "aux_heat_mode", True),
    (CapabilityId.FAN_SPEED_CONTROL, 6, "fan_silent", True), (CapabilityId.FAN_SPEED_CONTROL, 1, "fan_custom", True),
    (CapabilityId.FAHRENHEIT, 0, "fahrenheit", True), (CapabilityId.DISPLAY_CONTROL, 100, "display_control", True),
    (CapabilityId.SWING_MODES, 1, "swing_vertical", True), (CapabilityId.SWING_MODES, 2, "swing_vertical", False),
    (CapabilityId.RATE_SELECT, 3, "rate_select_5_level", True), (CapabilityId.HUMIDITY, 3, "humidity_manual_set", True),
]:
    raw = dict(response([record(cid, bytes([value]))]).raw_capabilities)
    check(raw[key] is expected, f"{cid!r} {value} {key}")

# Temperature records: undersized ignored, 6 byte form sets decimals, 7+ byte form reads it
check(dict(response([record(CapabilityId.TEMPERATURES, bytes([32, 60, 34, 58, 36, 56, 1, 9]))]).raw_capabilities) == {
    "cool_min_temperature": 16.0, "cool_max_temperature": 30.0, "auto_min_temperature": 17.0,
    "auto_max_temperature": 29.0, "heat_min_temperature": 18.0, "heat_max_temperature": 28.0, "decimals": True},
    "temperatures")
check(dict(response([record(CapabilityId.TEMPERATURES, bytes([32, 60, 34, 58, 36, 56]))]).raw_capabilities)[
    "decimals"] is True, "6 byte temperatures")
for n in range(1, 6):
    mixed = response([record(CapabilityId.TEMPERATURES, bytes(range(40, 40 + n))),
                      record(CapabilityId.PRESET_ECO, b"\x01")])
    check(dict(mixed.raw_capabilities) == {"eco": True}, "undersized temperatures skipped")

# 3. Random lists: whole == each record alone merged in order == split at any point
rnd = random.Random(2)
ids = [int(c) for c in CapabilityId] + [0x0001, 0x7777, 0x02FF]
for _ in range(300):
    records = []
    for _ in range(rnd.randrange(0, 13)):
        cid = rnd.choice(ids)
        size = rnd.choice([0, 1, 1, 1, 2, 3, 5, 6, 7, 10])
        records.append(record(cid, bytes(rnd.randrange(256) for _ in range(size))))

    whole = view(response(records))

    alone = {}
    for r in records:
        alone.update(response([r]).raw_capabilities)
    check(alone == whole[0], "records are independent")

    for cut in range(len(records) + 1):
        first = response(records[:cut], more=True)
        second = response(records[cut:])
        first.merge(second)
        check(view(first) == whole, f"split at {cut}")
        check(view(second) == view(response(records[cut:])), "merge leaves the other response alone")

# 4. Malformed lists never raise anything but the documented exception
for _ in range(2000):
    n = rnd.randrange(0, 30)
    payload = bytes([0xB5, rnd.randrange(256)]) + bytes(rnd.randrange(256) for _ in range(n))
    try:
        Response.construct(frame(payload))
    except (InvalidFrameException, InvalidResponseException):
        pass

print("demo2 OK")
