"""Demo 2: capability queries against devices that answer each page at once, late, garbled or never."""
import asyncio
import logging
import sys
from unittest.mock import patch

import msmart.crc8 as crc8
from msmart.device import AirConditioner as AC
from msmart.device.AC.command import GetCapabilitiesCommand
from msmart.frame import Frame

logging.basicConfig(level=logging.CRITICAL)


def frame(body: bytes, frame_type: int = 0x03) -> bytes:
    body = bytes(body)
    data = bytearray([0xAA, 10 + len(body) + 1, 0xAC, 0, 0, 0, 0, 0, 0, frame_type]) + body + bytes([crc8.calculate(body)])
    data.append(Frame.checksum(data[1:]))
    return bytes(data)


def caps(records, more: bool) -> bytes:
    body = bytearray([0xB5, len(records)])
    for cap_id, value in records:
        body += bytes([cap_id & 0xFF, cap_id >> 8, 1, value])
    body += bytes([1 if more else 0, 0x42])
    return frame(body)


def check(cond, what):
    if not cond:
        print("FAIL:", what)
        sys.exit(1)


STATE = bytes.fromhex("aa23ac00000000000303c00145660000003c0010045c6b20000000000000000000020d79")
PAGE1 = [(0x0214, 1), (0x0215, 1), (0x0212, 1), (0x0009, 1)]   # modes, swing, eco, vertical angle
PAGE2 = [(0x0039, 1), (0x000A, 1), (0x021E, 1)]                # self clean, horizontal angle, anion
GARBLED = bytearray(caps(PAGE2, False))
GARBLED[13] ^= 0xFF


class FakeDevice:
    """Answers capability requests page by page following a script of answers per page."""

    def __init__(self, first, second):
        self.script = {False: list(first), True: list(second)}
        self.requests = []
        self.ids = []

    async def send(self, dev, command):
        check(isinstance(command, GetCapabilitiesCommand), "only capability requests are sent")
        data = command.tobytes()
        self.ids.append(data[-3])
        additional = data[11:14] == bytes([0x01, 0x01, 0x01])
        self.requests.append(additional)
        answers = self.script[additional]
        return answers.pop(0) if answers else []


async def run(first, second):
    dev = AC("0.0.0.0", 1, 6444)
    fake = FakeDevice(first, second)
    async def _send_command(self, command):
        return await fake.send(self, command)

    with patch("msmart.base_device.Device._send_command", new=_send_command):
        await dev.get_capabilities()
    # Message ids of consecutive commands advance by one
    for a, b in zip(fake.ids, fake.ids[1:]):
        check(b == (a + 1) & 0xFF, "message ids advance by one")
    return dev, fake


def page1_applied(dev):
    return (dev.supports_eco and dev.supports_vertical_swing_angle
            and AC.OperationalMode.HEAT in dev.supported_operation_modes
            and AC.SwingMode.HORIZONTAL in dev.supported_swing_modes)


def page2_applied(dev):
    return dev.supports_self_clean and dev.supports_horizontal_swing_angle and dev.supports_purifier


async def main():
    # A. Everything in one response
    dev, fake = await run([[caps(PAGE1 + PAGE2, False)]], [])
    check(fake.requests == [False], "single request")
    check(page1_applied(dev) and page2_applied(dev), "A: all capabilities")

    # B. Two pages, both answered at once
    dev, fake = await run([[caps(PAGE1, True)]], [[caps(PAGE2, False)]])
    check(fake.requests == [False, True], "two requests")
    check(page1_applied(dev) and page2_applied(dev), "B: merged capabilities")
    one, _ = await run([[caps(PAGE1 + PAGE2, False)]], [])
    for attr in ("supported_operation_modes", "supported_swing_modes", "supported_fan_speeds", "supports_eco",
                 "supports_purifier", "supports_self_clean", "supports_horizontal_swing_angle",
                 "supports_vertical_swing_angle", "min_target_temperature", "max_target_temperature"):
        check(getattr(dev, attr) == getattr(one, attr), f"B: split equals single ({attr})")

    # C. Unsolicited frames around the answers
    dev, fake = await run([[STATE, caps(PAGE1, True)]], [[STATE, caps(PAGE2, False), STATE]])
    check(fake.requests == [False, True], "C: two requests")
    check(page1_applied(dev) and page2_applied(dev), "C: merged capabilities")

    # D. Second page unanswered the first time it is requested, answered if requested again
    dev, fake = await run([[caps(PAGE1, True)]], [[], [caps(PAGE2, False)]])
    check(fake.requests[0] is False and all(fake.requests[1:]) and 1 <= len(fake.requests) - 1 <= 2, "D: requests")
    check(page1_applied(dev), "D: first page applied")
    check(page2_applied(dev) == (len(fake.requests) == 3), "D: second page applied iff it was delivered")

    # E. Second page garbled, then good
    dev, fake = await run([[caps(PAGE1, True)]], [[bytes(GARBLED)], [caps(PAGE2, False)]])
    check(page1_applied(dev), "E: first page applied")
    check(page2_applied(dev) == (len(fake.requests) == 3), "E: second page applied iff it was delivered")

    # F. Second page never answered: first page alone is used, bounded number of requests
    dev, fake = await run([[caps(PAGE1, True)]], [])
    check(page1_applied(dev) and not page2_applied(dev), "F: first page only")
    check(1 <= sum(fake.requests) <= 3 and fake.requests[0] is False, "F: bounded")

    # G. First page answered only by an unsolicited frame, then properly if requested again
    dev, fake = await run([[STATE], [caps(PAGE1, False)]], [])
    check(1 <= len(fake.requests) <= 2 and not any(fake.requests), "G: requests")
    check(page1_applied(dev) == (len(fake.requests) == 2), "G: applied iff delivered")

    # H. Nothing at all: no exception, defaults kept, bounded number of requests
    dev, fake = await run([], [])
    check(1 <= len(fake.requests) <= 3 and not any(fake.requests), "H: bounded")
    check(dev.supports_eco and not dev.supports_self_clean, "H: defaults kept")
    check(dev.supported_operation_modes == AC.OperationalMode.list(), "H: default modes kept")

asyncio.run(main())
print("OK")
