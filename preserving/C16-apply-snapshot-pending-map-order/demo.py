"""Demonstration for C16: property-protocol settings are sent once, correctly encoded, and read back equal.

A simulated device is plugged in at the LAN layer (AirConditioner._lan.send). It parses 0xB0 writes and 0xB1 queries
as TLV lists *without assuming any order of entries*, stores the raw values, acknowledges them and serves them back.

Run:  cd <worktree> && PYTHONPATH=<worktree> /venv/bin/python demo3.py
"""
import asyncio
import itertools
import logging
import sys

import msmart.crc8 as crc8
from msmart.device import AirConditioner as AC
from msmart.device.AC.command import PropertyId as P
from msmart.frame import Frame

logging.disable(logging.CRITICAL)

STATE_FRAME = bytes.fromhex(
    "aa23ac00000000000303c00145660000003c0010045c6b20000000000000000000020d79")

# Capability ids (same numeric ids as the properties, except iECO/rate select values)
CAP_VALUE = {P.SWING_UD_ANGLE: 1, P.SWING_LR_ANGLE: 1, P.SELF_CLEAN: 1, P.BREEZE_AWAY: 1,
             P.BREEZE_CONTROL: 1, P.BREEZELESS: 1, P.IECO: 1}


def frame(frame_type: int, body: bytes) -> bytes:
    body = bytes(body)
    body += bytes([crc8.calculate(body)])
    hdr = bytearray(10)
    hdr[0] = 0xAA
    hdr[1] = len(body) + 10
    hdr[2] = 0xAC
    hdr[9] = frame_type
    out = bytearray(hdr + body)
    out.append(Frame.checksum(out[1:]))
    return bytes(out)


class Sim:
    def __init__(self, advertised, rate_levels=None):
        self.advertised = set(advertised)
        self.rate_levels = rate_levels
        self.values = {}          # property id -> raw stored value bytes (as read back)
        self.writes = []          # list of dicts {id: raw value bytes} per 0xB0 received
        self.queries = []         # list of id lists per 0xB1 received
        self.order = []           # body ids in order received (B0/B1/other)
        for p in self.advertised:
            self.values[p] = {P.IECO: bytes([1, 0]), P.BREEZE_AWAY: bytes([1]),
                              P.BREEZE_CONTROL: bytes([1]), P.RATE_SELECT: bytes([100])}.get(p, bytes([0]))

    async def send(self, data: bytes, retries: int = 3):
        assert data[0] == 0xAA and data[1] == len(data) - 1
        assert Frame.checksum(data[1:-1]) == data[-1]
        body = data[10:-2]       # without crc and checksum (msg id is last byte)
        assert crc8.calculate(body) == data[-2]
        ftype = data[9]
        self.order.append(body[0])
        if body[0] == 0xB0 and ftype == 0x02:
            return [self._write(body)]
        if body[0] == 0xB1 and ftype == 0x03:
            return [self._query(body)]
        if body[0] == 0xB5:
            return [self._caps()]
        if body[0] in (0x40, 0x41):
            return [STATE_FRAME]
        return []

    def _write(self, body):
        count = body[1]
        pos = 2
        entries = {}
        ack = bytearray([0xB0, count])
        for _ in range(count):
            pid = body[pos] | body[pos + 1] << 8
            size = body[pos + 2]
            val = bytes(body[pos + 3:pos + 3 + size])
            assert len(val) == size
            pos += 3 + size
            assert pid not in entries, "duplicate id in one write"
            entries[pid] = val
            if pid == P.BUZZER:
                ack += bytes([pid & 0xFF, pid >> 8, 0x00, 1]) + val
            elif pid in self.advertised:
                stored = val[1:3] if pid == P.IECO else val   # read back as ieco_number, ieco_switch
                self.values[pid] = stored
                ack += bytes([pid & 0xFF, pid >> 8, 0x00, len(stored)]) + stored
            else:
                ack += bytes([pid & 0xFF, pid >> 8, 0x11, 1, 0])
        assert pos == len(body) - 1, "trailing garbage before message id"
        self.writes.append(entries)
        return frame(0x02, ack + bytes([body[-1]]))

    def _query(self, body):
        count = body[1]
        ids = [body[2 + 2 * i] | body[3 + 2 * i] << 8 for i in range(count)]
        assert 2 + 2 * count == len(body) - 1
        assert len(set(ids)) == len(ids)
        self.queries.append(ids)
        resp = bytearray([0xB1, count])
        for pid in ids:
            val = self.values.get(pid)
            if val is None:
                resp += bytes([pid & 0xFF, pid >> 8, 0x10, 0])
            else:
                resp += bytes([pid & 0xFF, pid >> 8, 0x00, len(val)]) + val
        return frame(0x03, resp + bytes([body[-1]]))

    def _caps(self):
        caps = []
        for p in sorted(self.advertised):
            if p == P.RATE_SELECT:
                continue
            caps.append(bytes([p & 0xFF, p >> 8, 1, CAP_VALUE[p]]))
        if self.rate_levels:
            caps.append(bytes([0x48, 0x00, 1, 1 if self.rate_levels == 2 else 2]))
        body = bytes([0xB5, len(caps)]) + b"".join(caps) + bytes([0, 0])
        return frame(0x03, body)


async def make(advertised, rate_levels=None):
    sim = Sim(advertised, rate_levels)
    dev = AC("0.0.0.0", 1, 6444)
    dev._lan.send = sim.send
    await dev.get_capabilities()
    expect = set(advertised)
    assert dev._supported_properties == expect, (dev._supported_properties, expect)
    return dev, sim


def vendor_encode(pid, value):
    """Independent statement of the vendor encoding."""
    if pid == P.BREEZE_AWAY:
        return bytes([2 if value else 1])
    if pid == P.IECO:
        return bytes([0, 1, 1 if value else 0]) + bytes(10)
    return bytes([int(value)])


def breeze_flags(dev):
    return [dev.breeze_away, dev.breeze_mild, dev.breezeless]


async def check_write(dev, sim, expected: dict, beep: bool):
    """apply() -> exactly one property write holding exactly `expected` (+ buzzer), then nothing more."""
    n = len(sim.writes)
    await dev.apply()
    assert len(sim.writes) == n + 1, f"expected one property write, got {len(sim.writes) - n}"
    got = dict(sim.writes[-1])
    assert got.pop(P.BUZZER) == bytes([1 if beep else 0])
    want = {int(k): vendor_encode(k, v) for k, v in expected.items()}
    assert got == want, (got, want)
    # Nothing changed since -> no property write
    await dev.apply()
    assert len(sim.writes) == n + 1, "property write repeated by an apply without a change"
    await dev.refresh()
    assert len(sim.writes) == n + 1
    assert sum(breeze_flags(dev)) <= 1


async def scenario_full_breeze_control():
    adv = {P.SWING_UD_ANGLE, P.SWING_LR_ANGLE, P.SELF_CLEAN, P.RATE_SELECT, P.BREEZE_CONTROL, P.IECO}
    dev, sim = await make(adv, rate_levels=5)
    assert AC.RateSelect.LEVEL_3 in dev.supported_rate_selects

    # No change -> no write at all
    await dev.apply()
    await dev.refresh()
    assert sim.writes == []
    assert sorted(sim.queries[-1]) == sorted(adv)

    for angle in AC.SwingAngle.list():
        dev.vertical_swing_angle = angle
        await check_write(dev, sim, {P.SWING_UD_ANGLE: angle}, False)
        assert dev.vertical_swing_angle == angle
    for angle in AC.SwingAngle.list():
        dev.horizontal_swing_angle = angle
        await check_write(dev, sim, {P.SWING_LR_ANGLE: angle}, False)
        assert dev.horizontal_swing_angle == angle
    for rate in dev.supported_rate_selects:
        dev.rate_select = rate
        await check_write(dev, sim, {P.RATE_SELECT: rate}, False)
        assert dev.rate_select == rate
    dev.beep = True
    for on in (True, False, True):
        dev.ieco = on
        await check_write(dev, sim, {P.IECO: on}, True)
        assert dev.ieco == on

    for attr, mode in (("breeze_away", 2), ("breeze_mild", 3), ("breezeless", 4)):
        setattr(dev, attr, True)
        await check_write(dev, sim, {P.BREEZE_CONTROL: mode}, True)
        assert getattr(dev, attr) is True and sum(breeze_flags(dev)) == 1
    dev.breezeless = False
    await check_write(dev, sim, {P.BREEZE_CONTROL: 1}, True)
    assert breeze_flags(dev) == [False, False, False]

    # Several settings changed before one apply -> one write with all of them, each id once
    dev.beep = False
    dev.vertical_swing_angle = AC.SwingAngle.POS_3
    dev.horizontal_swing_angle = AC.SwingAngle.POS_5
    dev.rate_select = AC.RateSelect.LEVEL_2
    dev.ieco = False
    dev.breeze_away = True
    dev.breeze_mild = True      # last one wins, still a single BREEZE_CONTROL entry
    await check_write(dev, sim, {P.SWING_UD_ANGLE: 50, P.SWING_LR_ANGLE: 100, P.RATE_SELECT: 20,
                                 P.IECO: False, P.BREEZE_CONTROL: 3}, False)
    assert (dev.vertical_swing_angle, dev.horizontal_swing_angle) == (AC.SwingAngle.POS_3, AC.SwingAngle.POS_5)
    assert dev.rate_select == AC.RateSelect.LEVEL_2 and dev.ieco is False
    assert breeze_flags(dev) == [False, True, False]

    # Self clean goes out immediately, once, and reads back
    n = len(sim.writes)
    await dev.start_self_clean()
    assert len(sim.writes) == n + 1 and sim.writes[-1][P.SELF_CLEAN] == bytes([1])
    await dev.apply()
    assert len(sim.writes) == n + 1
    await dev.refresh()
    assert dev.self_clean_active is True


async def scenario_legacy_breeze():
    adv = {P.BREEZE_AWAY, P.BREEZELESS, P.RATE_SELECT}
    dev, sim = await make(adv, rate_levels=2)
    assert dev.supported_rate_selects == [AC.RateSelect.OFF, AC.RateSelect.GEAR_75, AC.RateSelect.GEAR_50]
    assert not dev.supports_breeze_mild

    for on in (True, False):
        dev.breeze_away = on
        await check_write(dev, sim, {P.BREEZE_AWAY: on}, False)
        assert breeze_flags(dev) == [on, False, False]
    for on in (True, False):
        dev.breezeless = on
        await check_write(dev, sim, {P.BREEZELESS: on}, False)
        assert breeze_flags(dev) == [False, False, on]
    for rate in dev.supported_rate_selects:
        dev.rate_select = rate
        await check_write(dev, sim, {P.RATE_SELECT: rate}, False)
        assert dev.rate_select == rate

    # The state command (0x40) and refresh queries keep flowing while no property write is sent
    n = len(sim.writes)
    for _ in range(3):
        await dev.apply()
        await dev.refresh()
    assert len(sim.writes) == n


async def scenario_small_profiles():
    """All subsets of a few advertised ids: only the changed id is written, under the advertised id."""
    pool = [P.SWING_UD_ANGLE, P.SWING_LR_ANGLE, P.IECO, P.BREEZE_CONTROL]
    for r in range(1, len(pool) + 1):
        for adv in itertools.combinations(pool, r):
            dev, sim = await make(set(adv))
            if P.SWING_UD_ANGLE in adv:
                dev.vertical_swing_angle = AC.SwingAngle.POS_2
                await check_write(dev, sim, {P.SWING_UD_ANGLE: 25}, False)
                assert dev.vertical_swing_angle == AC.SwingAngle.POS_2
            if P.IECO in adv:
                dev.ieco = True
                await check_write(dev, sim, {P.IECO: True}, False)
                assert dev.ieco is True
            if P.BREEZE_CONTROL in adv:
                dev.breezeless = True
                await check_write(dev, sim, {P.BREEZE_CONTROL: 4}, False)
                assert breeze_flags(dev) == [False, False, True]
            for q in sim.queries:
                assert sorted(q) == sorted(adv)


async def scenario_failed_write_is_retried():
    """A property write that fails with an exception stays pending; the next apply sends it (once)."""
    dev, sim = await make({P.SWING_UD_ANGLE, P.IECO, P.BREEZE_CONTROL})
    real_send = sim.send
    fail = {"on": True}

    async def flaky(data, retries=3):
        if fail["on"] and data[10] == 0xB0:
            raise RuntimeError("link dropped")
        return await real_send(data, retries)
    dev._lan.send = flaky

    dev.vertical_swing_angle = AC.SwingAngle.POS_4
    dev.ieco = True
    try:
        await dev.apply()
    except RuntimeError:
        pass
    else:
        raise AssertionError("exception must propagate")
    assert sim.writes == []
    fail["on"] = False
    await check_write(dev, sim, {P.SWING_UD_ANGLE: 75, P.IECO: True}, False)
    assert dev.vertical_swing_angle == AC.SwingAngle.POS_4 and dev.ieco is True


async def scenario_histories():
    """Random bounded histories of setter / apply / refresh against a model of what must be written."""
    import random
    rnd = random.Random(16)
    for trial in range(60):
        legacy = trial % 2 == 1
        adv = {P.SWING_UD_ANGLE, P.SWING_LR_ANGLE, P.RATE_SELECT, P.IECO}
        adv |= {P.BREEZE_AWAY, P.BREEZELESS} if legacy else {P.BREEZE_CONTROL}
        dev, sim = await make(adv, rate_levels=2 if legacy else 5)
        pending = {}
        for _ in range(rnd.randint(3, 12)):
            op = rnd.choice(["ud", "lr", "rate", "ieco", "breeze", "apply", "apply", "refresh"])
            if op == "refresh" and pending:
                # a refresh replaces local, not yet applied values by the device's; keep to set -> apply -> refresh
                op = "apply"
            if op == "ud":
                dev.vertical_swing_angle = a = rnd.choice(AC.SwingAngle.list())
                pending[P.SWING_UD_ANGLE] = a
            elif op == "lr":
                dev.horizontal_swing_angle = a = rnd.choice(AC.SwingAngle.list())
                pending[P.SWING_LR_ANGLE] = a
            elif op == "rate":
                dev.rate_select = r = rnd.choice(dev.supported_rate_selects)
                pending[P.RATE_SELECT] = r
            elif op == "ieco":
                dev.ieco = v = rnd.random() < 0.5
                pending[P.IECO] = v
            elif op == "breeze":
                on = rnd.random() < 0.7
                if legacy:
                    # keep to histories where the other legacy flag is off (one flag per write)
                    which = "breezeless" if dev.breezeless else "breeze_away" if dev.breeze_away else rnd.choice(
                        ["breeze_away", "breezeless"])
                    if any(k in pending for k in (P.BREEZE_AWAY, P.BREEZELESS)):
                        which = "breeze_away" if P.BREEZE_AWAY in pending else "breezeless"
                    setattr(dev, which, on)
                    pending[P.BREEZE_AWAY if which == "breeze_away" else P.BREEZELESS] = on
                else:
                    which = rnd.choice(["breeze_away", "breeze_mild", "breezeless"])
                    setattr(dev, which, on)
                    mode = {"breeze_away": 2, "breeze_mild": 3, "breezeless": 4}[which]
                    pending[P.BREEZE_CONTROL] = mode if on else 1
            elif op == "apply":
                n = len(sim.writes)
                await dev.apply()
                if pending:
                    assert len(sim.writes) == n + 1
                    got = dict(sim.writes[-1])
                    assert got.pop(P.BUZZER) == bytes([0])
                    assert got == {int(k): vendor_encode(k, v) for k, v in pending.items()}, (got, pending)
                    pending = {}
                else:
                    assert len(sim.writes) == n
            else:
                n = len(sim.writes)
                await dev.refresh()
                assert len(sim.writes) == n
            assert sum(breeze_flags(dev)) <= 1
        # Flush and read back
        if pending:
            await check_write(dev, sim, pending, False)
        await dev.refresh()
        for pid, raw in sim.values.items():
            if pid == P.SWING_UD_ANGLE:
                assert dev.vertical_swing_angle == raw[0]
            elif pid == P.SWING_LR_ANGLE:
                assert dev.horizontal_swing_angle == raw[0]
            elif pid == P.RATE_SELECT:
                assert dev.rate_select == raw[0]
            elif pid == P.IECO:
                assert dev.ieco == bool(raw[1])
            elif pid == P.BREEZE_CONTROL:
                assert breeze_flags(dev) == [raw[0] == 2, raw[0] == 3, raw[0] == 4]


async def main():
    await scenario_failed_write_is_retried()
    await scenario_histories()
    await scenario_full_breeze_control()
    await scenario_legacy_breeze()
    await scenario_small_profiles()
    print("C16 demo3: OK")


if __name__ == "__main__":
    asyncio.run(main())
    sys.exit(0)
