"""Demonstration for property C11: state responses decode to exactly the reported state.

Drives a fresh AirConditioner.refresh() against a simulated device (LAN.send replaced by a
coroutine that answers the state query with a frame carrying a chosen raw 0xC0 body) and
compares the public attributes with an oracle written from the property statement.

Exit status 0 when every comparison holds.
"""
import asyncio
import logging
import random
import sys

import msmart.crc8 as crc8
from msmart.device import AirConditioner as AC
from msmart.device.AC.command import (InvalidResponseException, Response,
                                      StateResponse)

logging.disable(logging.CRITICAL)

FOCUS = "change 1: table driven parser, checksum fast path, restructured _update_state"

failures = []


def check(cond, *what):
    if not cond:
        failures.append(what)
        if len(failures) <= 10:
            print("MISMATCH", *what)


def build_frame(body: bytes, style: str) -> bytes:
    """Wrap a 0xC0 body in a frame using the CRC-8 or the additive trailing check."""
    if style == "crc":
        chk = crc8.calculate(body)
    else:
        chk = (-sum(body)) & 0xFF
    header = bytearray(10)
    header[0] = 0xAA
    header[1] = 10 + len(body) + 1
    header[2] = 0xAC
    header[9] = 0x03
    frame = bytes(header) + bytes(body) + bytes([chk])
    return frame + bytes([(-sum(frame[1:])) & 0xFF])


def base_body(rng: random.Random, length: int) -> bytearray:
    body = bytearray(rng.randrange(256) for _ in range(length))
    body[0] = 0xC0
    return body


async def refresh_with(body: bytes, style: str) -> AC:
    dev = AC(ip="127.0.0.1", port=6444, device_id=1234)
    frame = build_frame(body, style)
    sent = []

    async def fake_send(data: bytes, *args, **kwargs):
        sent.append(data)
        # Only the state query (0x41) is answered
        return [frame] if data[10] == 0x41 else []

    dev._lan.send = fake_send
    await dev.refresh()
    check(len(sent) == 1, "fresh device sends one query", len(sent))
    check(dev.online and dev.supported, "online/supported", body.hex())
    return dev


def check_temperature(name, value, raw, tenths, fahrenheit, ctx):
    """Oracle taken from the statement, not from the code."""
    if raw == 0xFF:
        check(value is None, name, "0xFF must be unknown", value, ctx)
        return
    check(value is not None, name, "only 0xFF is unknown", raw, ctx)
    if value is None:
        return
    coarse = (raw - 50) / 2
    check(abs(value - coarse) <= 1.0, name,
          "within one degree of coarse", value, coarse, ctx)
    if not fahrenheit and tenths:
        check(round(abs(value) * 10) % 10 == tenths, name,
              "celsius tenths digit", value, tenths, ctx)
        check(int(value) == int(coarse), name,
              "celsius whole degrees", value, coarse, ctx)
        check(abs(value * 10 - round(value * 10)) < 1e-9, name,
              "no finer than tenths", value, ctx)
        if coarse > 0:
            check(value > 0, name, "sign", value, ctx)
        if coarse < 0:
            check(value < 0, name, "sign", value, ctx)


def check_state(dev: AC, b: bytes, ctx):
    n = len(b)
    check(dev.power_state == bool(b[1] & 0x01), "power", ctx)

    alt = b[13] & 0x1F
    if alt <= 25:
        expect = (alt + 12 if alt else (b[2] & 0x0F) + 16) + \
            (0.5 if b[2] & 0x10 else 0.0)
        check(dev.target_temperature == expect, "target",
              dev.target_temperature, expect, ctx)
    else:
        check(isinstance(dev.target_temperature, (int, float)), "target type", ctx)

    mode = b[2] >> 5
    if 1 <= mode <= 6:
        check(dev.operational_mode == mode and isinstance(
            dev.operational_mode, AC.OperationalMode), "mode", dev.operational_mode, mode, ctx)

    check(dev.fan_speed == b[3], "fan", dev.fan_speed, b[3], ctx)
    if b[3] in (20, 40, 60, 80, 100, 102):
        check(isinstance(dev.fan_speed, AC.FanSpeed), "fan enum", ctx)

    swing = b[7] & 0x0F
    if swing in (0x0, 0x3, 0xC, 0xF):
        check(dev.swing_mode == swing, "swing", dev.swing_mode, swing, ctx)

    check(dev.turbo == bool(b[8] & 0x20 or b[10] & 0x02), "turbo", ctx)
    check(dev.follow_me == bool(b[8] & 0x80), "follow_me", ctx)
    check(dev.eco == bool(b[9] & 0x10), "eco", ctx)
    check(dev.purifier == bool(b[9] & 0x20), "purifier", ctx)
    if b[8] & 0x40:
        aux = AC.AuxHeatMode.AUX_ONLY
    elif b[9] & 0x08:
        aux = AC.AuxHeatMode.AUX_HEAT
    else:
        aux = AC.AuxHeatMode.OFF
    check(dev.aux_mode == aux, "aux", dev.aux_mode, aux, ctx)
    check(dev.sleep == bool(b[10] & 0x01), "sleep", ctx)
    fahrenheit = bool(b[10] & 0x04)
    check(dev.fahrenheit == fahrenheit, "fahrenheit", ctx)
    check(dev.filter_alert == bool(b[13] & 0x20), "filter", ctx)
    check(dev.display_on == ((b[14] & 0x70) != 0x70), "display", ctx)

    # Optional trailing fields: reported when present, unknown when absent
    check(dev.target_humidity == ((b[19] & 0x7F) if n >= 20 else None),
          "target_humidity", dev.target_humidity, n, ctx)
    check(dev.freeze_protection == (bool(b[21] & 0x80) if n >= 22 else None),
          "freeze_protection", dev.freeze_protection, n, ctx)

    # All public attributes that are flags must be real booleans
    for attr in ("power_state", "turbo", "follow_me", "eco", "purifier", "sleep",
                 "fahrenheit", "filter_alert", "display_on"):
        check(type(getattr(dev, attr)) is bool, attr, "is bool", ctx)

    if b[15] & 0x0F <= 9:
        check_temperature("indoor", dev.indoor_temperature,
                          b[11], b[15] & 0x0F, fahrenheit, ctx)
    if b[15] >> 4 <= 9:
        check_temperature("outdoor", dev.outdoor_temperature,
                          b[12], b[15] >> 4, fahrenheit, ctx)


async def main() -> int:
    rng = random.Random(11)
    runs = 0

    # 1. Every temperature byte with every tenths digit, both sensors, both units.
    #    Indoor and outdoor get different raw values in the same frame.
    for raw in range(256):
        for tenths in range(10):
            for fahrenheit in (False, True):
                body = base_body(rng, rng.choice((16, 19, 22, 24, 30)))
                other_raw = (raw * 7 + 13) & 0xFF
                other_tenths = (tenths * 3 + 1) % 10
                body[11], body[12] = raw, other_raw
                body[15] = (other_tenths << 4) | tenths
                body[10] = (body[10] & ~0x04) | (0x04 if fahrenheit else 0)
                style = "crc" if (raw + tenths) & 1 else "sum"
                dev = await refresh_with(bytes(body), style)
                check_state(dev, bytes(body), ("temps", body.hex(), style))
                # and swapped sensors
                body[11], body[12] = other_raw, raw
                body[15] = (tenths << 4) | other_tenths
                dev = await refresh_with(bytes(body), style)
                check_state(dev, bytes(body), ("temps2", body.hex(), style))
                runs += 2

    # 2. All alternate set point codes with all primary codes
    for alt in range(32):
        for primary in range(32):
            body = base_body(rng, 24)
            body[2] = (body[2] & 0xE0) | primary
            body[13] = (body[13] & 0xE0) | alt
            dev = await refresh_with(bytes(body), "crc")
            check_state(dev, bytes(body), ("setpoint", body.hex()))
            runs += 1

    # 3. All 256 values of each byte that carries flags or enumerations
    for index in (1, 2, 3, 7, 8, 9, 10, 13, 14, 19, 21):
        for value in range(256):
            body = base_body(rng, 26)
            body[index] = value
            style = "sum" if value & 1 else "crc"
            dev = await refresh_with(bytes(body), style)
            check_state(dev, bytes(body), ("flags", index, body.hex(), style))
            runs += 1

    # 4. All response lengths from the minimum upward, both check styles
    for length in range(16, 48):
        for style in ("crc", "sum"):
            for _ in range(8):
                body = base_body(rng, length)
                dev = await refresh_with(bytes(body), style)
                check_state(dev, bytes(body), ("length", length, body.hex(), style))
                runs += 1

    # 5. A body whose trailing check matches neither style is rejected, leaving defaults
    body = base_body(rng, 24)
    frame = bytearray(build_frame(bytes(body), "crc"))
    good = {crc8.calculate(body), (-sum(body)) & 0xFF}
    frame[-2] = next(v for v in range(256) if v not in good)
    frame[-1] = (-sum(frame[1:-1])) & 0xFF
    try:
        Response.construct(bytes(frame))
        check(False, "bad trailing check accepted")
    except InvalidResponseException:
        pass
    # Truncated below the minimum is the same exception class through construct()
    try:
        Response.construct(build_frame(bytes(base_body(rng, 12)), "crc"))
        check(False, "short body accepted")
    except InvalidResponseException:
        pass

    # 6. Direct decode of a captured payload (from the project's own tests)
    with memoryview(bytes.fromhex("c00181667f7f003c00000060560400420000000000000048")) as mv:
        res = StateResponse(mv)
    check((res.target_temperature, res.indoor_temperature, res.outdoor_temperature)
          == (16.0, 23.2, 18.4), "captured payload")

    print(f"{FOCUS}\n{runs} refreshes, {len(failures)} mismatches")
    return 1 if failures else 0


if __name__ == "__main__":
    sys.exit(asyncio.run(main()))
