"""Demo for change 1 (single-flight login, lazily created locks).

Runs a model NetHome Plus server behind httpx.MockTransport and exercises the login / getToken flow sequentially,
concurrently and under faults. Exits 0 on the original code and with the change.
"""
import asyncio
import hashlib
import json
import logging
import sys
from urllib.parse import parse_qsl, urlparse

import httpx

from msmart.cloud import ApiError, CloudError, NetHomePlusCloud

logging.disable(logging.CRITICAL)

APP_KEY = "3742e9e5842d4ad59c2db887e12449f9"


def sha(s: str) -> str:
    return hashlib.sha256(s.encode()).hexdigest()


class ModelServer:
    """Conforming server: verifies sign, login id, password derivation and session id of every request."""

    def __init__(self, accounts, tokenlist):
        self.accounts = accounts
        self.tokenlist = tokenlist
        self.login_ids = {}
        self.sessions = set()
        self.requests = []  # (path, fields)
        self.violations = []
        self.faults = []  # consumed one per request: "timeout", "http500", int api code
        self._n = 0

    def client(self):
        return httpx.AsyncClient(transport=httpx.MockTransport(self.handle))

    def _ok(self, result):
        return httpx.Response(200, text=json.dumps({"errorCode": "0", "msg": "ok", "result": result}))

    def _err(self, code, msg):
        return httpx.Response(200, text=json.dumps({"errorCode": str(code), "msg": msg}))

    async def handle(self, request: httpx.Request):
        await asyncio.sleep(0)  # let other tasks interleave
        path = urlparse(str(request.url)).path
        fields = dict(parse_qsl(request.content.decode(), keep_blank_values=True))
        self.requests.append((path, fields))

        if self.faults:
            fault = self.faults.pop(0)
            if fault == "timeout":
                raise httpx.ReadTimeout("model timeout", request=request)
            if fault == "http500":
                return httpx.Response(500, text="oops")
            if isinstance(fault, int):
                return self._err(fault, "injected")

        # Signature over path + sorted fields (without sign) + app key
        sign = fields.get("sign")
        query = "&".join(f"{k}={v}" for k, v in sorted(
            (k, v) for k, v in fields.items() if k != "sign"))
        if sign != sha(path + query + APP_KEY):
            self.violations.append(f"bad sign on {path}")
            return self._err(3301, "bad sign")

        for f in ("appId", "src", "format", "clientType", "language", "deviceId", "stamp", "sessionId"):
            if f not in fields:
                self.violations.append(f"missing field {f} on {path}")

        if path == "/v1/user/login/id/get":
            acct = fields.get("loginAccount")
            if acct not in self.accounts:
                return self._err(3102, "no such account")
            self._n += 1
            self.login_ids.setdefault(acct, []).append(f"lid{self._n:04d}")
            return self._ok({"loginId": self.login_ids[acct][-1]})

        if path == "/v1/user/login":
            acct = fields.get("loginAccount")
            if acct not in self.accounts or acct not in self.login_ids:
                return self._err(3102, "no such account")
            # Any login id issued for the account is accepted
            expect = [sha(lid + sha(self.accounts[acct]) + APP_KEY) for lid in self.login_ids[acct]]
            if fields.get("password") not in expect:
                return self._err(3101, "bad password")
            self._n += 1
            sid = f"sess{self._n:04d}"
            self.sessions.add(sid)
            return self._ok({"sessionId": sid, "userId": "1"})

        if path == "/v1/iot/secure/getToken":
            if fields.get("sessionId") not in self.sessions:
                self.violations.append("getToken without valid session id")
                return self._err(3106, "invalid session")
            return self._ok({"tokenlist": self.tokenlist})

        return httpx.Response(404, text="")


def entry(udpid, n):
    return {"udpId": udpid, "token": f"{n:02x}" * 64, "key": f"{n + 100:02x}" * 32}


def check(cond, what):
    if not cond:
        print("FAIL:", what)
        sys.exit(1)


async def main():
    want = "4fbe0d4139de99dd88a0285e14657045"
    near = [want[:-1] + "4", want.upper(), want[1:] + want[0], "0" + want[:-1]]
    tokenlist = [entry(near[0], 1), entry(near[1], 2), entry(want, 3), entry(near[2], 4), entry(near[3], 5)]
    accounts = {"user@example.com": "s3cret pass+&=", "nethome+us@mailinator.com": "password1"}

    # 1. Sequential flow, explicit account with awkward characters in the password
    srv = ModelServer(accounts, tokenlist)
    cloud = NetHomePlusCloud("US", account="user@example.com", password="s3cret pass+&=",
                             get_async_client=srv.client)
    await cloud.login()
    await cloud.login()  # no-op
    check([p for p, _ in srv.requests] == ["/v1/user/login/id/get", "/v1/user/login"], "login sequence")
    token, key = await cloud.get_token(want)
    check((token, key) == (entry(want, 3)["token"], entry(want, 3)["key"]), "matching entry (middle)")
    check(srv.requests[-1][1]["sessionId"] in srv.sessions, "session id carried")

    # first / last / absent
    for pos in (0, len(tokenlist)):
        srv.tokenlist = [e for e in tokenlist if e["udpId"] != want]
        srv.tokenlist.insert(pos, entry(want, 9))
        check(await cloud.get_token(want) == (entry(want, 9)["token"], entry(want, 9)["key"]), f"entry at {pos}")
    srv.tokenlist = [e for e in tokenlist if e["udpId"] != want]
    try:
        await cloud.get_token(want)
        check(False, "absent entry must raise")
    except ApiError:
        check(False, "absent entry must be a plain CloudError")
    except CloudError:
        pass

    # forced login gets a fresh session that is then used
    old = cloud._session_id
    await cloud.login(force=True)
    check(cloud._session_id != old and cloud._session_id in srv.sessions, "forced login")
    srv.tokenlist = tokenlist
    await cloud.get_token(want)
    check(srv.requests[-1][1]["sessionId"] == cloud._session_id, "new session id carried")

    # 2. Concurrent users of one object: every request must still be conforming, all calls succeed
    srv2 = ModelServer(accounts, tokenlist)
    cloud2 = NetHomePlusCloud("US", get_async_client=srv2.client)
    await asyncio.gather(*(cloud2.login() for _ in range(4)))
    check(cloud2._session_id in srv2.sessions, "concurrent login leaves a valid session")
    n_login = sum(1 for p, _ in srv2.requests if p == "/v1/user/login")
    check(1 <= n_login <= 4, "between one and four logins")
    results = await asyncio.gather(*(cloud2.get_token(want) for _ in range(5)))
    check(all(r == (entry(want, 3)["token"], entry(want, 3)["key"]) for r in results), "concurrent get_token")

    # 3. Faults: timeouts up to the budget, HTTP failure, API code
    srv3 = ModelServer(accounts, tokenlist)
    cloud3 = NetHomePlusCloud("US", get_async_client=srv3.client)
    srv3.faults = ["timeout", "timeout"]
    await cloud3.login()  # two timeouts then success within 3 attempts
    check(len(srv3.requests) == 4, "2 timeouts + id + login")
    before = len(srv3.requests)
    srv3.faults = ["timeout"] * 3
    try:
        await cloud3.get_token(want)
        check(False, "exhausted timeouts must raise")
    except CloudError:
        pass
    check(len(srv3.requests) - before == NetHomePlusCloud.RETRIES, "at most RETRIES attempts")
    for fault, cls in (("http500", CloudError), (3106, ApiError)):
        before = len(srv3.requests)
        srv3.faults = [fault]
        try:
            await cloud3.get_token(want)
            check(False, f"{fault} must raise")
        except cls as e:
            check(isinstance(e, CloudError), "is a cloud error")
        check(len(srv3.requests) - before == 1, f"{fault}: single attempt")
    # Failed login while another task waits: both surface CloudError or succeed on their own, nothing hangs
    srv4 = ModelServer(accounts, tokenlist)
    cloud4 = NetHomePlusCloud("US", get_async_client=srv4.client)
    srv4.faults = [3102]
    res = await asyncio.wait_for(asyncio.gather(cloud4.login(), cloud4.login(), return_exceptions=True), 5)
    check(all(r is None or isinstance(r, CloudError) for r in res), "errors are cloud errors")
    await cloud4.login()
    check(cloud4._session_id in srv4.sessions, "login after failure")

    # Object can be built outside a running loop (done above implicitly for class attrs) and used later
    for s in (srv, srv2, srv3, srv4):
        check(not s.violations, f"server saw violations: {s.violations}")
    print("demo OK")


if __name__ == "__main__":
    asyncio.run(main())
