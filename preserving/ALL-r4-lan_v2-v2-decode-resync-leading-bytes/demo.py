"""Demo 4: V2 packet decoding - round trips, rejections, and data with bytes ahead of a packet.
Exits 0 on the original code and with change4.patch applied."""
import asyncio
import hashlib
import logging
import random
import sys

from Crypto.Cipher import AES
from Crypto.Util import Padding

from msmart.lan import LAN, ProtocolError, _Packet

SIGN_KEY = b"xhdiwjnchekd4d512chdjx5d8e4c394D2D7S"
ENC_KEY = hashlib.md5(SIGN_KEY).digest()
DEVICE_ID = 0x5A5A5A5A5A5A  # an id that looks like packet starts

REQUEST = bytes.fromhex("aa21ac8d000000000003418100ff03ff000200000000000000000000000003016971")
RESP = bytes.fromhex("aa22ac00000000000303c0014566000000300010045cff2070000000000000008bed19")


def v2_encode(frame: bytes, device_id: int = DEVICE_ID) -> bytes:
    payload = AES.new(ENC_KEY, AES.MODE_ECB).encrypt(Padding.pad(frame, 16))
    head = b"\x5a\x5a\x01\x11" + (40 + len(payload) + 16).to_bytes(2, "little") + b"\x20\x80"
    head += bytes(12) + device_id.to_bytes(8, "little") + bytes(12)
    return head + payload + hashlib.md5(head + payload + SIGN_KEY).digest()


def v2_decode(packet: bytes):
    assert packet[:2] == b"\x5a\x5a" and int.from_bytes(packet[4:6], "little") == len(packet)
    assert hashlib.md5(packet[:-16] + SIGN_KEY).digest() == packet[-16:]
    frame = Padding.unpad(AES.new(ENC_KEY, AES.MODE_ECB).decrypt(packet[40:-16]), 16)
    return int.from_bytes(packet[20:28], "little"), frame


def outcome(data: bytes):
    try:
        return _Packet.decode(data)
    except ProtocolError:
        return "protocol-error"


async def main() -> int:
    logging.getLogger("msmart").setLevel(logging.CRITICAL)
    rng = random.Random(4)
    failures = []

    def check(name, ok, detail=""):
        print(f"{'ok  ' if ok else 'FAIL'} {name} {detail}")
        if not ok:
            failures.append(name)

    # Round trips in both directions for every frame length
    ok = True
    for n in range(256):
        frame = rng.randbytes(n)
        dev = rng.choice([0, 1, 255, 256, 2**48 - 1, 2**64 - 1, rng.getrandbits(64)])
        ok &= v2_decode(_Packet.encode(dev, frame)) == (dev, frame)
        ok &= _Packet.decode(v2_encode(frame, dev)) == frame
        ok &= _Packet.decode(v2_encode(frame, dev) + rng.randbytes(n % 7)) == frame  # trailing bytes
    check("round trips", ok)

    # Every single-bit flip and every truncation of a packet is rejected
    for frame in (b"", RESP, rng.randbytes(47)):
        packet = v2_encode(frame)
        bad = [i for i in range(len(packet) * 8)
               if outcome(bytes(b ^ (1 << (i % 8)) if j == i // 8 else b for j, b in enumerate(packet))) != "protocol-error"]
        check(f"bit flips len={len(frame)}", not bad, bad[:5])
        bad = [n for n in range(len(packet)) if outcome(packet[:n]) != "protocol-error"]
        check(f"truncations len={len(frame)}", not bad, bad[:5])

    # Not packets at all
    for name, data in (("empty", b""), ("noise", rng.randbytes(200)), ("raw frame", RESP),
                       ("markers only", b"\x5a" * 300), ("noise with markers", b"\x00" + b"\x5a\x5a\x01\x11\x48\x00" * 40)):
        check(name, outcome(data) == "protocol-error")

    # Bytes ahead of an authentic packet: the packet's frame or a rejection, never anything else
    packet = v2_encode(RESP)
    for name, junk in (("one byte", b"\x00"), ("half marker", b"\x5a"), ("tail of a packet", packet[-30:]),
                       ("false start", b"\x00\x5a\x5a\x01\x11\x48\x00\x20"), ("long", rng.randbytes(700)),
                       ("too long", bytes(2000))):
        out = outcome(junk + packet)
        check(f"ahead: {name}", out in (RESP, "protocol-error"), "frame" if out == RESP else out)
        altered = bytearray(junk + packet)
        altered[-20] ^= 1
        check(f"ahead, altered: {name}", outcome(bytes(altered)) == "protocol-error")

    # The same through a connection: device emits a stray byte ahead of its answer
    stray = [b"\x00"]

    async def handle(reader, writer):
        try:
            while True:
                data = await reader.read(4096)
                if not data:
                    break
                assert v2_decode(data) == (DEVICE_ID, REQUEST)
                writer.write((stray.pop() if stray else b"") + v2_encode(RESP))
                await writer.drain()
        except ConnectionError:
            pass
        finally:
            writer.close()

    server = await asyncio.start_server(handle, "127.0.0.1", 0)
    lan = LAN("127.0.0.1", server.sockets[0].getsockname()[1], DEVICE_ID)
    try:
        out = await lan.send(REQUEST, retries=1)
    except ProtocolError:
        out = "protocol-error"
    check("stray byte on the wire", out in ([RESP], "protocol-error"), "frame" if out == [RESP] else out)
    out = await lan.send(REQUEST, retries=1)
    if out != [RESP]:
        out = await lan.send(REQUEST, retries=1)
    check("next exchange", out == [RESP])
    lan._disconnect()
    server.close()
    await asyncio.sleep(0.05)

    return 1 if failures else 0


if __name__ == "__main__":
    sys.exit(asyncio.run(main()))
