"""Demo for change 1 (send-lock-finally): V2 packet integrity as seen through LAN.send.

A fake device on 127.0.0.1 answers every request with a scripted packet.  We check
 * authentic packets of many frame lengths decode to exactly the frame sent,
 * every single-bit flip / sampled byte substitutions / every truncation of a packet
   make LAN.send raise ProtocolError (exactly that class) and never return a frame,
 * the same LAN object keeps working afterwards (sequentially),
 * two tasks sharing one LAN never obtain a frame the device did not send.
Exits 0 on the original code and with the change.
"""
import asyncio
import logging
import random
import sys

from hashlib import sha256

from Crypto.Util.strxor import strxor

from msmart.lan import LAN, ProtocolError, Security, _Packet

logging.disable(logging.CRITICAL)
rng = random.Random(3)


class FakeDevice:
    """Answers each received segment with the next scripted reply."""

    def __init__(self):
        self.replies = []  # list of bytes (or list of bytes to send back to back)
        self.default = None
        self.server = None
        self.port = None
        self.writers = set()

    async def start(self):
        self.server = await asyncio.start_server(self._handle, "127.0.0.1", 0)
        self.port = self.server.sockets[0].getsockname()[1]

    async def stop(self):
        self.server.close()
        for w in list(self.writers):
            w.close()
        await asyncio.sleep(0.05)

    async def _handle(self, reader, writer):
        self.writers.add(writer)
        try:
            while True:
                data = await reader.read(4096)
                if not data:
                    break
                reply = self.replies.pop(0) if self.replies else self.default
                if reply:
                    writer.write(reply)
                    await writer.drain()
        except (ConnectionError, OSError):
            pass
        finally:
            self.writers.discard(writer)
            try:
                writer.close()
            except Exception:
                pass


class FakeDeviceV3(FakeDevice):
    """V3 device: key handshake, then scripted V2 packets inside encrypted responses."""
    KEY = bytes(range(32))
    TOKEN = bytes(range(64))

    async def _handle(self, reader, writer):
        self.writers.add(writer)
        buf = b""
        local_key = None
        try:
            while True:
                data = await reader.read(4096)
                if not data:
                    break
                buf += data
                while len(buf) >= 6 and len(buf) >= int.from_bytes(buf[2:4], "big") + 8:
                    size = int.from_bytes(buf[2:4], "big") + 8
                    pkt, buf = buf[:size], buf[size:]
                    if pkt[5] & 0xF == 0:
                        plain = bytes(rng.randrange(256) for _ in range(32))
                        body = Security.encrypt_aes_cbc(self.KEY, plain) + sha256(plain).digest()
                        local_key = strxor(plain, self.KEY)
                        writer.write(b"\x83\x70" + len(body).to_bytes(2, "big") + b"\x20\x01" + pkt[6:8] + body)
                    else:
                        reply = self.replies.pop(0) if self.replies else self.default
                        if reply:
                            rem = (len(reply) + 2) % 16
                            pad = 16 - rem if rem else 0
                            header = b"\x83\x70" + (len(reply) + pad + 32).to_bytes(2, "big") + bytes([0x20, pad << 4 | 3])
                            payload = b"\x00\x01" + reply + bytes(pad)
                            writer.write(header + Security.encrypt_aes_cbc(local_key, payload)
                                         + sha256(header + payload).digest())
                    await writer.drain()
        except (ConnectionError, OSError):
            pass
        finally:
            self.writers.discard(writer)
            try:
                writer.close()
            except Exception:
                pass


def frame_of(n):
    return bytes(rng.randrange(256) for _ in range(n))


async def expect_reject(lan, dev, bad, what):
    dev.replies = [bad]
    try:
        got = await lan.send(b"\xaa\x01request", retries=1)
    except ProtocolError as e:
        assert type(e) is ProtocolError, (what, type(e))
        return
    except TimeoutError:
        raise AssertionError(f"{what}: timeout instead of ProtocolError")
    raise AssertionError(f"{what}: accepted, returned {got}")


async def main():
    dev = FakeDevice()
    await dev.start()
    lan = LAN("127.0.0.1", dev.port, 0x1234)

    # 1. authentic packets, all frame lengths 0..70
    for n in range(0, 71):
        frame = frame_of(n)
        dev.replies = [_Packet.encode(0x1234, frame)]
        got = await lan.send(b"\xaa\x02req")
        assert got == [frame], (n, got)

    # 2. every single-bit flip of one packet, via LAN.send
    frame = frame_of(21)
    good = _Packet.encode(0x1234, frame)
    for bit in range(len(good) * 8):
        bad = bytearray(good)
        bad[bit // 8] ^= 1 << (bit % 8)
        await expect_reject(lan, dev, bytes(bad), f"bit {bit}")
        if bit % 97 == 0:
            # the object is still usable and still decodes the authentic packet
            dev.replies = [good]
            assert await lan.send(b"\xaa\x03req") == [frame]

    # 3. every truncation (1..len-1 bytes) via LAN.send
    for keep in range(1, len(good)):
        await expect_reject(lan, dev, good[:keep], f"truncate {keep}")

    # 4. byte substitutions and multi-byte corruptions, direct and via send
    for _ in range(300):
        frame = frame_of(rng.randrange(0, 60))
        good = _Packet.encode(rng.randrange(1 << 48), frame)
        bad = bytearray(good)
        for _k in range(rng.choice([1, 1, 2, 5])):
            i = rng.randrange(len(bad))
            bad[i] = (bad[i] + rng.randrange(1, 256)) & 0xFF
        try:
            out = _Packet.decode(bytes(bad))
        except ProtocolError as e:
            assert type(e) is ProtocolError
        else:
            raise AssertionError(f"corrupt packet decoded to {out}")
    for _ in range(60):
        frame = frame_of(rng.randrange(0, 60))
        good = _Packet.encode(0x1234, frame)
        bad = bytearray(good)
        i = rng.randrange(len(bad))
        bad[i] ^= rng.randrange(1, 256)
        await expect_reject(lan, dev, bytes(bad), f"subst {i}")

    # 5. two tasks share one LAN object: whatever interleaving the library chooses, a
    #    task only ever sees authentic frames or ProtocolError/TimeoutError.
    authentic = [frame_of(10 + i) for i in range(8)]
    for rnd in range(4):
        a, b = rng.sample(authentic, 2)
        corrupt = bytearray(_Packet.encode(0x1234, a))
        corrupt[rng.randrange(len(corrupt))] ^= 0x10
        dev.replies = [bytes(corrupt), _Packet.encode(0x1234, b)]
        dev.default = _Packet.encode(0x1234, b)
        res = await asyncio.gather(lan.send(b"\xaa\x04one", retries=1),
                                   lan.send(b"\xaa\x05two", retries=1),
                                   return_exceptions=True)
        for r in res:
            if isinstance(r, BaseException):
                # unsynchronised sharing may fail in library-specific ways; it must not be
                # a cancellation/exit, and it must not hand out a bad frame (checked below)
                assert isinstance(r, Exception), repr(r)
            else:
                for fr in r:
                    assert fr in authentic and fr != a, "returned a frame that was never sent intact"
        dev.default = None
        dev.replies = []
        # settle: afterwards the object works again sequentially
        await asyncio.sleep(0.01)
        dev.replies = [_Packet.encode(0x1234, b)]
        for attempt in range(3):
            try:
                got = await lan.send(b"\xaa\x06again", retries=1)
                break
            except Exception:
                dev.replies = [_Packet.encode(0x1234, b)]
        else:
            raise AssertionError("object did not recover")
        assert all(fr in authentic for fr in got) and got[-1] == b, got

    lan._disconnect()
    await dev.stop()

    # 6. the same through a V3 session (V2 packet travels inside the encrypted payload)
    dev3 = FakeDeviceV3()
    await dev3.start()
    lan3 = LAN("127.0.0.1", dev3.port, 0x1234)
    await lan3.authenticate(dev3.TOKEN, dev3.KEY)
    for n in (0, 5, 31, 32, 47):
        frame = frame_of(n)
        dev3.replies = [_Packet.encode(0x1234, frame)]
        assert await lan3.send(b"\xaa\x07v3") == [frame]
    frame = frame_of(25)
    good = _Packet.encode(0x1234, frame)
    flipped = bytearray(good)
    flipped[50] ^= 0x04
    sig = bytearray(good)
    sig[-1] ^= 0x80
    for what, bad in (("v3 flip", bytes(flipped)), ("v3 sig", bytes(sig)), ("v3 trunc", good[:-7])):
        await expect_reject(lan3, dev3, bad, what)   # send() re-authenticates by itself next time
        dev3.replies = [good]
        assert await lan3.send(b"\xaa\x08v3") == [frame]
    lan3._disconnect()
    await dev3.stop()
    print("demo OK")


if __name__ == "__main__":
    asyncio.run(asyncio.wait_for(main(), 28))
    sys.exit(0)
