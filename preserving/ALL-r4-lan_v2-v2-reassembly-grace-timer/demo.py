"""Demo 1: how V2 responses that are whole, coalesced, split or cut short reach LAN.send().

Runs against a scripted V2 device on the loopback interface. Exits 0 when every outcome is one the
library is allowed to produce (works on the original code and with change.patch applied).
"""
import asyncio
import hashlib
import sys

from Crypto.Cipher import AES
from Crypto.Util import Padding

from msmart.lan import LAN, ProtocolError

SIGN_KEY = b"xhdiwjnchekd4d512chdjx5d8e4c394D2D7S"
ENC_KEY = hashlib.md5(SIGN_KEY).digest()
DEVICE_ID = 0x0000A1B2C3D4E5F6

REQUEST = bytes.fromhex("aa21ac8d000000000003418100ff03ff000200000000000000000000000003016971")
RESP_A = bytes.fromhex("aa22ac00000000000303c0014566000000300010045cff2070000000000000008bed19")
RESP_B = bytes.fromhex("aa23ac00000000000303c00145660000003c0010045c6800000000000000000000018426")


def v2_encode(frame: bytes, device_id: int = DEVICE_ID) -> bytes:
    """Independent V2 packet encoder."""
    payload = AES.new(ENC_KEY, AES.MODE_ECB).encrypt(Padding.pad(frame, 16))
    head = b"\x5a\x5a\x01\x11" + (40 + len(payload) + 16).to_bytes(2, "little") + b"\x20\x80"
    head += bytes(4) + bytes(8) + device_id.to_bytes(8, "little") + bytes(12)
    body = head + payload
    return body + hashlib.md5(body + SIGN_KEY).digest()


def v2_decode(packet: bytes):
    """Independent V2 packet decoder. Returns (device id, frame)."""
    assert packet[:2] == b"\x5a\x5a"
    size = int.from_bytes(packet[4:6], "little")
    assert size == len(packet), (size, len(packet))
    assert hashlib.md5(packet[:-16] + SIGN_KEY).digest() == packet[-16:]
    frame = Padding.unpad(AES.new(ENC_KEY, AES.MODE_ECB).decrypt(packet[40:-16]), 16)
    return int.from_bytes(packet[20:28], "little"), frame


class Device:
    """Scripted V2 device. Each request is answered by the next script entry: a list of
    (delay, bytes) segments, then optionally 'close'."""

    def __init__(self):
        self.script = []
        self.requests = []
        self.connections = 0

    async def handle(self, reader, writer):
        self.connections += 1
        try:
            while True:
                data = await reader.read(4096)
                if not data:
                    break
                self.requests.append(v2_decode(data))
                steps = self.script.pop(0) if self.script else []
                for step in steps:
                    if step == "close":
                        writer.close()
                        return
                    delay, segment = step
                    if delay:
                        await asyncio.sleep(delay)
                    writer.write(segment)
                    await writer.drain()
        except ConnectionError:
            pass
        finally:
            writer.close()


async def exchange(lan: LAN, retries: int = 1):
    try:
        return await lan.send(REQUEST, retries=retries)
    except ProtocolError as e:
        return ("protocol-error", type(e))
    except TimeoutError:
        return ("timeout",)


async def main() -> int:
    device = Device()
    server = await asyncio.start_server(device.handle, "127.0.0.1", 0)
    port = server.sockets[0].getsockname()[1]
    lan = LAN("127.0.0.1", port, DEVICE_ID)

    pkt_a, pkt_b = v2_encode(RESP_A), v2_encode(RESP_B)
    failures = []

    def check(name, ok, detail):
        if isinstance(detail, list):
            detail = [d.hex()[:24] + ".." for d in detail]
        print(f"{'ok  ' if ok else 'FAIL'} {name}: {detail}")
        if not ok:
            failures.append(name)

    # 1. One whole packet per segment
    device.script = [[(0, pkt_a)]]
    out = await exchange(lan)
    check("whole", out == [RESP_A], out)

    # 2. Packet cut short and nothing more: protocol error, then recovery
    for cut in (1, 5, 6, 40, 71, len(pkt_a) - 1):
        device.script = [[(0, pkt_a[:cut])], [(0, pkt_b)]]
        out = await exchange(lan)
        check(f"truncated[{cut}]", out == ("protocol-error", ProtocolError), out)
        out = await exchange(lan)
        check(f"after truncated[{cut}]", out == [RESP_B], out)

    # 3. Two packets in one segment: the first is always delivered, the second may be
    device.script = [[(0, pkt_a + pkt_b)]]
    out = await exchange(lan)
    check("coalesced", out in ([RESP_A], [RESP_A, RESP_B]), out)
    device.script = [[(0, pkt_b)]]
    out = await exchange(lan)
    check("after coalesced", isinstance(out, list) and out[-1] == RESP_B, out)

    # 4. One packet split over two segments 50 ms apart: either rejected or reassembled
    for cut in (1, 3, 6, 39, 60, len(pkt_a) - 1):
        device.script = [[(0, pkt_a[:cut]), (0.05, pkt_a[cut:])], [(0, pkt_b)]]
        out = await exchange(lan)
        check(f"split[{cut}]", out in ([RESP_A], ("protocol-error", ProtocolError)), out)
        await asyncio.sleep(0.1)
        out = await exchange(lan)
        if out != [RESP_B]:  # a left-over of the split may surface once as a protocol error
            out = await exchange(lan)
        check(f"after split[{cut}]", isinstance(out, list) and out[-1] in (RESP_A, RESP_B), out)
        device.script = []

    # 5. Garbage and a flipped bit: protocol error, never a frame
    flipped = bytearray(pkt_a)
    flipped[50] ^= 0x10
    bad_size = bytearray(pkt_a)
    bad_size[4] ^= 0x80
    for name, junk in (("garbage", b"\x00\x01\x02hello"), ("bit flip", bytes(flipped)),
                       ("size flip", bytes(bad_size)), ("marker only", b"\x5a\x5a")):
        device.script = [[(0, junk)], [(0, pkt_a)]]
        out = await exchange(lan)
        check(name, out == ("protocol-error", ProtocolError), out)
        out = await exchange(lan)
        check(f"after {name}", out == [RESP_A], out)

    # 6. Device answers and hangs up: the answer is used, next exchange reconnects
    device.script = [[(0, pkt_a), "close"], [(0, pkt_b)]]
    out = await exchange(lan)
    check("answer then close", out == [RESP_A], out)
    await asyncio.sleep(0.05)
    out = await exchange(lan)
    check("after close", out == [RESP_B], out)

    # Every request the device saw was a well formed V2 packet with our id and frame
    check("requests", all(r == (DEVICE_ID, REQUEST) for r in device.requests), len(device.requests))

    lan._disconnect()
    server.close()
    await server.wait_closed()
    await asyncio.sleep(0.3)
    return 1 if failures else 0


if __name__ == "__main__":
    sys.exit(asyncio.run(main()))
