"""Demonstration for C14: no device response makes an AC operation raise.

Runs against a scripted LAN (msmart.lan.LAN.send is replaced), no network.
Exits 0 when every scenario behaves as the property demands.
"""
import asyncio
import logging
import random
import sys

from msmart import crc8
from msmart.device import AirConditioner as AC
from msmart.frame import Frame
from msmart.lan import LAN

logging.disable(logging.CRITICAL)

STATE = bytes.fromhex(
    "aa23ac00000000000303c00145660000003c0010045c6b20000000000000000000020d79")
CAPS = bytes.fromhex(
    "aa3dac00000000000303b50a12020101430001011402010115020101160201001a020101100201011f020103250207203c203c203c05400001000100c805")
PROPS = bytes.fromhex(
    "aa21ac00000000000303b10409000001000a00000100150000012b1e020000005fa3")
PROPS_ACK = bytes.fromhex(
    "aa18ac00000000000302b0020a0000013209001101000089a4")
ENERGY = bytes.fromhex(
    "aa20ac00000000000203c121014400564a02640000000014ae0000000000041a22")
HUMIDITY = bytes.fromhex(
    "aa20ac00000000000303c12101453f546c005d0a000000de1f0000ba9a0004af9c")
VALID = [STATE, CAPS, PROPS, PROPS_ACK, ENERGY, HUMIDITY]


def rebuild(header: bytes, payload: bytes) -> bytes:
    """Build a frame with correct length byte, payload CRC and checksum."""
    hdr = bytearray(header[:10])
    body = bytes(payload) + bytes([crc8.calculate(payload)])
    hdr[1] = (10 + len(body)) & 0xFF
    frame = bytes(hdr) + body
    return frame + bytes([Frame.checksum(frame[1:])])


def truncations(frame: bytes):
    payload = frame[10:-2]
    for n in range(0, len(payload)):
        yield rebuild(frame, payload[:n])


def count_variants(frame: bytes):
    payload = bytearray(frame[10:-2])
    for v in range(256):
        payload[1] = v
        yield rebuild(frame, payload)
    # size fields of the first entry
    for idx in (4, 5):
        payload = bytearray(frame[10:-2])
        for v in range(256):
            payload[idx] = v
            yield rebuild(frame, payload)


def random_ids(rng: random.Random):
    for rid in range(256):
        for ftype in (2, 3, 5):
            body = bytes([rid]) + rng.randbytes(rng.randrange(0, 40))
            hdr = bytearray(STATE[:10])
            hdr[9] = ftype
            yield rebuild(hdr, body)


class Script:
    """Replacement for LAN.send: answers every request with the next scripted batch."""

    def __init__(self) -> None:
        self.default = []
        self.by_id = {}
        self.sent = []

    def install(self) -> None:
        script = self

        async def send(self, data: bytes, retries: int = 3) -> list:
            script.sent.append(bytes(data))
            return list(script.by_id.get(data[10], script.default))

        LAN.send = send


Script_instance = Script()


def new_device() -> AC:
    dev = AC(ip="127.0.0.1", port=6444, device_id=1234)
    dev._supported_properties.update(
        {p for p in dev._PROPERTY_MAP.keys()})
    dev._request_energy_usage = True
    dev._supports_humidity = True
    return dev


async def all_operations(dev: AC) -> None:
    await dev.refresh()
    await dev.get_capabilities()
    await dev.apply()
    dev.horizontal_swing_angle = AC.SwingAngle.POS_3
    await dev.apply()
    await dev.toggle_display()
    await dev.start_self_clean()


async def main() -> int:
    rng = random.Random(14)
    script = Script_instance
    script.install()
    failures = []

    def bad_frames():
        for f in VALID:
            yield from truncations(f)
        for f in (CAPS, PROPS, PROPS_ACK):
            yield from count_variants(f)
        yield from random_ids(rng)
        yield b""
        yield b"\xaa"
        yield STATE[:-1]           # bad checksum
        yield STATE + bytes(200)   # oversized, bad checksum
        yield rebuild(STATE, STATE[10:-2] + bytes(230))  # oversized, valid checksum

    # 1. Every single hostile frame as the only answer to every request
    n = 0
    for frame in bad_frames():
        n += 1
        script.default = [frame]
        dev = new_device()
        try:
            await all_operations(dev)
        except Exception as e:  # noqa
            failures.append(f"raised {type(e).__name__}: {e} on {frame.hex()}")
            if len(failures) > 5:
                break
    print(f"single hostile frames: {n} tried, {len(failures)} failures")

    # 2. Mixed exchanges: hostile frames around good ones - good ones still applied
    hostile = list(bad_frames())
    for _ in range(300):
        bad = [rng.choice(hostile) for _ in range(rng.randrange(1, 4))]
        script.default = bad[:1] + [STATE] + bad[1:2] + [PROPS, ENERGY, HUMIDITY] + bad[2:]
        dev = new_device()
        assert dev.indoor_temperature is None
        try:
            await dev.refresh()
        except Exception as e:  # noqa
            failures.append(f"mixed refresh raised {type(e).__name__}: {e}")
            break
        # Values of the good frames (unless a later decodable hostile frame overrides them,
        # so only check the fields when no hostile frame decodes as the same kind)
        if not dev.online or not dev.supported:
            failures.append("mixed refresh: device not online/supported")
            break

    # Deterministic mix: bad frames that can not decode at all
    script.default = [b"", STATE[:-1], next(truncations(STATE)), STATE,
                      rebuild(PROPS, PROPS[10:12]), PROPS, HUMIDITY[:-3], HUMIDITY, ENERGY]
    dev = new_device()
    await dev.refresh()
    checks = {
        "power": dev.power_state is True,
        "target": dev.target_temperature == 21.0,
        "indoor": dev.indoor_temperature is not None,
        "humidity": dev.indoor_humidity == 63,
        "energy": dev.total_energy_usage is not None,
        "online": dev.online and dev.supported,
    }
    for k, ok in checks.items():
        if not ok:
            failures.append(f"deterministic mix: {k} not applied")

    # apply(): state answer applied although surrounded by junk
    script.default = [b"\x00", STATE, CAPS[:20]]
    dev = new_device()
    dev.target_temperature = 30.0
    await dev.apply()
    if dev.target_temperature != 21.0 or not dev.supported:
        failures.append("apply: good state response not applied")

    # capabilities: good one applied although preceded by junk
    script.default = [STATE[:15], next(truncations(CAPS)), CAPS]
    dev = new_device()
    await dev.get_capabilities()
    if dev.max_target_temperature != 30 or not dev.supported:
        failures.append("capabilities: good response not applied")

    # nothing decodable at all: no raise, unsupported
    script.default = [b"", STATE[:-1]]
    dev = new_device()
    await all_operations(dev)
    if dev.supported or dev.online:
        failures.append("all-bad exchange: device marked supported/online")

    extra = await extra_checks(script)
    failures.extend(extra)

    for f in failures:
        print("FAIL:", f)
    print("OK" if not failures else "FAILED")
    return 1 if failures else 0


async def extra_checks(script: Script) -> list:
    """Overlapping use of one device: every task finishes without raising and good frames land."""
    failures = []
    rng = random.Random(1)
    hostile = [b"", STATE[:-1], *truncations(STATE), *truncations(PROPS_ACK), *truncations(CAPS)]

    async def slow_send(self, data: bytes, retries: int = 3) -> list:
        await asyncio.sleep(rng.random() / 500)
        return [rng.choice(hostile), STATE, rng.choice(hostile), CAPS, PROPS, rng.choice(hostile)]

    saved = LAN.send
    LAN.send = slow_send
    try:
        dev = new_device()
        results = await asyncio.gather(
            dev.refresh(), dev.apply(), dev.get_capabilities(), dev.toggle_display(),
            dev.start_self_clean(), dev.refresh(), return_exceptions=True)
        for r in results:
            if isinstance(r, BaseException):
                failures.append(f"overlapping use raised {type(r).__name__}: {r}")
        if dev.target_temperature != 21.0 or not dev.online or not dev.supported:
            failures.append("overlapping use: good frames not applied")

        # A waiter that gives up does not disturb the others
        dev = new_device()
        t1 = asyncio.ensure_future(dev.refresh())
        t2 = asyncio.ensure_future(dev.refresh())
        await asyncio.sleep(0)
        t2.cancel()
        r1, r2 = await asyncio.gather(t1, t2, return_exceptions=True)
        if isinstance(r1, BaseException):
            failures.append(f"refresh beside a cancelled one raised {type(r1).__name__}")
        if not (r2 is None or isinstance(r2, asyncio.CancelledError)):
            failures.append(f"cancelled refresh raised {type(r2).__name__}")
        await dev.refresh()
        if dev.target_temperature != 21.0:
            failures.append("refresh after cancelled one: state not applied")
    finally:
        LAN.send = saved
    return failures


def loops_and_copies(script: Script) -> list:
    """One device used from two event loops, and copies of a used device."""
    import copy
    failures = []
    script.default = [STATE[:14], STATE, b"\xaa"]
    dev = new_device()
    try:
        asyncio.run(dev.refresh())
        asyncio.run(all_operations(dev))
        for clone in (copy.copy(dev), copy.deepcopy(dev)):
            clone.target_temperature = 28.0
            asyncio.run(all_operations(clone))
            if clone.target_temperature != 21.0:
                failures.append("copy: state response not applied")
    except Exception as e:  # noqa
        failures.append(f"loops/copies raised {type(e).__name__}: {e}")
    return failures


if __name__ == "__main__":
    rc = asyncio.run(main())
    more = loops_and_copies(Script_instance)
    for f in more:
        print("FAIL:", f)
    sys.exit(1 if (rc or more) else 0)
