import asyncio
import logging
import struct
import sys
import time

import msmart.crc8 as crc8
from msmart.device import AirConditioner as AC
from msmart.device.AC.command import PropertyId
from msmart.frame import Frame
from msmart.lan import _Packet

# --------------------------------------------------------------------------------------
# A small V2 air conditioner on 127.0.0.1 (real TCP, no network): keeps a state, answers
# state / energy / humidity / capability / property queries, executes state and property
# writes and records every command frame it receives together with its arrival time.
# --------------------------------------------------------------------------------------


def _frame(body: bytes, frame_type: int = 0x03) -> bytes:
    body = bytes(body)
    body += bytes([crc8.calculate(body)])
    head = bytearray(10)
    head[0] = 0xAA
    head[1] = 10 + len(body)
    head[2] = 0xAC
    head[9] = frame_type
    frame = bytes(head) + body
    return frame + bytes([(~sum(frame[1:]) + 1) & 0xFF])


def check_frame(frame: bytes) -> None:
    """What a spec-conforming device parser checks (C12)."""
    assert frame[0] == 0xAA, "start byte"
    assert frame[1] == len(frame) - 1, "length byte"
    assert frame[2] == 0xAC, "appliance type"
    assert frame[9] in (0x02, 0x03), "frame type"
    assert sum(frame[1:]) & 0xFF == 0, "checksum"
    assert crc8.calculate(frame[10:-2]) == frame[-2], "crc8"


class FakeAC:
    def __init__(self) -> None:
        self.frames = []          # (arrival loop time, frame bytes)
        self.replied = []         # loop time at which each reply was written
        self.mute = lambda frame: False   # predicate: do not answer this frame
        self.connections = 0
        self.state = dict(power=False, temp=24.0, mode=2, fan=60, swing=0, eco=False, turbo=False,
                          sleep=False, fahrenheit=False, freeze=False, follow_me=False, purifier=False,
                          humidity=45, aux=False, indep_aux=False, display=True)
        self.props = {0x0009: 0, 0x000A: 0, 0x0018: 0, 0x0039: 0, 0x0042: 1, 0x0043: 1, 0x0048: 100,
                      0x00E3: 0, 0x001A: 0}
        self.prop_writes = []     # list of {id: bytes} per property write frame
        self.server = None
        self.port = 0

    async def start(self) -> "FakeAC":
        self.server = await asyncio.start_server(self._serve, "127.0.0.1", 0)
        self.port = self.server.sockets[0].getsockname()[1]
        return self

    async def stop(self) -> None:
        self.server.close()
        await self.server.wait_closed()

    # ---- wire ----
    async def _serve(self, reader, writer) -> None:
        self.connections += 1
        buf = b""
        loop = asyncio.get_running_loop()
        try:
            while True:
                data = await reader.read(4096)
                if not data:
                    break
                buf += data
                while len(buf) >= 6:
                    assert buf[:2] == b"\x5a\x5a", "V2 packet expected"
                    size = int.from_bytes(buf[4:6], "little")
                    if len(buf) < size:
                        break
                    packet, buf = buf[:size], buf[size:]
                    frame = _Packet.decode(packet)
                    self.frames.append((loop.time(), frame))
                    if self.mute(frame):
                        continue
                    for reply in self._execute(frame):
                        writer.write(_Packet.encode(1234, reply))
                    self.replied.append(loop.time())
        except (ConnectionError, asyncio.CancelledError):
            pass
        finally:
            writer.close()

    # ---- behaviour ----
    def _state_body(self) -> bytes:
        s = self.state
        b = bytearray(24)
        b[0] = 0xC0
        b[1] = 0x01 if s["power"] else 0
        whole = int(s["temp"])
        half = 0x10 if s["temp"] != whole else 0
        if 17 <= whole <= 30:
            b[2] = ((whole - 16) & 0xF) | half | (s["mode"] << 5)
        else:
            b[2] = half | (s["mode"] << 5)
            b[13] = (whole - 12) & 0x1F
        b[3] = s["fan"]
        b[7] = 0x30 | s["swing"]
        b[8] = (0x20 if s["turbo"] else 0) | (0x80 if s["follow_me"] else 0) | (0x40 if s["indep_aux"] else 0)
        b[9] = (0x10 if s["eco"] else 0) | (0x20 if s["purifier"] else 0) | (0x08 if s["aux"] else 0)
        b[10] = (0x01 if s["sleep"] else 0) | (0x02 if s["turbo"] else 0) | (0x04 if s["fahrenheit"] else 0)
        b[11] = 22 * 2 + 50
        b[12] = 30 * 2 + 50
        b[14] = 0x00 if s["display"] else 0x70
        b[19] = s["humidity"]
        b[21] = 0x80 if s["freeze"] else 0
        return bytes(b)

    def _execute(self, frame: bytes) -> list:
        body = frame[10:-2]
        kind = body[0]
        if kind == 0x40:  # state write
            s = self.state
            s["power"] = bool(body[1] & 0x01)
            alt = body[18] & 0x1F
            s["temp"] = float(alt + 12 if alt else (body[2] & 0xF) + 16) + (0.5 if body[2] & 0x10 else 0.0)
            s["mode"] = body[2] >> 5
            s["fan"] = body[3] & 0x7F
            s["swing"] = body[7] & 0x0F
            s["turbo"] = bool(body[8] & 0x20) or bool(body[10] & 0x02)
            s["follow_me"] = bool(body[8] & 0x80)
            s["eco"] = bool(body[9] & 0x80)
            s["purifier"] = bool(body[9] & 0x20)
            s["aux"] = bool(body[9] & 0x08)
            s["sleep"] = bool(body[10] & 0x01)
            s["fahrenheit"] = bool(body[10] & 0x04)
            s["humidity"] = body[19] & 0x7F
            s["freeze"] = bool(body[21] & 0x80)
            s["indep_aux"] = bool(body[22] & 0x08)
            return [_frame(self._state_body(), 0x02)]
        if kind == 0x41:
            if body[1] == 0x21 and body[3] == 0x44:  # energy
                b = bytearray(22)
                b[0], b[1], b[2], b[3] = 0xC1, 0x21, 0x01, 0x44
                b[4:8] = bytes([0x00, 0x01, 0x23, 0x45])
                b[16:19] = bytes([0x00, 0x12, 0x30])
                return [_frame(b)]
            if body[1] == 0x21 and body[3] == 0x45:  # humidity
                b = bytearray(22)
                b[0], b[1], b[2], b[3] = 0xC1, 0x21, 0x01, 0x45
                b[4] = 52
                return [_frame(b)]
            if body[1] & 0x80:  # state query
                return [_frame(self._state_body())]
            # display toggle
            self.state["display"] = not self.state["display"]
            return [_frame(self._state_body())]
        if kind == 0xB5:  # capabilities: swing angles, breeze control, 5 level rate select, ieco, energy, humidity
            recs = [(0x0009, 1), (0x000A, 1), (0x0043, 1), (0x0048, 3), (0x00E3, 1), (0x0039, 1),
                    (0x0216, 2), (0x021F, 1)]
            b = bytearray([0xB5, len(recs)])
            for cid, val in recs:
                b += struct.pack("<H", cid) + bytes([1, val])
            return [_frame(b)]
        if kind == 0xB1:  # property query
            count = body[1]
            ids = struct.unpack("<" + "H" * count, body[2:2 + 2 * count])
            b = bytearray([0xB1, count])
            for pid in ids:
                b += struct.pack("<H", pid) + bytes([0x00]) + self._prop_value(pid)
            return [_frame(b)]
        if kind == 0xB0:  # property write
            count = body[1]
            rest = body[2:]
            written = {}
            b = bytearray([0xB0, count])
            for _ in range(count):
                (pid,) = struct.unpack("<H", rest[0:2])
                size = rest[2]
                value = bytes(rest[3:3 + size])
                rest = rest[3 + size:]
                written[pid] = value
                if pid == 0x00E3:
                    self.props[pid] = value[2]
                else:
                    self.props[pid] = value[0]
                b += struct.pack("<H", pid) + bytes([0x00]) + self._prop_value(pid)
            self.prop_writes.append(written)
            return [_frame(b, 0x02)]
        return []

    def _prop_value(self, pid: int) -> bytes:
        v = self.props.get(pid, 0)
        if pid == 0x00E3:
            return bytes([2, 1, v])
        return bytes([1, v])


def message_ids(frames) -> list:
    return [f[-3] for _t, f in frames]


def assert_consecutive(ids) -> None:
    for a, b in zip(ids, ids[1:]):
        assert b == (a + 1) & 0xFF, f"message ids not consecutive: {ids}"


def kinds(frames) -> list:
    out = []
    for _t, f in frames:
        body = f[10:-2]
        if body[0] == 0x41:
            if body[1] == 0x21:
                out.append("energy" if body[3] == 0x44 else "humidity")
            elif body[1] & 0x80:
                out.append("state?")
            else:
                out.append("display")
        else:
            out.append({0x40: "state!", 0xB5: "caps?", 0xB1: "props?", 0xB0: "props!"}.get(body[0], hex(body[0])))
    return out


async def new_device(fake: FakeAC) -> AC:
    return AC(ip="127.0.0.1", port=fake.port, device_id=1234)

# --------------------------------------------------------------------------------------
# Demo 1: timing of consecutive commands to one unit.
# --------------------------------------------------------------------------------------


def gaps(fake: FakeAC) -> list:
    """Time from each reply to the arrival of the next command."""
    out = []
    for (t, _f), r in zip(fake.frames[1:], fake.replied):
        out.append(round(t - r, 4))
    return out


async def scenario_refresh_and_apply() -> None:
    fake = await FakeAC().start()
    fake.state.update(power=True, temp=21.5, mode=4, fan=80, eco=True)
    dev = await new_device(fake)

    await dev.get_capabilities()
    t0 = time.monotonic()
    await dev.refresh()
    elapsed = time.monotonic() - t0

    assert dev.online and dev.supported
    assert dev.power_state is True and dev.target_temperature == 21.5
    assert dev.operational_mode == AC.OperationalMode.HEAT and dev.fan_speed == AC.FanSpeed.HIGH
    assert dev.eco is True and dev.indoor_humidity == 52 and dev.total_energy_usage is not None
    k = kinds(fake.frames)
    assert k[0] == "caps?" and sorted(k[1:]) == ["energy", "humidity", "props?", "state?"], k
    for _t, f in fake.frames:
        check_frame(f)
    assert_consecutive(message_ids(fake.frames))
    assert elapsed < 3.0, elapsed
    print("refresh: %d commands in %.3f s, reply->next command gaps %s" % (len(k) - 1, elapsed, gaps(fake)))

    # apply with one pending property: one state write, one property write with the buzzer
    n = len(fake.frames)
    dev.target_temperature = 18.5
    dev.power_state = True
    dev.operational_mode = AC.OperationalMode.COOL
    dev.vertical_swing_angle = AC.SwingAngle.POS_3
    dev.beep = True
    await dev.apply()
    sent = fake.frames[n:]
    assert sorted(kinds(sent)) == ["props!", "state!"], kinds(sent)
    assert fake.state["temp"] == 18.5 and fake.state["mode"] == 2
    assert len(fake.prop_writes) == 1 and fake.prop_writes[0] == {0x0009: b"\x32", 0x001A: b"\x01"}, fake.prop_writes
    assert_consecutive(message_ids(fake.frames))

    # back-to-back refreshes stay cheap
    t0 = time.monotonic()
    for _ in range(5):
        await dev.refresh()
        assert dev.online and dev.vertical_swing_angle == AC.SwingAngle.POS_3
    elapsed = time.monotonic() - t0
    assert elapsed < 5.0, elapsed
    assert_consecutive(message_ids(fake.frames))
    print("5 refreshes (20 commands) in %.3f s; smallest gap %.4f s" % (elapsed, min(gaps(fake))))
    assert fake.connections == 1, fake.connections
    dev._lan._disconnect()
    await fake.stop()


async def scenario_cancel_then_recover() -> None:
    fake = await FakeAC().start()
    dev = await new_device(fake)
    await dev.refresh()
    assert dev.online

    # Cancel a refresh right after it was started (possibly while it waits to send)
    task = asyncio.ensure_future(dev.refresh())
    await asyncio.sleep(0.01)
    task.cancel()
    try:
        await task
    except (asyncio.CancelledError, TimeoutError):
        pass

    fake.state["power"] = True
    await dev.refresh()
    assert dev.online and dev.power_state is True
    for _t, f in fake.frames:
        check_frame(f)
    print("cancel then refresh: ok, %d commands seen" % len(fake.frames))
    dev._lan._disconnect()
    await fake.stop()


async def scenario_two_units() -> None:
    a, b = await FakeAC().start(), await FakeAC().start()
    a.state["temp"], b.state["temp"] = 19.0, 27.0
    da, db = await new_device(a), await new_device(b)
    for _ in range(3):
        await asyncio.gather(da.refresh(), db.refresh())
    assert da.target_temperature == 19.0 and db.target_temperature == 27.0
    assert len(a.frames) == 3 and len(b.frames) == 3
    da._lan._disconnect()
    db._lan._disconnect()
    await a.stop()
    await b.stop()
    print("two units refreshed concurrently: ok")


def scenario_second_loop() -> None:
    """The same object used under two successive event loops."""
    holder = {}

    async def first() -> None:
        holder["fake"] = None
        fake = await FakeAC().start()
        dev = await new_device(fake)
        await dev.refresh()
        assert dev.online
        dev._lan._disconnect()
        await fake.stop()
        holder["dev"] = dev

    async def second() -> None:
        fake = await FakeAC().start()
        dev = holder["dev"]
        dev._lan._port = fake.port
        dev._port = fake.port
        fake.state["fan"] = 40
        await dev.refresh()
        await dev.refresh()
        assert dev.online and dev.fan_speed == AC.FanSpeed.LOW
        dev._lan._disconnect()
        await fake.stop()

    asyncio.run(first())
    asyncio.run(second())
    print("same device under a second event loop: ok")


def main() -> int:
    logging.basicConfig(level=logging.CRITICAL)
    asyncio.run(scenario_refresh_and_apply())
    asyncio.run(scenario_cancel_then_recover())
    asyncio.run(scenario_two_units())
    scenario_second_loop()
    print("demo 1 OK")
    return 0


if __name__ == "__main__":
    sys.exit(main())
