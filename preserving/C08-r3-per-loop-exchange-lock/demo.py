"""Demonstration for C08 (retry / timeout / recovery contract of an exchange).

Standalone: runs a simulated V2/V3 device on 127.0.0.1 and drives msmart.lan.LAN /
msmart.device.AirConditioner against it.  Exits 0 when every expectation holds.

The expectations only use what the property states:
  * a request is transmitted >= 1 and <= `retries` times,
  * retransmission stops as soon as a response arrives,
  * exhausting the retries raises TimeoutError; device level -> no responses / offline,
  * after a failed exchange the next exchange with a prompt device succeeds (V3: re-auth).
"""
import asyncio
import copy
import logging
import struct
import sys
import time
from hashlib import sha256

from Crypto.Util.strxor import strxor

from msmart.device import AirConditioner as AC
from msmart.lan import LAN, ProtocolError, Security, _Packet

logging.basicConfig(level=logging.CRITICAL)

STATE_RESPONSE = bytes.fromhex(
    "aa23ac00000000000303c00145660000003c0010045c6b20000000000000000000020d79")
REQUEST = bytes.fromhex("aa20ac00000000000003418100ff03ff000200000000000000000000000003cd9c")
TOKEN = bytes(range(64))
KEY = bytes(range(32, 64))

FAILS = []


def check(cond, what):
    if not cond:
        FAILS.append(what)
        print("FAIL:", what)
    else:
        print("ok:  ", what)


class SimDevice:
    """Scriptable device. One script entry is consumed per request transmission seen."""

    def __init__(self, v3=False):
        self.v3 = v3
        self.script = []          # actions; when exhausted the device answers promptly
        self.requests = []        # (connection number, frame) per request transmission
        self.handshakes = 0
        self.connections = 0
        self.server = None
        self.port = None
        self._writers = []

    async def start(self, port=0):
        self.server = await asyncio.start_server(self._handle, "127.0.0.1", port)
        self.port = self.server.sockets[0].getsockname()[1]
        return self

    async def stop(self):
        self.server.close()
        for w in self._writers:
            w.close()
        await self.server.wait_closed()

    def mark(self):
        return len(self.requests)

    # -- wire helpers ---------------------------------------------------
    async def _read_packet(self, reader):
        head = await reader.readexactly(6)
        if self.v3:
            size = int.from_bytes(head[2:4], "big") + 8
        else:
            size = int.from_bytes(head[4:6], "little")
        return head + await reader.readexactly(size - 6)

    def _v3_encode(self, local_key, packet_id, data, ptype=3):
        remainder = (len(data) + 2) % 16
        pad = 16 - remainder if remainder else 0
        header = b"\x83\x70" + (len(data) + pad + 32).to_bytes(2, "big") + b"\x20" + bytes([pad << 4 | ptype])
        payload = packet_id.to_bytes(2, "big") + data + bytes(pad)
        return header + Security.encrypt_aes_cbc(local_key, payload) + sha256(header + payload).digest()

    def _v3_decode(self, local_key, packet):
        header, body = packet[:6], packet[6:-32]
        plain = Security.decrypt_aes_cbc(local_key, body)
        assert sha256(header + plain).digest() == packet[-32:]
        pad = header[5] >> 4
        return plain[2:len(plain) - pad]

    async def _handle(self, reader, writer):
        self.connections += 1
        conn = self.connections
        self._writers.append(writer)
        local_key = None
        count = 0
        try:
            while True:
                packet = await self._read_packet(reader)
                if self.v3 and (packet[5] & 0xF) == 0:
                    # Handshake request: answer with an encrypted random block + digest
                    self.handshakes += 1
                    plain = bytes((conn * 7 + i) & 0xFF for i in range(32))
                    data = Security.encrypt_aes_cbc(KEY, plain) + sha256(plain).digest()
                    writer.write(b"\x83\x70" + len(data).to_bytes(2, "big") + b"\x20\x01" + packet[6:8] + data)
                    local_key = strxor(plain, KEY)
                    continue

                v2 = self._v3_decode(local_key, packet) if self.v3 else packet
                frame = _Packet.decode(v2)
                self.requests.append((conn, frame))
                action = self.script.pop(0) if self.script else "answer"
                reply = _Packet.encode(1234, STATE_RESPONSE)
                if self.v3:
                    count += 1
                    reply = self._v3_encode(local_key, count, reply)

                if action == "answer":
                    writer.write(reply)
                elif action == "drop":
                    pass
                elif isinstance(action, tuple) and action[0] == "delay":
                    asyncio.get_running_loop().call_later(action[1], writer.write, reply)
                elif action == "garbage":
                    if self.v3:
                        writer.write(b"\x83\x70\x00\x08\x21\x03" + bytes(10))   # bad magic byte
                    else:
                        writer.write(bytes(range(1, 60)))
                elif action == "error":
                    writer.write(b"\x83\x70\x00\x08\x20\x0f" + bytes(10))
                elif action == "close":
                    writer.close()
                    return
                elif action == "reset":
                    sock = writer.get_extra_info("socket")
                    sock.setsockopt(1, 13, struct.pack("ii", 1, 0))  # SO_LINGER 0 -> RST
                    writer.transport.abort()
                    return
        except (asyncio.IncompleteReadError, ConnectionError):
            pass
        finally:
            writer.close()


async def new_lan(dev):
    lan = LAN("127.0.0.1", dev.port, 1234)
    if dev.v3:
        await lan.authenticate(TOKEN, KEY)
    return lan


async def exchange(lan, dev, retries=3):
    """Run one exchange. Returns (outcome, number of transmissions seen by the device)."""
    before = dev.mark()
    try:
        responses = await lan.send(REQUEST, retries=retries)
        outcome = "ok" if STATE_RESPONSE in responses else "empty"
    except ProtocolError:
        outcome = "protocol"
    except TimeoutError:
        outcome = "timeout"
    n = dev.mark() - before
    # Content of every transmission is the request
    assert all(f == REQUEST for _c, f in dev.requests[before:])
    return outcome, n


async def scenario_retry_counts(v3):
    tag = "V3" if v3 else "V2"
    dev = await SimDevice(v3).start()
    lan = await new_lan(dev)

    # second transmission answered -> exactly 2 transmissions, success
    dev.script = ["drop", "answer"]
    check(await exchange(lan, dev, 3) == ("ok", 2), f"{tag} drop,answer with retries=3 -> ok after 2 transmissions")

    # late answer (1.2 s < 2 s) -> no retransmission
    dev.script = [("delay", 1.2)]
    check(await exchange(lan, dev, 4) == ("ok", 1), f"{tag} answer after 1.2 s -> 1 transmission")

    # budget exhausted -> timeout with exactly `retries` transmissions, then recovery
    hs = dev.handshakes
    dev.script = ["drop", "drop"]
    check(await exchange(lan, dev, 2) == ("timeout", 2), f"{tag} all dropped, retries=2 -> TimeoutError after 2 transmissions")
    check(await exchange(lan, dev, 3) == ("ok", 1), f"{tag} exchange after timeout succeeds with 1 transmission")
    if v3:
        check(dev.handshakes > hs, "V3 re-authenticated after the timeout")
    await dev.stop()


async def scenario_faults(v3):
    tag = "V3" if v3 else "V2"
    dev = await SimDevice(v3).start()
    lan = await new_lan(dev)
    faults = ["garbage", "close", "reset"] + (["error"] if v3 else [])
    for fault in faults:
        dev.script = [fault]
        outcome, n = await exchange(lan, dev, 2)
        check(1 <= n <= 2, f"{tag} {fault}: between 1 and 2 transmissions ({n})")
        if fault in ("garbage", "error"):
            check(outcome == "protocol", f"{tag} {fault}: ProtocolError")
        check(await exchange(lan, dev, 3) == ("ok", 1), f"{tag} exchange after {fault} ({outcome}) succeeds")

    # two consecutive faults then recovery
    dev.script = ["garbage"]
    await exchange(lan, dev, 1)
    dev.script = ["close"]
    await exchange(lan, dev, 1)
    check(await exchange(lan, dev, 1) == ("ok", 1), f"{tag} exchange after garbage+close succeeds with retries=1")
    await dev.stop()


async def scenario_refused_and_cancel():
    # refused connect -> ProtocolError, then a device appears on that port
    probe = await SimDevice().start()
    port = probe.port
    await probe.stop()
    lan = LAN("127.0.0.1", port, 1234)
    try:
        await lan.send(REQUEST)
        check(False, "refused connect raises")
    except ProtocolError:
        check(True, "refused connect -> ProtocolError")
    dev = await SimDevice().start(port)
    check(await exchange(lan, dev, 3) == ("ok", 1), "exchange after refused connect succeeds")

    # cancellation while waiting for the response
    dev.script = ["drop"]
    task = asyncio.ensure_future(lan.send(REQUEST))
    await asyncio.sleep(0.3)
    task.cancel()
    try:
        await task
        check(False, "cancelled exchange raises")
    except (TimeoutError, asyncio.CancelledError):
        check(True, "cancelled exchange raises TimeoutError/CancelledError")
    check(await exchange(lan, dev, 3) == ("ok", 1), "exchange after cancellation succeeds")
    await dev.stop()


async def scenario_device_level():
    dev = await SimDevice().start()
    ac = AC(ip="127.0.0.1", port=dev.port, device_id=1234)
    await ac.refresh()
    check(ac.online and ac.target_temperature == 21.0, "refresh with prompt device -> online")
    dev.script = ["drop"] * 3
    before = dev.mark()
    await ac.refresh()
    check(not ac.online and dev.mark() - before == 3, "refresh with silent device -> offline after 3 transmissions")
    await ac.refresh()
    check(ac.online, "refresh after timeout -> online again")
    dev.script = ["garbage"]
    await ac.refresh()
    check(not ac.online, "refresh with garbage -> offline")
    await ac.refresh()
    check(ac.online, "refresh after garbage -> online again")
    await dev.stop()


async def scenario_overlap_and_copies():
    """Two tasks on one object, copies of an idle object, a second event loop."""
    dev = await SimDevice().start()
    lan = LAN("127.0.0.1", dev.port, 1234)
    clone = copy.deepcopy(lan)
    check(await exchange(lan, dev, 3) == ("ok", 1), "first exchange on a fresh object")
    before = dev.mark()
    results = await asyncio.gather(exchange(lan, dev, 3), exchange(lan, dev, 3))
    check([r[0] for r in results] == ["ok", "ok"] and 2 <= dev.mark() - before <= 6,
          "two overlapping exchanges on one connected object both succeed within their budgets")
    print("info: overlapping exchanges used", dev.mark() - before, "transmissions")
    check((await exchange(clone, dev, 3))[0] == "ok", "deep copy of an idle LAN object is usable")

    # a failed exchange overlapping with a second one, then recovery
    dev.script = ["drop", "drop"]
    results = await asyncio.gather(exchange(lan, dev, 1), exchange(lan, dev, 1))
    check(all(r[0] in ("timeout", "protocol", "ok") for r in results), "overlapping failing exchanges end")
    check(await exchange(lan, dev, 3) == ("ok", 1), "exchange after overlapping failures succeeds")

    # copy taken after a failure is usable too
    dev.script = ["drop"]
    await exchange(lan, dev, 1)
    clone2 = copy.copy(lan)
    check((await exchange(clone2, dev, 3))[0] == "ok", "copy taken after a failed exchange is usable")
    check((await exchange(lan, dev, 3))[0] == "ok", "original still usable")
    dev.script = ["drop"]
    await exchange(lan, dev, 1)
    await dev.stop()
    return lan, dev.port


async def second_loop(lan, port):
    dev = await SimDevice().start(port)
    check(await exchange(lan, dev, 3) == ("ok", 1), "object used from a second event loop succeeds")
    results = await asyncio.gather(exchange(lan, dev, 3), exchange(lan, dev, 3))
    check([r[0] for r in results] == ["ok", "ok"], "second loop: overlapping exchanges succeed")
    dev.script = ["drop"]
    await exchange(lan, dev, 1)
    check(await exchange(lan, dev, 2) == ("ok", 1), "second loop: exchange after timeout succeeds")
    await dev.stop()


async def main():
    results = await asyncio.gather(
        scenario_retry_counts(False),
        scenario_retry_counts(True),
        scenario_faults(False),
        scenario_faults(True),
        scenario_refused_and_cancel(),
        scenario_device_level(),
        scenario_overlap_and_copies(),
    )
    return results[-1]


if __name__ == "__main__":
    start = time.monotonic()
    lan, port = asyncio.run(main())
    asyncio.run(second_loop(lan, port))
    print(f"elapsed {time.monotonic() - start:.1f} s, {len(FAILS)} failures")
    sys.exit(1 if FAILS else 0)
