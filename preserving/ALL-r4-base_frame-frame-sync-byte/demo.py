"""Demo 1: every emitted command is a well-formed frame (independent parser), whatever the reserved header bytes hold."""
import sys

from msmart.const import DeviceType, FrameType
from msmart.device.AC.command import (Command, GetCapabilitiesCommand,
                                      GetEnergyUsageCommand,
                                      GetHumidityCommand,
                                      GetPropertiesCommand, GetStateCommand,
                                      PropertyId, Response,
                                      SetPropertiesCommand, SetStateCommand,
                                      StateResponse, ToggleDisplayCommand)
from msmart.frame import Frame
from msmart.lan import _Packet


def crc8_maxim(data: bytes) -> int:
    """Bitwise CRC-8/MAXIM (poly 0x31 reflected = 0x8C), independent of msmart.crc8."""
    crc = 0
    for b in data:
        crc ^= b
        for _ in range(8):
            crc = (crc >> 1) ^ 0x8C if crc & 1 else crc >> 1
    return crc


def device_parser(frame: bytes, expected_type: int) -> tuple[int, bytes]:
    """What a spec-conforming appliance parser requires. Returns (message id, body without id/crc)."""
    assert frame[0] == 0xAA, "start byte"
    assert frame[1] == len(frame) - 1, "length byte"
    assert frame[2] == 0xAC, "appliance type"
    assert frame[9] == expected_type, "frame type"
    assert (sum(frame[1:]) & 0xFF) == 0, "two's complement checksum"
    body = frame[10:-1]
    assert crc8_maxim(body[:-1]) == body[-1], "body CRC-8"
    # The serial protocol's sync byte is either left clear or is length ^ type
    assert frame[3] in (0x00, frame[1] ^ frame[2]), "frame sync byte"
    assert frame[4:8] == bytes(4), "reserved bytes"
    return body[-2], body[:-2]


def main() -> int:
    cmds = []
    cmds.append((GetStateCommand(), FrameType.QUERY))
    cmds.append((GetEnergyUsageCommand(), FrameType.QUERY))
    cmds.append((GetHumidityCommand(), FrameType.QUERY))
    cmds.append((GetCapabilitiesCommand(), FrameType.QUERY))
    cmds.append((GetCapabilitiesCommand(True), FrameType.QUERY))
    cmds.append((ToggleDisplayCommand(), FrameType.QUERY))
    cmds.append((GetPropertiesCommand(
        [PropertyId.SWING_UD_ANGLE, PropertyId.RATE_SELECT]), FrameType.QUERY))
    cmds.append((SetPropertiesCommand(
        {PropertyId.SWING_UD_ANGLE: 25, PropertyId.BUZZER: True}), FrameType.CONTROL))
    for t in (13.0, 17.5, 24.0, 30.5, 43.0):
        c = SetStateCommand()
        c.target_temperature = t
        c.power_on = True
        c.operational_mode = 2
        c.fan_speed = 60
        cmds.append((c, FrameType.CONTROL))

    # 1. Well-formed frames, ids advancing by one modulo 256 for > 256 commands
    last_id = None
    count = 0
    for _round in range(25):
        for cmd, ftype in cmds:
            frame = cmd.tobytes()
            msg_id, _body = device_parser(frame, ftype)
            if last_id is not None:
                assert msg_id == (last_id + 1) & 0xFF, (last_id, msg_id)
            last_id = msg_id
            count += 1

            # The library's own validator accepts what it emits
            with memoryview(frame) as mv:
                Frame.validate(mv)

            # The frame survives the V2 packet codec unchanged
            assert _Packet.decode(_Packet.encode(0x112233445566, frame)) == frame
    assert count > 256

    # 2. Bare frames of every body length are well formed too
    for n in range(0, 245):
        f = Frame(DeviceType.AIR_CONDITIONER, FrameType.CONTROL).tobytes(bytes(range(n)))
        assert f[0] == 0xAA and f[1] == len(f) - 1 and (sum(f[1:]) & 0xFF) == 0
        assert f[10:-1] == bytes(range(n))

    # 3. Body of a control command is independent of the header
    a = SetStateCommand()
    a.target_temperature = 21.5
    b = SetStateCommand()
    b.target_temperature = 21.5
    assert a.tobytes()[10:-3] == b.tobytes()[10:-3]

    # 4. Responses as real devices send them (header bytes 3-7 clear) are still decoded
    resp = Response.construct(bytes.fromhex(
        "aa23ac00000000000303c00145660000003c0010045c6b20000000000000000000020d79"))
    assert isinstance(resp, StateResponse)
    assert resp.power_on and resp.target_temperature == 21.0

    # ... and so is a response carrying a sync byte
    raw = bytearray.fromhex(
        "aa23ac00000000000303c00145660000003c0010045c6b20000000000000000000020d79")
    raw[3] = raw[1] ^ raw[2]
    raw[-1] = (-sum(raw[1:-1])) & 0xFF
    resp2 = Response.construct(bytes(raw))
    assert isinstance(resp2, StateResponse) and resp2.target_temperature == 21.0

    print("demo1 ok: %d frames checked, last id %d" % (count, last_id))
    return 0


if __name__ == "__main__":
    sys.exit(main())
