"""Demo for change 3 (send-clock-and-quiet-warnings): diagnostics and clocks don't touch the encoding.

Runs a simulated V2 unit on 127.0.0.1 with DEBUG logging captured (so every lazily formatted
log argument is rendered), a wall clock that jumps around, and a unit that claims to support
almost nothing (so apply() complains on every call).  Every 0x40 body is decoded with an
independent decoder of the vendor bit layout and must equal the requested state.
Exits 0 on success.
"""
import asyncio
import itertools
import logging
import random
import sys
import time
from unittest.mock import patch

import msmart.crc8 as crc8
from msmart.device import AirConditioner as AC
from msmart.frame import Frame
from msmart.lan import _Packet


FIELDS = ("power", "mode", "temp", "fan", "swing", "eco", "turbo", "sleep", "fahrenheit",
          "freeze", "follow_me", "purifier", "humidity", "aux", "beep")


def vendor_decode(b: bytes) -> dict:
    """Decode a 0x40 control body (vendor layout, linear alternate temperature)."""
    assert b[0] == 0x40 and len(b) == 26, b.hex()
    assert crc8.calculate(b[:-1]) == b[-1]
    assert b[1] & 0x02, "client mode: mobile"
    alt = b[18] & 0x1F
    temp = (alt + 12) if alt else (b[2] & 0x0F) + 16
    temp += 0.5 if b[2] & 0x10 else 0.0
    assert bool(b[8] & 0x20) == bool(b[10] & 0x02), "both turbo bits agree"
    aux = 2 if b[22] & 0x08 else (1 if b[9] & 0x08 else 0)
    assert not (b[22] & 0x08 and b[9] & 0x08)
    return {
        "power": bool(b[1] & 0x01), "beep": bool(b[1] & 0x40),
        "mode": b[2] >> 5, "temp": temp, "fan": b[3] & 0x7F, "swing": b[7] & 0x0F,
        "turbo": bool(b[8] & 0x20), "follow_me": bool(b[8] & 0x80),
        "eco": bool(b[9] & 0x80), "purifier": bool(b[9] & 0x20),
        "sleep": bool(b[10] & 0x01), "fahrenheit": bool(b[10] & 0x04),
        "humidity": b[19] & 0x7F, "freeze": bool(b[21] & 0x80), "aux": aux,
    }


def state_reply(s: dict, msg_id: int) -> bytes:
    """Build a 0xC0 frame echoing state s."""
    p = bytearray(24)
    p[0] = 0xC0
    p[1] = 1 if s["power"] else 0
    whole = int(s["temp"])
    p[2] = (s["mode"] << 5) | (0x10 if s["temp"] != whole else 0)
    if 17 <= whole <= 30:
        p[2] |= (whole - 16) & 0xF
    else:
        p[13] = (whole - 12) & 0x1F
    p[3] = s["fan"]
    p[7] = s["swing"]
    p[8] = (0x20 if s["turbo"] else 0) | (0x80 if s["follow_me"] else 0) | (0x40 if s["aux"] == 2 else 0)
    p[9] = (0x10 if s["eco"] else 0) | (0x20 if s["purifier"] else 0) | (0x08 if s["aux"] == 1 else 0)
    p[10] = (1 if s["sleep"] else 0) | (2 if s["turbo"] else 0) | (4 if s["fahrenheit"] else 0)
    p[11] = p[12] = 0xFF
    p[19] = s["humidity"]
    p[21] = 0x80 if s["freeze"] else 0
    p[23] = msg_id
    body = bytes(p) + bytes([crc8.calculate(p)])
    frame = bytearray([0xAA, 10 + len(body), 0xAC, 0, 0, 0, 0, 0, 0, 0x02]) + body
    frame.append(Frame.checksum(frame[1:]))
    return bytes(frame)


class Unit:
    """Simulated V2 unit recording every 0x40 body it receives."""

    def __init__(self, delay: float = 0.0) -> None:
        self.bodies = []
        self.delay = delay
        self.server = None
        self.port = None
        self.connections = 0

    async def start(self) -> None:
        self.server = await asyncio.start_server(self._client, "127.0.0.1", 0)
        self.port = self.server.sockets[0].getsockname()[1]

    async def stop(self) -> None:
        self.server.close()

    async def _client(self, reader, writer) -> None:
        self.connections += 1
        buf = b""
        try:
            while True:
                data = await reader.read(4096)
                if not data:
                    return
                buf += data
                while len(buf) >= 6:
                    assert buf[:2] == b"\x5a\x5a", buf.hex()
                    size = int.from_bytes(buf[4:6], "little")
                    if len(buf) < size:
                        break
                    packet, buf = buf[:size], buf[size:]
                    frame = _Packet.decode(packet)
                    assert frame[0] == 0xAA and Frame.checksum(frame[1:-1]) == frame[-1]
                    body = frame[10:-1]
                    if body[0] == 0x40:
                        self.bodies.append(bytes(body))
                    if self.delay:
                        await asyncio.sleep(self.delay)
                    if body[0] == 0x40:
                        assert frame[9] == 0x02 and frame[2] == 0xAC
                        reply = state_reply(vendor_decode(body), body[-2])
                    else:
                        # Acknowledge anything else with an empty property list
                        p = bytes([0xB0, 0x00, body[-2]])
                        p += bytes([crc8.calculate(p)])
                        f = bytearray([0xAA, 10 + len(p), 0xAC, 0, 0, 0, 0, 0, 0, 0x02]) + p
                        f.append(Frame.checksum(f[1:]))
                        reply = bytes(f)
                    writer.write(_Packet.encode(1234, reply))
                    await writer.drain()
        except (ConnectionError, asyncio.CancelledError):
            pass
        finally:
            writer.close()


def set_state(dev: AC, s: dict) -> None:
    dev.power_state = s["power"]
    dev.operational_mode = AC.OperationalMode(s["mode"])
    dev.target_temperature = s["temp"]
    try:
        dev.fan_speed = AC.FanSpeed(s["fan"])
    except ValueError:
        dev.fan_speed = s["fan"]
    dev.swing_mode = AC.SwingMode(s["swing"])
    dev.eco = s["eco"]
    dev.turbo = s["turbo"]
    dev.sleep = s["sleep"]
    dev.fahrenheit = s["fahrenheit"]
    dev.freeze_protection = s["freeze"]
    dev.follow_me = s["follow_me"]
    dev.purifier = s["purifier"]
    dev.target_humidity = s["humidity"]
    dev.aux_mode = AC.AuxHeatMode(s["aux"])
    dev.beep = s["beep"]


def random_state(rng: random.Random) -> dict:
    return {
        "power": rng.random() < 0.5, "mode": rng.randint(1, 6),
        "temp": rng.randint(26, 86) / 2, "fan": rng.randint(1, 102),
        "swing": rng.choice([0x0, 0xC, 0x3, 0xF]),
        "eco": rng.random() < 0.5, "turbo": rng.random() < 0.5, "sleep": rng.random() < 0.5,
        "fahrenheit": rng.random() < 0.5, "freeze": rng.random() < 0.5,
        "follow_me": rng.random() < 0.5, "purifier": rng.random() < 0.5,
        "humidity": rng.randint(30, 99), "aux": rng.randint(0, 2), "beep": rng.random() < 0.5,
    }


def check(unit: Unit, expected: list) -> None:
    """Every recorded body decodes to the expected state; distinct states -> distinct bodies."""
    assert len(unit.bodies) == len(expected), (len(unit.bodies), len(expected))
    seen = {}
    for body, want in zip(unit.bodies, expected):
        got = vendor_decode(body)
        assert got == want, f"\n got {got}\nwant {want}\nbody {body.hex()}"
        key = tuple(want[f] for f in FIELDS)
        core = body[:24]  # without message id and CRC
        assert seen.setdefault(core, key) == key, "two states share a body"
    unit.bodies.clear()


class Capture(logging.Handler):
    def __init__(self) -> None:
        super().__init__(logging.DEBUG)
        self.lines = []

    def emit(self, record: logging.LogRecord) -> None:
        self.lines.append((record.levelno, record.getMessage()))


async def run(seed: int, capture: Capture) -> None:
    unit = Unit()
    await unit.start()
    rng = random.Random(seed)
    dev = AC(ip="127.0.0.1", port=unit.port, device_id=1234)

    # A unit that supports next to nothing: apply() still has to encode what was asked
    dev._supported_op_modes = [AC.OperationalMode.FAN_ONLY]
    dev._supported_swing_modes = [AC.SwingMode.OFF]
    dev._supported_fan_speeds = [AC.FanSpeed.AUTO]
    dev._supports_custom_fan_speed = False
    dev._supports_turbo = False
    dev._supports_eco = False
    dev._supports_freeze_protection = False
    dev._supported_aux_modes = [AC.AuxHeatMode.OFF]

    # A wall clock that steps backwards and forwards between calls
    real_time = time.time
    steps = itertools.cycle([0, -3600, 86400, -7, 0.5])

    def jumpy_time() -> float:
        return real_time() + next(steps)

    states = [random_state(rng) for _ in range(120)]
    # every flag combination sharing body byte 10 and byte 9, repeated twice
    for sleep, turbo, fahrenheit, eco, purifier, aux in itertools.product((False, True), repeat=6):
        s = random_state(rng)
        s.update(sleep=sleep, turbo=turbo, fahrenheit=fahrenheit, eco=eco,
                 purifier=purifier, aux=1 if aux else 0)
        states += [s, dict(s)]
    # all fan bytes 1..102
    for fan in range(1, 103):
        s = random_state(rng)
        s["fan"] = fan
        states.append(s)

    with patch("time.time", jumpy_time):
        for i, s in enumerate(states):
            set_state(dev, s)
            await dev.apply()
            check(unit, [s])
            # read-back through the echoed state
            assert dev.eco == s["eco"] and dev.turbo == s["turbo"] and dev.sleep == s["sleep"]
            if i == 100:
                # silence the library for a while: nothing may depend on records being formatted
                logging.getLogger("msmart").setLevel(logging.ERROR)
            if i == 200:
                logging.getLogger("msmart").setLevel(logging.DEBUG)

    # Distinct states never share a body (message id and CRC aside)
    unit2 = {}
    for s in states:
        set_state(dev, s)
        await dev.apply()
        core = unit.bodies[-1][:24]
        key = tuple(s[f] for f in FIELDS)
        assert unit2.setdefault(core, key) == key
    assert len(unit.bodies) == len(states)

    # The sent frame appears in the debug log exactly as the unit received it
    sent = [m for lvl, m in capture.lines if m.startswith("Sending command to ")]
    logged = {bytes.fromhex(m.rsplit(" ", 1)[1])[10:-1] for m in sent}
    assert sent and set(unit.bodies) <= logged
    assert any(lvl >= logging.WARNING and "not capable" in m for lvl, m in capture.lines)

    dev._lan._disconnect()
    await unit.stop()


def main() -> int:
    capture = Capture()
    root = logging.getLogger("msmart")
    root.addHandler(capture)
    root.setLevel(logging.DEBUG)
    root.propagate = False
    asyncio.run(run(seed=21, capture=capture))
    print("demo3: OK")
    return 0


if __name__ == "__main__":
    sys.exit(main())
