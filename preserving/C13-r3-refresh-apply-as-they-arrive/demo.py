"""Demonstration for C13: corrupted responses are rejected and never change state.

Run: cd <worktree> && PYTHONPATH=<worktree> /venv/bin/python demo.py
Exits 0 when every expectation holds.
"""
import asyncio
import logging
import sys

from msmart import crc8
from msmart.device import AirConditioner as AC
from msmart.device.AC.command import (InvalidResponseException, PropertyId,
                                      Response)
from msmart.frame import Frame, InvalidFrameException

logging.disable(logging.CRITICAL)

VALID = {
    "state": bytes.fromhex(
        "aa23ac00000000000303c00145660000003c0010045c6b20000000000000000000020d79"),
    "capabilities": bytes.fromhex(
        "aa29ac00000000000303b5071202010113020101140201011502010116020101170201001a020101dedb"),
    "properties": bytes.fromhex(
        "aa21ac00000000000303b10409000001000a00000100150000012b1e020000005fa3"),
    "energy": bytes.fromhex(
        "aa20ac00000000000203c121014400564a02640000000014ae0000000000041a22"),
    "humidity": bytes.fromhex(
        "aa20ac00000000000303c12101453f546c005d0a000000de1f0000ba9a0004af9c"),
}

REJECT = (InvalidFrameException, InvalidResponseException)
failures = []


def check(cond, msg):
    if not cond:
        failures.append(msg)
        print("FAIL:", msg)


def fix_outer(frame: bytearray) -> bytes:
    frame[-1] = Frame.checksum(frame[1:-1])
    return bytes(frame)


def body_ok(frame: bytes) -> bool:
    body = frame[10:-1]
    return body[-1] in (crc8.calculate(body[:-1]), Frame.checksum(body[:-1]))


def must_be_rejected(frame: bytes) -> bool:
    """Independent statement of what C13 requires to be dropped."""
    if Frame.checksum(frame[1:-1]) != frame[-1]:
        return True
    if frame[10] in (0xB0, 0xB1):
        return False  # property responses are exempt from the body check
    return not body_ok(frame)


def corruptions(frame: bytes, values):
    """Yield (description, corrupted frame) for the two corruption families."""
    n = len(frame)
    for pos in range(1, n):
        for v in values:
            if v == frame[pos]:
                continue
            f = bytearray(frame)
            f[pos] = v
            yield f"pos {pos} -> {v:#x}", bytes(f)
    for pos in range(10, n - 2):
        for v in values:
            if v == frame[pos]:
                continue
            f = bytearray(frame)
            f[pos] = v
            yield f"pos {pos} -> {v:#x} (outer fixed)", fix_outer(f)


def part1_construct():
    """Every valid frame parses; every corruption that C13 covers raises."""
    count = 0
    for kind, frame in VALID.items():
        try:
            Response.construct(frame)
        except Exception as e:  # pylint: disable=broad-except
            check(False, f"valid {kind} frame refused: {e!r}")
        for desc, bad in corruptions(frame, range(256)):
            if not must_be_rejected(bad):
                continue
            count += 1
            try:
                Response.construct(bad)
            except REJECT:
                continue
            except Exception as e:  # pylint: disable=broad-except
                check(False, f"{kind} {desc}: wrong exception {e!r}")
            else:
                check(False, f"{kind} {desc}: accepted")
    print(f"part1: {count} corrupted frames all rejected")


class FakeLan:
    """Stands in for LAN.send: serves a list of frames per request."""

    def __init__(self):
        self.frames = []
        self.calls = 0

    async def send(self, data, retries=3):
        self.calls += 1
        await asyncio.sleep(0)
        if callable(self.frames):
            return list(self.frames(self.calls))
        return list(self.frames)


async def make_device():
    device = AC(ip="127.0.0.1", port=6444, device_id=1234)
    lan = FakeLan()
    device._lan.send = lan.send  # pylint: disable=protected-access

    # Several queries per refresh
    device._request_energy_usage = True
    device._supports_humidity = True
    device._supported_properties = {PropertyId.SWING_UD_ANGLE,
                                    PropertyId.SWING_LR_ANGLE}

    # A first healthy refresh
    lan.frames = [VALID["state"], VALID["properties"],
                  VALID["energy"], VALID["humidity"]]
    await device.refresh()
    check(device.online and device.supported, "healthy refresh not online")
    check(device.indoor_humidity == 63, "humidity not applied")
    check(device.target_temperature == 21.0, "state not applied")
    return device, lan


def exposed(device):
    d = device.to_dict()
    d.pop("online")
    d.pop("supported")
    return d


async def part2_refresh():
    """A refresh fed only corrupted frames: offline, unsupported, untouched."""
    count = 0
    values = (0x00, 0x01, 0x7F, 0x80, 0xFF, 0x55)
    for kind, frame in VALID.items():
        device, lan = await make_device()
        before = exposed(device)
        bad_frames = [bad for _, bad in corruptions(frame, values)
                      if must_be_rejected(bad)]
        # one at a time (sampled) ...
        for bad in bad_frames[::7]:
            device._online = True
            lan.frames = [bad]
            calls = lan.calls
            await device.refresh()
            count += 1
            check(lan.calls - calls == 4, "refresh did not send 4 queries")
            check(not device.online, f"{kind}: online after {bad.hex()}")
            check(not device.supported, f"{kind}: supported after {bad.hex()}")
            check(exposed(device) == before, f"{kind}: state changed by {bad.hex()}")
        # ... and a burst of many at once
        lan.frames = bad_frames[:40]
        await device.refresh()
        check(not device.online and not device.supported, f"{kind}: burst accepted")
        check(exposed(device) == before, f"{kind}: burst changed state")

        # A later healthy refresh recovers, corrupted frames next to valid ones are skipped
        lan.frames = [bad_frames[0], VALID["state"], bad_frames[-1]]
        await device.refresh()
        check(device.online and device.supported, f"{kind}: no recovery")
        check(exposed(device) == before, f"{kind}: mixed refresh changed state")
    print(f"part2: {count} corrupted refreshes left the device offline, unsupported and untouched")


async def part3_other_operations():
    """apply()/get_capabilities() answered with corrupted frames change nothing."""
    device, lan = await make_device()
    before = exposed(device)
    caps_before = (device.supported_operation_modes, device.supports_humidity,
                   device.min_target_temperature, device.max_target_temperature)
    bad_state = bytearray(VALID["state"])
    bad_state[12] ^= 0x40
    bad_caps = fix_outer(bytearray(VALID["capabilities"][:14] + b"\x77" + VALID["capabilities"][15:]))
    lan.frames = [bytes(bad_state), bad_caps]
    await device.get_capabilities()
    check(not device.supported, "capabilities: supported after corrupted frames")
    check(caps_before == (device.supported_operation_modes, device.supports_humidity,
                          device.min_target_temperature, device.max_target_temperature),
          "capabilities changed by corrupted frame")
    await device.apply()
    check(not device.supported, "apply: supported after corrupted frames")
    check(exposed(device) == before, "apply: state changed by corrupted frames")
    print("part3: corrupted answers to get_capabilities()/apply() ignored")


async def part4_mixed_queries():
    """Only the first of four queries is answered properly, the rest with corrupted frames."""
    device, lan = await make_device()
    before = exposed(device)
    bad = bytearray(VALID["humidity"])
    bad[15] ^= 0x01
    bad = fix_outer(bad)
    first = lan.calls + 1
    lan.frames = lambda n: [VALID["state"]] if n == first else [bad]
    await device.refresh()
    check(device.online, "mixed queries: offline although state query was answered")
    check(not device.supported, "mixed queries: last exchange had only corrupted frames")
    check(exposed(device) == before, "mixed queries: corrupted humidity applied")
    print("part4: valid answer used, corrupted answers of later queries ignored")


def main():
    part1_construct()
    asyncio.run(part4_mixed_queries())
    asyncio.run(part2_refresh())
    asyncio.run(part3_other_operations())
    if failures:
        print(f"{len(failures)} failure(s)")
        return 1
    print("OK")
    return 0


if __name__ == "__main__":
    sys.exit(main())
