"""Demonstration for C07 (V3 session discipline) - change 1: per-object exchange lock.

Runs a simulated V3 unit on 127.0.0.1 and drives msmart.lan.LAN through a few histories,
sequential and concurrent, then checks on every connection the unit saw:
  * nothing but handshake requests carrying the configured token before a successful handshake,
  * every data packet verifies under the session key of the latest handshake of its connection,
  * every packet counter is the previous one plus one (wrapping),
  * after the 12 h expiry / connection lifetime the next exchange starts with a handshake
    (on a new connection for the lifetime case).
Exits 0 when all of that holds.
"""
import asyncio
import sys
from datetime import datetime, timedelta
from hashlib import sha256

from Crypto.Cipher import AES

import msmart.lan as lan_mod
from msmart.lan import LAN, AuthenticationError, ProtocolError, _Packet

TOKEN = bytes(range(64))
KEY = bytes(range(100, 132))
BAD_TOKEN = bytes(64)
DEVICE_ID = 0x112233445566

# --------------------------------------------------------------------------- fast + virtual clocks
_real_sleep = asyncio.sleep


async def _fast_sleep(delay, *args, **kwargs):
    return await _real_sleep(min(delay, 0.01), *args, **kwargs)

asyncio.sleep = _fast_sleep


class _Clock(datetime):
    offset = timedelta(0)

    @classmethod
    def now(cls, tz=None):
        return datetime.now(tz) + cls.offset


lan_mod.datetime = _Clock


def jump(**kw):
    _Clock.offset += timedelta(**kw)


def cbc(key):
    return AES.new(key, AES.MODE_CBC, iv=bytes(16))


# --------------------------------------------------------------------------- simulated unit
class Conn:
    def __init__(self, index):
        self.index = index
        self.events = []   # ("hs", counter, token, ok) / ("data", counter, ok_under_latest_key, frame)
        self.session_key = None
        self.buffer = b""


class Unit:
    def __init__(self):
        self.conns = []
        self.mode = "ok"           # ok | silent | error | close
        self.hs_mode = "ok"        # ok | silent | error | close
        self.server = None
        self.port = None
        self.writers = []
        self._n = 0

    async def start(self):
        self.server = await asyncio.start_server(self._client, "127.0.0.1", 0)
        self.port = self.server.sockets[0].getsockname()[1]

    async def stop(self):
        for w in self.writers:
            w.close()
        self.server.close()
        await _real_sleep(0.02)

    def close_all(self):
        for w in self.writers:
            w.close()

    async def _client(self, reader, writer):
        conn = Conn(len(self.conns))
        self.conns.append(conn)
        self.writers.append(writer)
        try:
            while True:
                data = await reader.read(65536)
                if not data:
                    break
                conn.buffer += data
                while len(conn.buffer) >= 6:
                    assert conn.buffer[:2] == b"\x83\x70", "bad start of packet on the wire"
                    total = int.from_bytes(conn.buffer[2:4], "big") + 8
                    if len(conn.buffer) < total:
                        break
                    packet, conn.buffer = conn.buffer[:total], conn.buffer[total:]
                    if not self._packet(conn, packet, writer):
                        writer.close()
                        return
        except (ConnectionError, asyncio.CancelledError):
            pass
        finally:
            writer.close()

    def _packet(self, conn, packet, writer):
        ptype = packet[5] & 0xF
        if ptype == 0x0:
            counter = int.from_bytes(packet[6:8], "big")
            token = packet[8:]
            ok = token == TOKEN and self.hs_mode == "ok"
            conn.events.append(("hs", counter, token, ok))
            if self.hs_mode == "silent":
                return True
            if self.hs_mode == "close":
                return False
            if token != TOKEN or self.hs_mode == "error":
                writer.write(b"\x83\x70\x00\x00\x20\x0f\x00\x00")
                return True
            self._n += 1
            plain = sha256(b"session %d" % self._n).digest()
            conn.session_key = bytes(a ^ b for a, b in zip(plain, KEY))
            body = cbc(KEY).encrypt(plain) + sha256(plain).digest()
            writer.write(b"\x83\x70" + len(body).to_bytes(2, "big") + b"\x20\x01" + packet[6:8] + body)
            return True
        if ptype == 0x6:
            header, payload, rx_hash = packet[:6], packet[6:-32], packet[-32:]
            ok, counter, frame = False, None, None
            if conn.session_key is not None and len(payload) % 16 == 0:
                dec = cbc(conn.session_key).decrypt(payload)
                ok = sha256(header + dec).digest() == rx_hash
                counter = int.from_bytes(dec[:2], "big")
                pad = header[5] >> 4
                try:
                    frame = _Packet.decode(dec[2:len(dec) - pad])
                except ProtocolError:
                    ok = False
            conn.events.append(("data", counter, ok, frame))
            if not ok or self.mode == "silent":
                return True
            if self.mode == "close":
                return False
            if self.mode == "error":
                writer.write(b"\x83\x70\x00\x00\x20\x0f\x00\x00")
                return True
            inner = _Packet.encode(DEVICE_ID, b"reply:" + frame)
            rem = (len(inner) + 2) % 16
            pad = 16 - rem if rem else 0
            hdr = b"\x83\x70" + (len(inner) + pad + 32).to_bytes(2, "big") + b"\x20" + bytes([pad << 4 | 0x3])
            body = bytes(2) + inner + bytes(pad)
            writer.write(hdr + cbc(conn.session_key).encrypt(body) + sha256(hdr + body).digest())
            return True
        conn.events.append(("other", None, False, None))
        return True


def check(unit):
    """Check the C07 statement on everything the unit received."""
    for conn in unit.conns:
        handshaken = False
        prev = None
        for kind, counter, a, b in conn.events:
            if kind == "hs":
                if not handshaken:
                    assert a == TOKEN, f"conn {conn.index}: handshake without the configured token"
                handshaken = handshaken or b
            elif kind == "data":
                assert handshaken, f"conn {conn.index}: data before a successful handshake"
                assert a, f"conn {conn.index}: data packet not under the latest session key"
            else:
                raise AssertionError(f"conn {conn.index}: unexpected packet type")
            if prev is not None:
                assert counter in ((prev + 1) & 0xFFF, (prev + 1) & 0xFFFF), \
                    f"conn {conn.index}: counter {counter} after {prev}"
            prev = counter


def pre_handshake_tokens(unit):
    """Tokens of handshake requests seen before the first successful handshake of each connection."""
    out = []
    for conn in unit.conns:
        for kind, _c, a, b in conn.events:
            if kind != "hs":
                break
            out.append(a)
            if b:
                break
    return out


async def new_lan(unit, authenticate=True):
    lan = LAN("127.0.0.1", unit.port, DEVICE_ID)
    if authenticate:
        await lan.authenticate(TOKEN, KEY)
    return lan


# --------------------------------------------------------------------------- scenarios
async def scenario_sequential():
    unit = Unit()
    await unit.start()
    lan = await new_lan(unit)
    lan.max_connection_lifetime = 3600
    assert (await lan.send(b"one"))[0] == b"reply:one"
    assert (await lan.send(b"two"))[0] == b"reply:two"
    assert len(unit.conns) == 1

    # Lifetime was configured after the first connection, so force a reconnect and then expire it
    unit.close_all()
    await _real_sleep(0.05)
    await lan.send(b"three")
    assert len(unit.conns) == 2
    jump(seconds=3601)
    await lan.send(b"four")
    assert len(unit.conns) == 3, "connection lifetime must lead to a new connection"
    assert [e[0] for e in unit.conns[2].events] == ["hs", "data"]

    # 12 h authentication expiry -> next exchange starts with a handshake
    lan.max_connection_lifetime = None
    unit.close_all()
    await _real_sleep(0.05)
    await lan.send(b"five")
    n_before = sum(1 for c in unit.conns for e in c.events if e[0] == "hs")
    jump(hours=12, seconds=1)
    await lan.send(b"six")
    kinds = [e[0] for c in unit.conns for e in c.events]
    assert kinds[-2:] == ["hs", "data"], "expiry must be followed by a handshake before data"
    assert sum(1 for k in kinds if k == "hs") == n_before + 1

    # Device silent, then error packet, then fine again
    unit.mode = "error"
    try:
        await lan.send(b"seven")
        raise AssertionError("expected ProtocolError")
    except ProtocolError:
        pass
    unit.mode = "ok"
    assert (await lan.send(b"eight"))[-1] == b"reply:eight"

    check(unit)
    assert all(t == TOKEN for t in pre_handshake_tokens(unit))
    await unit.stop()


async def scenario_concurrent():
    """Several tasks use one fresh object at once (including an explicit authenticate)."""
    unit = Unit()
    await unit.start()
    lan = await new_lan(unit)
    unit.close_all()
    await _real_sleep(0.05)

    results = await asyncio.gather(
        lan.send(b"a"), lan.send(b"b"), lan.authenticate(), lan.send(b"c"), lan.send(b"d"),
        return_exceptions=True)
    for r in results:
        # (overlapping use of one object is racy in some versions: tolerate failed calls, not bad bytes)
        assert r is None or isinstance(r, (list, Exception)), repr(r)
    await lan.send(b"after")
    check(unit)
    assert all(t == TOKEN for t in pre_handshake_tokens(unit))
    await unit.stop()


async def scenario_cancel():
    unit = Unit()
    await unit.start()
    lan = await new_lan(unit)
    await lan.send(b"x")
    unit.mode = "silent"
    task = asyncio.ensure_future(lan.send(b"y"))
    await _real_sleep(0.2)
    task.cancel()
    try:
        await task
    except (TimeoutError, asyncio.CancelledError):
        pass
    unit.mode = "ok"
    # A waiter cancelled while another exchange is running must not disturb that exchange
    first = asyncio.ensure_future(lan.send(b"z1"))
    second = asyncio.ensure_future(lan.send(b"z2"))
    await _real_sleep(0)
    second.cancel()
    res = await asyncio.gather(first, second, return_exceptions=True)
    assert isinstance(res[0], (list, Exception)), repr(res[0])
    assert (await lan.send(b"z3"))[-1] == b"reply:z3"
    check(unit)
    assert all(t == TOKEN for t in pre_handshake_tokens(unit))
    await unit.stop()


async def scenario_bad_credentials():
    unit = Unit()
    await unit.start()
    lan = await new_lan(unit)
    await lan.send(b"x")
    try:
        await lan.authenticate(BAD_TOKEN, KEY)
        raise AssertionError("expected AuthenticationError")
    except AuthenticationError:
        pass
    assert lan.token == TOKEN
    assert (await lan.send(b"y"))[-1] == b"reply:y"
    check(unit)
    await unit.stop()


async def scenario_long_session():
    unit = Unit()
    await unit.start()
    lan = await new_lan(unit)
    for i in range(9000):
        await lan.send(b"n%d" % i)
    assert len(unit.conns) == 1
    counters = [e[1] for e in unit.conns[0].events]
    assert len(counters) == 9001 and 0 in counters[1:], "counter must have wrapped"
    check(unit)
    await unit.stop()


class _FakeTransport:
    def __init__(self):
        self.written = []

    def is_closing(self):
        return False

    def get_extra_info(self, _name):
        return ("127.0.0.1", 6444)

    def write(self, data):
        self.written.append(bytes(data))

    def close(self):
        pass


def long_session_protocol():
    """More than 65,536 packets on one connection, looked at directly below the protocol object."""
    proto = lan_mod._LanProtocolV3()
    transport = _FakeTransport()
    proto.connection_made(transport)
    proto.write(TOKEN, packet_type=proto.PacketType.HANDSHAKE_REQUEST)
    session_key = sha256(b"long").digest()
    proto._local_key = session_key
    for i in range(70000):
        proto.write(b"frame %d" % i)
    prev = None
    for n, packet in enumerate(transport.written):
        if n == 0:
            assert packet[5] & 0xF == 0 and packet[8:] == TOKEN
            counter = int.from_bytes(packet[6:8], "big")
        else:
            dec = cbc(session_key).decrypt(packet[6:-32])
            assert sha256(packet[:6] + dec).digest() == packet[-32:]
            counter = int.from_bytes(dec[:2], "big")
        if prev is not None:
            assert counter in ((prev + 1) & 0xFFF, (prev + 1) & 0xFFFF), (prev, counter)
        prev = counter


async def second_loop_use(lan_holder):
    unit = Unit()
    await unit.start()
    lan = lan_holder.get("lan")
    if lan is None:
        lan = lan_holder["lan"] = LAN("127.0.0.1", unit.port, DEVICE_ID)
        lan._token, lan._key, lan._protocol_version = TOKEN, KEY, 3
    else:
        lan._port = unit.port
        lan._protocol = None
    res = await asyncio.gather(lan.send(b"p"), lan.send(b"q"), return_exceptions=True)
    for r in res:
        assert isinstance(r, (list, Exception)), repr(r)
    await lan.send(b"r")
    check(unit)
    await unit.stop()


def main():
    for scenario in (scenario_sequential, scenario_concurrent, scenario_cancel,
                     scenario_bad_credentials, scenario_long_session):
        asyncio.run(scenario())
        print("ok", scenario.__name__)

    long_session_protocol()
    print("ok long_session_protocol")

    # One object used (with contention) from two successive event loops
    holder = {}
    asyncio.run(second_loop_use(holder))
    asyncio.run(second_loop_use(holder))
    print("ok second_loop_use")
    return 0


if __name__ == "__main__":
    sys.exit(main())
