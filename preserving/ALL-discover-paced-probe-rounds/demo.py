"""Demo 1: discovery probes (what is sent, to which ports) and the devices reported.

Uses an in-memory datagram endpoint (no network): fake hosts answer every probe they
receive on UDP port 6445 with a V2 or V3 discovery reply.
Exits 0 when everything observed is as the documented behaviour requires.
"""
import asyncio
import logging
import sys

from Crypto.Cipher import AES
from Crypto.Util import Padding
from hashlib import md5

from msmart.const import DISCOVERY_MSG, DeviceType
from msmart.device import AirConditioner, Device
from msmart.discover import Discover

logging.basicConfig(level=logging.CRITICAL)

SIGN_KEY = b"xhdiwjnchekd4d512chdjx5d8e4c394D2D7S"
ENC_KEY = md5(SIGN_KEY).digest()


def make_reply(version, device_id, port, sn, name, reported_ip):
    body = bytes(reversed([int(x) for x in reported_ip.split(".")]))
    body += port.to_bytes(4, "little")
    body += sn.encode().ljust(32, b"0")[:32]
    body += bytes([len(name)]) + name.encode()
    body += bytes(10)
    enc = AES.new(ENC_KEY, AES.MODE_ECB).encrypt(Padding.pad(body, 16))
    total = 40 + len(enc) + 16
    hdr = bytearray(40)
    hdr[0:2] = b"\x5a\x5a"
    hdr[2:4] = b"\x01\x11"
    hdr[4:6] = total.to_bytes(2, "little")
    hdr[6:8] = b"\x7a\x80"
    hdr[20:26] = device_id.to_bytes(6, "little")
    pkt = bytes(hdr) + enc
    pkt += md5(pkt + SIGN_KEY).digest()
    if version == 3:
        pkt = b"\x83\x70" + len(pkt).to_bytes(2, "big") + b"\x20\x0f\x00\x00" + pkt + bytes(range(16))
    return pkt


class FakeSocket:
    def setsockopt(self, *args):
        pass


class FakeTransport(asyncio.DatagramTransport):
    """In-memory datagram transport: records probes, lets fake hosts answer them."""

    def __init__(self, loop, protocol, hosts):
        super().__init__()
        self.loop = loop
        self.protocol = protocol
        self.hosts = hosts  # ip -> reply bytes
        self.sent = []  # (time, data, addr)
        self.closed = False

    def get_extra_info(self, name, default=None):
        return FakeSocket() if name == "socket" else default

    def sendto(self, data, addr=None):
        assert not self.closed
        self.sent.append((self.loop.time(), bytes(data), addr))
        if addr[1] == 6445:
            for ip, reply in self.hosts.items():
                # Every host answers every probe -> duplicates
                self.loop.call_later(0.01, self._deliver, reply, (ip, 6445))

    def _deliver(self, data, addr):
        if not self.closed:
            self.protocol.datagram_received(data, addr)

    def is_closing(self):
        return self.closed

    def close(self):
        if not self.closed:
            self.closed = True
            self.loop.call_soon(self.protocol.connection_lost, None)

    def abort(self):
        self.close()


async def run_discovery(hosts, **kwargs):
    loop = asyncio.get_event_loop()
    created = []

    async def fake_endpoint(factory, *args, **kw):
        protocol = factory()
        transport = FakeTransport(loop, protocol, hosts)
        created.append(transport)
        protocol.connection_made(transport)
        return transport, protocol

    orig = loop.create_datagram_endpoint
    loop.create_datagram_endpoint = fake_endpoint
    try:
        devices = await Discover.discover(**kwargs)
    finally:
        loop.create_datagram_endpoint = orig
    await asyncio.sleep(0.05)
    return devices, created[0]


def check(cond, msg):
    if not cond:
        print("FAIL:", msg)
        sys.exit(1)


async def main():
    hosts = {
        "10.0.0.11": make_reply(2, 0x0000A1B2C3D4E5F6 & 0xFFFFFFFFFFFF, 6444, "000000P0000000Q1F0C9D153F7B40000", "net_ac_F7B4", "10.0.0.11"),
        "10.0.0.12": make_reply(3, 147334558165565, 6444, "000000P0000000Q1B88C29C963BA0000", "net_ac_63BA", "192.168.1.50"),
        "10.0.0.13": make_reply(2, 0xFFFFFFFFFFFF, 65535, "SN" * 16, "net_e1_0001", "10.0.0.13"),
    }

    for packets in (1, 3, 5):
        devices, transport = await run_discovery(
            hosts, target="10.0.0.255", timeout=1.5, discovery_packets=packets, auto_connect=False)

        # Probes: always the real discovery message, only to the two discovery ports
        check(len(transport.sent) > 0, "no probe sent")
        check(all(d == DISCOVERY_MSG for _, d, _ in transport.sent), "probe bytes differ from DISCOVERY_MSG")
        check(all(a[0] == "10.0.0.255" for _, _, a in transport.sent), "probe sent to wrong host")
        per_port = {}
        for _, _, a in transport.sent:
            per_port[a[1]] = per_port.get(a[1], 0) + 1
        check(set(per_port) == {6445, 20086}, f"unexpected probe ports {per_port}")
        check(all(1 <= n <= packets for n in per_port.values()), f"unexpected probe counts {per_port}")

        # One device per host with exactly the advertised identity
        check(len(devices) == 3, f"expected 3 devices, got {len(devices)}")
        by_ip = {d.ip: d for d in devices}
        check(set(by_ip) == set(hosts), "device addresses differ from reply sources")

        d = by_ip["10.0.0.11"]
        check(isinstance(d, AirConditioner) and d.id == 0xA1B2C3D4E5F6 & 0xFFFFFFFFFFFF and d.port == 6444
              and d.sn == "000000P0000000Q1F0C9D153F7B40000" and d.name == "net_ac_F7B4"
              and d.version == 2 and d.type == DeviceType.AIR_CONDITIONER, "V2 AC identity mismatch")
        d = by_ip["10.0.0.12"]
        check(isinstance(d, AirConditioner) and d.id == 147334558165565 and d.port == 6444
              and d.sn == "000000P0000000Q1B88C29C963BA0000" and d.name == "net_ac_63BA"
              and d.version == 3, "V3 AC identity mismatch")
        d = by_ip["10.0.0.13"]
        check(type(d) is Device and d.id == 0xFFFFFFFFFFFF and d.port == 65535 and d.sn == "SN" * 16
              and d.name == "net_e1_0001" and d.version == 2 and d.type == 0xE1, "generic device identity mismatch")

    # A discovery that ends before all rounds could be sent still works and sends nothing afterwards
    devices, transport = await run_discovery(
        hosts, target="10.0.0.255", timeout=0.1, discovery_packets=4, auto_connect=False)
    n = len(transport.sent)
    await asyncio.sleep(1.2)
    check(len(transport.sent) == n, "probe sent after the endpoint was closed")
    check(len(devices) == 3, "short discovery lost devices")

    # No probes requested -> nothing sent, nothing found
    devices, transport = await run_discovery(
        hosts, target="10.0.0.255", timeout=0.2, discovery_packets=0, auto_connect=False)
    check(len(transport.sent) == 0 and devices == [], "discovery_packets=0 should send nothing")

    print("demo OK")


if __name__ == "__main__":
    asyncio.run(main())
