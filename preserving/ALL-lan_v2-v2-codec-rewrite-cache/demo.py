"""Demo 2: V2 packet decoding and the Security helpers against an independent implementation."""
import os
import random
import sys
from hashlib import md5

from Crypto.Cipher import AES

from msmart.lan import ProtocolError, Security, _Packet

SIGN_KEY = b"xhdiwjnchekd4d512chdjx5d8e4c394D2D7S"
ENC_KEY = md5(SIGN_KEY).digest()


def ref_encrypt(frame: bytes) -> bytes:
    pad = 16 - len(frame) % 16
    return AES.new(ENC_KEY, AES.MODE_ECB).encrypt(frame + bytes([pad]) * pad)


def ref_encode(frame: bytes, device_id: int, body: bytes = None) -> bytes:
    body = ref_encrypt(frame) if body is None else body
    length = 40 + len(body) + 16
    head = (b"\x5a\x5a\x01\x11" + length.to_bytes(2, "little") + b"\x20\x80" + os.urandom(4)
            + os.urandom(8) + device_id.to_bytes(8, "little") + bytes(12))
    return head + body + md5(head + body + SIGN_KEY).digest()


def rejected(data: bytes) -> bool:
    try:
        _Packet.decode(data)
    except ProtocolError:
        return True
    return False


def main() -> None:
    rng = random.Random(2)

    # Helpers agree with the reference for every padding length and block count
    for n in range(256):
        frame = os.urandom(n)
        assert Security.encrypt_aes(frame) == ref_encrypt(frame)
        assert Security.decrypt_aes(ref_encrypt(frame)) == frame
        assert Security.decrypt_aes(memoryview(ref_encrypt(frame))) == frame
        data = os.urandom(n + 40)
        assert Security.sign(data) == md5(data + SIGN_KEY).digest()

        packet = ref_encode(frame, rng.getrandbits(64))
        assert _Packet.decode(packet) == frame
        # Duplicates, other buffer types and trailing bytes decode to the same frame
        assert _Packet.decode(packet) == frame
        assert _Packet.decode(bytearray(packet)) == frame
        assert _Packet.decode(packet + os.urandom(n % 5)) == frame

    # Undecryptable data raises ValueError from the helper (relied upon by discovery)
    for bad in (b"", bytes(15), bytes(17), bytes(16), AES.new(ENC_KEY, AES.MODE_ECB).encrypt(bytes(15) + b"\x11"),
                AES.new(ENC_KEY, AES.MODE_ECB).encrypt(bytes(13) + b"\x03\x02\x03")):
        try:
            Security.decrypt_aes(bad)
        except ValueError:
            pass
        else:
            raise AssertionError(bad.hex())

    # Every single bit flip and every truncation of an authentic packet is rejected,
    # also after the authentic packet itself has been decoded before
    for n in (0, 15, 16, 35):
        frame = os.urandom(n)
        packet = ref_encode(frame, 123456)
        assert _Packet.decode(packet) == frame
        for bit in range(len(packet) * 8):
            flipped = bytearray(packet)
            flipped[bit // 8] ^= 1 << (bit % 8)
            assert rejected(bytes(flipped)), (n, bit)
        for cut in range(len(packet)):
            assert rejected(packet[:cut]), (n, cut)
        for _ in range(200):
            corrupt = bytearray(packet)
            for pos in rng.sample(range(len(packet)), rng.randint(2, 6)):
                corrupt[pos] ^= rng.randint(1, 255)
            assert rejected(bytes(corrupt))
        assert _Packet.decode(packet) == frame

    # Correctly signed packets with a bad payload are rejected
    assert rejected(ref_encode(b"", 1, body=AES.new(ENC_KEY, AES.MODE_ECB).encrypt(bytes(16))))
    assert rejected(ref_encode(b"", 1, body=bytes(7)))
    assert rejected(ref_encode(b"", 1, body=b""))
    assert rejected(b"\xaa\x20\xac" + bytes(30))

    # Library test vector
    packet = bytes.fromhex(
        "5a5a01116800208000000000000000000000000060ca0000000e0000000000000000000001000000c6a90377a364cb55af337259514c6f96bf084e8c7a899b50b68920cdea36cecf11c882a88861d1f46cd87912f201218c66151f0c9fbe5941c5384e707c36ff76")
    assert _Packet.decode(packet).hex() == "aa22ac00000000000303c0014566000000300010045cff2070000000000000008bed19"


if __name__ == "__main__":
    main()
    print("demo2 OK")
    sys.exit(0)
