"""Minimal conforming NetHome Plus server used by the demo scripts (httpx.MockTransport, no network)."""
import hashlib
import json
from urllib.parse import parse_qsl

import httpx

APP_KEY = "3742e9e5842d4ad59c2db887e12449f9"


class FakeNetHome:
    def __init__(self, accounts, tokens, script=None):
        self.accounts = dict(accounts)      # account -> password
        self.tokens = list(tokens)          # list of dict(udpId, token, key)
        self.script = list(script or [])    # per-request faults: "timeout", 500, ("api", code), None
        self.login_ids = {}
        self.sessions = set()
        self.requests = []                  # (path, fields)
        self.violations = []
        self.clients = 0
        self._n = 0

    # -- client factory handed to the library
    def client(self, *args, **kwargs):
        self.clients += 1
        return httpx.AsyncClient(transport=httpx.MockTransport(self.handle))

    def _reply(self, result=None, code=0, msg="ok"):
        body = {"errorCode": str(code), "msg": msg}
        if code == 0:
            body["result"] = result
        return httpx.Response(200, text=json.dumps(body))

    def handle(self, request: httpx.Request) -> httpx.Response:
        path = request.url.path
        pairs = parse_qsl(request.content.decode("utf-8"), keep_blank_values=True)
        fields = dict(pairs)
        self.requests.append((path, dict(fields)))
        if len(fields) != len(pairs):
            self.violations.append(f"{path}: duplicate form field")

        # Scripted faults
        fault = self.script.pop(0) if self.script else None
        if fault == "timeout":
            raise httpx.ReadTimeout("scripted timeout", request=request)
        if isinstance(fault, int):
            return httpx.Response(fault, text="scripted failure")
        if isinstance(fault, tuple):
            return self._reply(code=fault[1], msg="scripted api error")

        # Signature
        sign = fields.pop("sign", None)
        query = "&".join(f"{k}={v}" for k, v in sorted(fields.items()))
        expect = hashlib.sha256((path + query + APP_KEY).encode()).hexdigest()
        if sign != expect:
            self.violations.append(f"{path}: bad sign")
            return self._reply(code=3301, msg="bad sign")
        for f in ("appId", "src", "format", "clientType", "language", "deviceId", "stamp", "sessionId"):
            if f not in fields:
                self.violations.append(f"{path}: missing {f}")
        if fields.get("appId") != "1017" or len(fields.get("stamp", "")) != 14:
            self.violations.append(f"{path}: bad appId/stamp")

        if path == "/v1/user/login/id/get":
            acct = fields.get("loginAccount")
            if acct not in self.accounts:
                return self._reply(code=3102, msg="no such account")
            self._n += 1
            lid = f"lid{self._n:04d}-{hashlib.md5(acct.encode()).hexdigest()[:8]}"
            self.login_ids.setdefault(acct, []).append(lid)
            return self._reply({"loginId": lid})

        if path == "/v1/user/login":
            acct = fields.get("loginAccount")
            lids = self.login_ids.get(acct)
            if not lids:
                self.violations.append("login without login id")
                return self._reply(code=3101, msg="no login id")
            m1 = hashlib.sha256(self.accounts[acct].encode()).hexdigest()
            want = [hashlib.sha256((lid + m1 + APP_KEY).encode()).hexdigest() for lid in lids]
            if fields.get("password") not in want:
                return self._reply(code=3101, msg="bad password")
            self._n += 1
            sid = f"sess{self._n:04d}"
            self.sessions.add(sid)
            return self._reply({"sessionId": sid, "userId": "1"})

        if path == "/v1/iot/secure/getToken":
            if fields.get("sessionId") not in self.sessions:
                self.violations.append("getToken with bad session")
                return self._reply(code=3106, msg="invalid session")
            return self._reply({"tokenlist": self.tokens})

        return httpx.Response(404, text="nope")


# ---------------------------------------------------------------- demo 1
import asyncio
import random
import sys

from msmart.cloud import ApiError, CloudError, NetHomePlusCloud


def ref_sign(path, data):
    q = "&".join(f"{k}={v}" for k, v in sorted((str(k), str(v)) for k, v in data.items()))
    return hashlib.sha256((path + q + APP_KEY).encode()).hexdigest()


async def main():
    rng = random.Random(7)
    accounts = {
        "nethome+us@mailinator.com": "password1",
        "a b&c=d%41+e@x.org": "p w&=%+/?#",
        "plain": "x",
    }
    udpid = "4fbe0d4139de99dd88a0285e14657045"
    tokens = [
        {"udpId": udpid[:-1] + "4", "token": "T0", "key": "K0"},
        {"udpId": udpid, "token": "T1", "key": "K1"},
        {"udpId": udpid.upper(), "token": "T2", "key": "K2"},
    ]
    for acct, pw in accounts.items():
        srv = FakeNetHome(accounts, tokens)
        c = NetHomePlusCloud("US", account=acct, password=pw, get_async_client=srv.client)
        await c.login()
        assert c._session_id in srv.sessions, c._session_id
        assert await c.get_token(udpid) == ("T1", "K1")
        assert await c.get_token(udpid.upper()) == ("T2", "K2")
        try:
            await c.get_token("00" * 16)
            raise SystemExit("expected CloudError")
        except CloudError:
            pass
        assert not srv.violations, srv.violations
        paths = [p for p, _ in srv.requests]
        assert paths == ["/v1/user/login/id/get", "/v1/user/login"] + ["/v1/iot/secure/getToken"] * 3, paths
        # Every request carried the session id current at that time and the account
        assert srv.requests[0][1]["sessionId"] == "" and srv.requests[1][1]["sessionId"] == ""
        assert all(f["sessionId"] == c._session_id for _, f in srv.requests[2:])
        assert srv.requests[1][1]["loginAccount"] == acct

    # Wrong password -> ApiError (a CloudError)
    srv = FakeNetHome(accounts, tokens)
    c = NetHomePlusCloud("US", account="plain", password="wrong", get_async_client=srv.client)
    try:
        await c.login()
        raise SystemExit("expected ApiError")
    except ApiError as e:
        assert e.code == 3101
    assert not srv.violations, srv.violations

    # The signing helper agrees with an independent computation
    sec = NetHomePlusCloud._Security()
    alphabet = "abcXYZ019 +&=%/@:_-.~"
    for _ in range(300):
        data = {"".join(rng.choice("abcdefgXYZ") for _ in range(rng.randint(1, 8))):
                rng.choice([rng.randint(0, 99), "".join(rng.choice(alphabet) for _ in range(rng.randint(0, 12)))])
                for _ in range(rng.randint(0, 8))}
        path = rng.choice(["/v1/user/login", "/v1/iot/secure/getToken", "https://mapp.appsmb.com/v1/user/login/id/get"])
        from urllib.parse import urlparse
        assert sec.sign(path, data) == ref_sign(urlparse(path).path, data)

    # Password derivation
    m1 = hashlib.sha256(b"password1").hexdigest()
    assert sec.encrypt_password("LID", "password1") == hashlib.sha256(("LID" + m1 + APP_KEY).encode()).hexdigest()
    assert sec.encrypt_password("LID2", "password1") == hashlib.sha256(("LID2" + m1 + APP_KEY).encode()).hexdigest()
    print("demo OK")


asyncio.run(main())
