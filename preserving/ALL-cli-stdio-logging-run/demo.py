"""Demonstration for change 2 (logging set-up, _run and output formatting in msmart/cli.py).

Runs the command line tool as real child processes (this file re-executes
itself with --child, installs a fake device and fake discovery, and calls
cli.main()), then checks exit statuses and that the information a user needs
is present somewhere in the combined stdout/stderr output - without depending
on which stream, which format or which wording is used.
Exits 0 on success.
"""
import os
import subprocess
import sys

STATE = bytes.fromhex(
    "aa23ac00000000000303c00145660000003c0010045c6b20000000000000000000020d79")
CAPS_0 = bytes.fromhex(
    "b50a12020101430001011402010115020101160201001a020101100201011f020103250207203c203c203c05400001000100")
CAPS_1 = bytes.fromhex("b5051e020101130201012202010019020100390001010000")


def child(argv) -> None:
    import msmart.cli as cli
    import msmart.crc8 as crc8
    from msmart.device import AirConditioner as AC
    from msmart.discover import Discover
    from msmart.frame import Frame
    from msmart.lan import LAN

    mode = os.environ.get("DEMO_MODE", "online")
    log = open(os.environ["DEMO_FRAMES"], "a") if "DEMO_FRAMES" in os.environ else None

    def make_frame(payload: bytes) -> bytes:
        body = bytes(payload) + bytes([crc8.calculate(payload)])
        frame = bytearray([0xAA, 10 + len(body), 0xAC, 0, 0, 0, 0, 0, 3, 3]) + body
        frame.append(Frame.checksum(frame[1:]))
        return bytes(frame)

    async def send(self, data, retries=3):
        if log:
            log.write(bytes(data).hex() + "\n")
            log.flush()
        if mode == "offline":
            raise TimeoutError("no response")
        if mode == "interrupt":
            raise KeyboardInterrupt()
        if mode == "oserror":
            raise OSError("network is unreachable")
        body = data[10:-1]
        if body[0] == 0xB5:
            return [make_frame(CAPS_1 if body[2] else CAPS_0)]
        if body[0] in (0x40, 0x41) and body[1] != 0x21:
            return [STATE]
        return []

    async def authenticate(self, token=None, key=None, retries=3):
        pass

    async def discover(*, target="255.255.255.255", **kwargs):
        if mode == "nodevices":
            return []
        devs = [AC(ip="10.0.0.%d" % i, port=6444, device_id=1000 + i, sn="SN%d" % i,
                   name="net_ac_%04d" % i, version=2) for i in (7, 8)]
        if target != "255.255.255.255":
            devs = devs[:1]
        if kwargs.get("auto_connect", True):
            for d in devs:
                await Discover.connect(d)
        return devs

    LAN.send = send
    LAN.authenticate = authenticate
    Discover.discover = staticmethod(discover)

    sys.argv = ["msmart-ng"] + argv
    cli.main()


def run(argv, mode="online", frames=None):
    env = dict(os.environ, DEMO_MODE=mode, PYTHONPATH=os.pathsep.join(
        [os.path.dirname(os.path.abspath(__file__)), os.environ.get("PYTHONPATH", "")]))
    if frames:
        env["DEMO_FRAMES"] = frames
    p = subprocess.run([sys.executable, os.path.abspath(__file__), "--child"] + argv,
                       capture_output=True, text=True, env=env, timeout=20)
    return p.returncode, p.stdout + p.stderr


def main() -> int:
    failures = []

    def check(cond, what, out=""):
        if not cond:
            failures.append(what)
            print("FAIL:", what, "\n", out)

    # query state: success and the reported state is shown
    rc, out = run(["query", "10.0.0.9"])
    check(rc == 0, f"query exit {rc}", out)
    for needle in ("21.0", "28.5", "COOL", "VERTICAL", "10.0.0.9"):
        check(needle in out, f"query output lacks {needle}", out)

    # query capabilities (of an automatically discovered and connected device)
    rc, out = run(["query", "10.0.0.7", "--capabilities", "--auto"])
    check(rc == 0, f"query --capabilities exit {rc}", out)
    for needle in ("supports_eco", "supported_modes", "max_target_temperature", "HEAT"):
        check(needle in out, f"capabilities output lacks {needle}", out)

    # --debug is more verbose than normal and still succeeds
    rc_d, out_d = run(["query", "10.0.0.9", "--debug"])
    check(rc_d == 0 and len(out_d) > len(run(["query", "10.0.0.9"])[1]), "debug output not more verbose", out_d)

    # offline device -> failure status and an explanation
    rc, out = run(["query", "10.0.0.9"], mode="offline")
    check(rc not in (0, None) and out.strip(), f"offline query exit {rc}", out)
    rc, out = run(["control", "10.0.0.9", "eco=1"], mode="offline")
    check(rc != 0 and out.strip(), f"offline control exit {rc}", out)

    # discover: every device is listed
    rc, out = run(["discover"])
    check(rc == 0, f"discover exit {rc}", out)
    for needle in ("10.0.0.7", "10.0.0.8", "1007", "1008", "SN7", "net_ac_0008"):
        check(needle in out, f"discover output lacks {needle}", out)
    rc, out = run(["discover", "10.0.0.7", "--count", "1"])
    check(rc == 0 and "1007" in out and "1008" not in out, f"discover single exit {rc}", out)
    rc, out = run(["discover"], mode="nodevices")
    check(rc == 0 and out.strip(), f"discover with no devices exit {rc}", out)

    # control: good settings succeed, bad ones fail before any frame is sent
    frames = os.path.join(os.path.dirname(os.path.abspath(__file__)), "_demo2_frames.txt")
    for argv, ok in [(["control", "10.0.0.9", "operational_mode=heat", "target_temperature=22.5"], True),
                     (["control", "10.0.0.9", "--debug", "fan_speed=55", "beep=1"], True),
                     (["control", "10.0.0.9", "bogus=1"], False),
                     (["control", "10.0.0.9", "--debug", "eco=perhaps"], False),
                     (["control", "10.0.0.9", "eco"], False),
                     (["control", "10.0.0.9", "eco=1=1"], False)]:
        open(frames, "w").close()
        rc, out = run(argv, frames=frames)
        sent = open(frames).read().split()
        if ok:
            check(rc == 0, f"{argv} exit {rc}", out)
            check(sum(1 for f in sent if f[18:22] == "0240") == 1, f"{argv}: set-state frames {sent}", out)
        else:
            check(rc != 0, f"{argv} accepted", out)
            check(sent == [], f"{argv} sent {sent}", out)
    os.remove(frames)

    # failures that are not the device's fault still end the process unsuccessfully ...
    rc, out = run(["query", "10.0.0.9"], mode="oserror")
    check(rc != 0 and "unreachable" in out, f"OSError exit {rc}", out)
    # ... and an interrupt ends it quietly (0 or the conventional 128+SIGINT)
    rc, out = run(["query", "10.0.0.9"], mode="interrupt")
    check(rc in (0, 130) and "Traceback" not in out, f"interrupt exit {rc}", out)

    # usage errors
    rc, out = run(["frobnicate"])
    check(rc == 2, f"unknown command exit {rc}", out)
    rc, out = run(["--version"])
    check(rc == 0 and "msmart-ng" in out, f"--version exit {rc}", out)

    print("demo2: %d failures" % len(failures))
    return 1 if failures else 0


if __name__ == "__main__":
    if len(sys.argv) > 1 and sys.argv[1] == "--child":
        child(sys.argv[2:])
    else:
        sys.exit(main())
