"""Demo 1: decoding the same frames repeatedly (accepted and rejected) gives the same, independent results."""
import asyncio
import logging
import sys
from unittest.mock import patch

import msmart.crc8 as crc8
from msmart.device import AirConditioner as AC
from msmart.device.AC.command import (CapabilitiesResponse, EnergyUsageResponse,
                                      HumidityResponse,
                                      InvalidResponseException,
                                      PropertiesResponse, Response,
                                      StateResponse)
from msmart.frame import Frame, InvalidFrameException

logging.basicConfig(level=logging.CRITICAL)


def frame(body: bytes, frame_type: int = 0x03, crc: bool = True, good_crc: bool = True) -> bytes:
    body = bytes(body)
    check = crc8.calculate(body) if crc else Frame.checksum(body)
    if not good_crc:
        check ^= 0x5A
    data = bytearray([0xAA, 10 + len(body) + 1, 0xAC, 0, 0, 0, 0, 0, 0, frame_type]) + body + bytes([check])
    data.append(Frame.checksum(data[1:]))
    return bytes(data)


def check(cond, what):
    if not cond:
        print("FAIL:", what)
        sys.exit(1)


STATE = bytes.fromhex("aa23ac00000000000303c00145660000003c0010045c6b20000000000000000000020d79")
CAPS = bytes.fromhex(
    "aa29ac00000000000303b5071202010113020101140201011502010116020101170201001a020101dedb")
STATE_BODY = bytes([0xC0, 0x01, 0x45, 0x66, 0, 0, 0, 0x3C, 0, 0x10, 0x04, 0x5C, 0x6B, 0x20, 0, 0, 0, 0, 0, 0, 0, 0, 0, 2])
ENERGY_BODY = bytes([0xC1, 0x21, 0x01, 0x44, 0x00, 0x01, 0x50, 0x40, 0, 0, 0, 0, 0, 0, 0x12, 0x34, 0, 0x06, 0x50, 0, 0])
HUMID_BODY = bytes([0xC1, 0x21, 0x01, 0x45, 0x37, 0, 0, 0, 0, 0, 0, 0, 0, 0, 0, 0, 0, 0, 0, 0])
PROPS_BODY = bytes([0xB1, 0x02, 0x09, 0x00, 0x00, 0x01, 0x32, 0x0A, 0x00, 0x00, 0x01, 0x19, 0x00])


def same_state(a: StateResponse, b: StateResponse) -> bool:
    return {k: v for k, v in vars(a).items()} == {k: v for k, v in vars(b).items()}


# 1. The same accepted frames, decoded several times and from different bytes-like objects
for _ in range(3):
    for raw in (STATE, bytearray(STATE), memoryview(STATE)):
        r = Response.construct(raw)
        check(type(r) is StateResponse and r.id == 0xC0, "state class")
        check(r.power_on is True and r.target_temperature == 21.0 and r.fan_speed == 0x66, "state values")
        check(r.payload == STATE[10:-2], "payload")

first = Response.construct(frame(STATE_BODY))
again = Response.construct(frame(STATE_BODY))
check(first is not again and same_state(first, again), "independent equal state objects")
additive = Response.construct(frame(STATE_BODY, crc=False))
check(same_state(first, additive) or first.payload == additive.payload, "additive check style accepted")

e1 = Response.construct(frame(ENERGY_BODY))
e2 = Response.construct(frame(ENERGY_BODY))
check(type(e1) is EnergyUsageResponse and vars(e1) == vars(e2), "energy")
h1 = Response.construct(frame(HUMID_BODY))
h2 = Response.construct(frame(HUMID_BODY))
check(type(h1) is HumidityResponse and h1.humidity == h2.humidity == 0x37, "humidity")

# Property responses are accepted whatever their body check byte is
for good in (True, False, True, False):
    p = Response.construct(frame(PROPS_BODY, good_crc=good))
    check(type(p) is PropertiesResponse, "props class")

# 2. Capability responses decoded from the same bytes are independent objects
c1 = Response.construct(CAPS)
c2 = Response.construct(CAPS)
check(type(c1) is CapabilitiesResponse and type(c2) is CapabilitiesResponse, "caps class")
check(c1 is not c2 and c1.raw_capabilities == c2.raw_capabilities, "caps equal")
before = dict(c2.raw_capabilities)
other = Response.construct(frame(bytes([0xB5, 0x01, 0x1E, 0x02, 0x01, 0x01, 0x00, 0x00])))
c1.merge(other)
check(c1.anion is True, "merge applied")
check(dict(c2.raw_capabilities) == before and c2.anion is False, "merge did not leak into the other object")
c3 = Response.construct(CAPS)
check(dict(c3.raw_capabilities) == before, "later decode unaffected by merge")
# Unsolicited capabilities (frame type 5) are a plain response, every time
for _ in range(2):
    u = Response.construct(frame(bytes([0xB5, 0x01, 0x1E, 0x02, 0x01, 0x01, 0x00, 0x00]), frame_type=0x05))
    check(type(u) is Response, "unsolicited caps")

# 3. Rejected frames are rejected every time with the same class and text, by a fresh exception
bad_sum = bytearray(STATE)
bad_sum[12] ^= 0x01
bad_crc = frame(STATE_BODY, good_crc=False)
short = bytes.fromhex("aa0bac0000000000000303")[:8]
trunc_state = frame(STATE_BODY[:9])
for raw, exc in ((bytes(bad_sum), InvalidFrameException), (bad_crc, InvalidResponseException),
                 (short, (InvalidFrameException, InvalidResponseException)), (b"", InvalidResponseException),
                 (trunc_state, InvalidResponseException)):
    seen = []
    for _ in range(3):
        try:
            Response.construct(raw)
        except (InvalidFrameException, InvalidResponseException) as e:
            check(isinstance(e, exc), f"class {type(e)} for {raw.hex()}")
            seen.append(e)
        else:
            check(False, f"accepted {raw.hex()}")
    check(len({str(e) for e in seen}) == 1 and len({type(e) for e in seen}) == 1, "same text and class")
    check(len({id(e) for e in seen}) == 3, "fresh exception objects")

# A frame differing from a rejected one in a single byte is judged on its own
check(type(Response.construct(STATE)) is StateResponse, "good frame after its corrupted sibling")

# 4. More distinct frames than any cache could hold, twice over
for _round in range(2):
    for i in range(600):
        body = bytearray(STATE_BODY)
        body[3] = i & 0x7F
        body[22] = i >> 7
        r = Response.construct(frame(body))
        check(r.fan_speed == (i & 0x7F), "many frames")
        bad = bytearray(frame(body))
        bad[11] ^= 0x80
        try:
            Response.construct(bytes(bad))
            check(False, "corrupted accepted")
        except InvalidFrameException:
            pass


# 5. Through the device: repeated refreshes with the same frames, corrupted frames in between
async def main():
    dev = AC("0.0.0.0", 1, 6444)
    answers = [[STATE], [bytes(bad_sum), bad_crc], [STATE, bytes(bad_sum)], [bad_crc], [STATE]]
    expect = [(True, True), (False, False), (True, True), (False, False), (True, True)]
    for frames, (online, supported) in zip(answers, expect):
        with patch("msmart.base_device.Device._send_command", return_value=frames):
            dev.target_temperature = 17.0
            await dev.refresh()
        check(dev.online is online and dev.supported is supported, f"online/supported {frames}")
        check(dev.target_temperature == (21.0 if online else 17.0), "state applied only from valid frames")

asyncio.run(main())
print("OK")
