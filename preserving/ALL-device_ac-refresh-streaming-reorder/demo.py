"""Demo for change 1 (refresh: streaming updates, new query order, sorted property ids).

Exercises AirConditioner.refresh() against a scripted in-memory device. Order independent:
passes on the original code and with the change applied.
"""
import asyncio
import logging
import struct
import sys

import msmart.crc8 as crc8
from msmart.const import FrameType
from msmart.device import AirConditioner as AC
from msmart.device.AC.command import PropertyId
from msmart.frame import Frame

logging.disable(logging.CRITICAL)


def frame(body: bytes, frame_type=FrameType.QUERY, crc=True) -> bytes:
    body = bytes(body)
    body += bytes([crc8.calculate(body) if crc else 0x00])
    hdr = bytearray(10)
    hdr[0] = 0xAA
    hdr[1] = len(body) + 10
    hdr[2] = 0xAC
    hdr[9] = frame_type
    f = bytearray(hdr + body)
    f.append(Frame.checksum(f[1:]))
    return bytes(f)


def state_frame(power=True, mode=2, temp=22.5, fan=60, swing=0xC, eco=True, turbo=False,
                sleep=True, fahrenheit=False, indoor=25.0, outdoor=31.5, humidity=55,
                freeze=False, display=True) -> bytes:
    b = bytearray(24)
    b[0] = 0xC0
    b[1] = 0x1 if power else 0
    whole = int(temp)
    b[2] = ((whole - 16) & 0xF) | (0x10 if temp != whole else 0) | (mode << 5)
    b[3] = fan
    b[7] = 0x30 | swing
    b[8] = 0x20 if turbo else 0
    b[9] = 0x10 if eco else 0
    b[10] = (0x1 if sleep else 0) | (0x2 if turbo else 0) | (0x4 if fahrenheit else 0)
    b[11] = int(indoor * 2 + 50)
    b[12] = int(outdoor * 2 + 50)
    b[14] = 0x00 if display else 0x70
    b[19] = humidity
    b[21] = 0x80 if freeze else 0
    b[23] = 0x42  # message id
    return frame(b[:24], FrameType.QUERY)


def props_frame(props: dict, rid=0xB1) -> bytes:
    b = bytearray([rid, len(props)])
    for pid, raw in props.items():
        b += struct.pack("<H", pid) + bytes([0x00, len(raw)]) + bytes(raw)
    b += bytes([0x07])  # message id
    return frame(b, FrameType.QUERY)


def humidity_frame(h: int) -> bytes:
    b = bytearray(20)
    b[0], b[1], b[2], b[3], b[4] = 0xC1, 0x21, 0x01, 0x45, h
    return frame(b)


def energy_frame() -> bytes:
    b = bytearray(21)
    b[0], b[1], b[2], b[3] = 0xC1, 0x21, 0x01, 0x44
    b[4:8] = bytes([0x00, 0x12, 0x34, 0x56])   # total   1234.56 (BCD)
    b[12:16] = bytes([0x00, 0x00, 0x07, 0x50])  # current 7.5
    b[16:19] = bytes([0x00, 0x12, 0x30])       # power   123.0
    return frame(b)


class FakeLan:
    """Stands in for msmart.lan.LAN; answers by request kind."""

    def __init__(self, answer):
        self.answer = answer
        self.sent = []
        self.token = None
        self.key = None

    @staticmethod
    def kind(req: bytes) -> str:
        body = req[10:-1]
        if body[0] == 0xB1:
            return "properties"
        if body[0] == 0xB5:
            return "capabilities"
        if body[0] == 0x41 and body[1] == 0x21 and body[3] == 0x44:
            return "energy"
        if body[0] == 0x41 and body[1] == 0x21 and body[3] == 0x45:
            return "humidity"
        if body[0] == 0x41:
            return "state"
        return "other"

    async def send(self, data: bytes, retries: int = 3):
        # The request must be a well formed frame
        assert data[0] == 0xAA and data[1] == len(data) - 1 and data[2] == 0xAC
        assert Frame.checksum(data[1:-1]) == data[-1]
        assert crc8.calculate(data[10:-2]) == data[-2]
        self.sent.append(data)
        await asyncio.sleep(0)
        out = self.answer(self.kind(data), data)
        if out is None:
            raise TimeoutError("No response from host.")
        return list(out)


def check_ids(sent):
    ids = [f[-3] for f in sent]
    for a, b in zip(ids, ids[1:]):
        assert b == (a + 1) & 0xFF, ids


def make(answer, props=(), humidity=False, energy=False):
    dev = AC("10.0.0.1", 1234, 6444)
    dev._lan = FakeLan(answer)
    dev._supported_properties.update(props)
    dev._supports_humidity = humidity
    dev._request_energy_usage = energy
    return dev


async def main():
    # 1. Full featured device, every query answered
    PROPS = {PropertyId.SWING_UD_ANGLE, PropertyId.SWING_LR_ANGLE, PropertyId.RATE_SELECT,
             PropertyId.BREEZE_CONTROL, PropertyId.IECO, PropertyId.SELF_CLEAN}

    def full(kind, req):
        if kind == "state":
            return [state_frame()]
        if kind == "properties":
            # Must ask for exactly the advertised ids, each once
            n = req[11]
            ids = [struct.unpack("<H", req[12 + 2 * i:14 + 2 * i])[0] for i in range(n)]
            assert sorted(ids) == sorted(PROPS) and len(set(ids)) == n, ids
            return [props_frame({
                PropertyId.SWING_UD_ANGLE: [50], PropertyId.SWING_LR_ANGLE: [100],
                PropertyId.RATE_SELECT: [40], PropertyId.BREEZE_CONTROL: [3],
                PropertyId.IECO: [1, 1], PropertyId.SELF_CLEAN: [1]})]
        if kind == "humidity":
            return [humidity_frame(47)]
        if kind == "energy":
            return [energy_frame()]
        return []

    dev = make(full, PROPS, humidity=True, energy=True)
    await dev.refresh()
    kinds = sorted(FakeLan.kind(f) for f in dev._lan.sent)
    assert kinds == ["energy", "humidity", "properties", "state"], kinds
    check_ids(dev._lan.sent)
    assert dev.online and dev.supported
    assert dev.power_state is True and dev.operational_mode == AC.OperationalMode.COOL
    assert dev.target_temperature == 22.5 and dev.fan_speed == AC.FanSpeed.MEDIUM
    assert dev.swing_mode == AC.SwingMode.VERTICAL and dev.eco is True and dev.sleep is True
    assert dev.turbo is False and dev.fahrenheit is False and dev.display_on is True
    assert dev.indoor_temperature == 25.0 and dev.outdoor_temperature == 31.5
    assert dev.target_humidity == 55 and dev.freeze_protection is False
    assert dev.vertical_swing_angle == AC.SwingAngle.POS_3
    assert dev.horizontal_swing_angle == AC.SwingAngle.POS_5
    assert dev.rate_select == AC.RateSelect.LEVEL_3
    assert dev.breeze_mild is True and not dev.breeze_away and not dev.breezeless
    assert dev.ieco is True and dev.self_clean_active is True
    assert dev.indoor_humidity == 47
    assert abs(dev.total_energy_usage - 1234.56) < 1e-6
    assert abs(dev.current_energy_usage - 7.5) < 1e-6
    assert abs(dev.real_time_power_usage - 123.0) < 1e-6

    # 2. Plain device: only the state query is sent
    dev = make(lambda k, r: [state_frame(power=False, temp=30.0, mode=4)])
    await dev.refresh()
    assert [FakeLan.kind(f) for f in dev._lan.sent] == ["state"]
    assert dev.online and dev.supported and dev.power_state is False
    assert dev.target_temperature == 30.0 and dev.operational_mode == AC.OperationalMode.HEAT

    # 3. Silent device: every query still attempted once, device offline, state untouched
    dev = make(lambda k, r: None, {PropertyId.IECO}, humidity=True, energy=True)
    dev._online = True
    before = dev.to_dict()
    await dev.refresh()
    assert len(dev._lan.sent) == 4
    check_ids(dev._lan.sent)
    assert not dev.online and not dev.supported
    after = dev.to_dict()
    assert {k: v for k, v in before.items() if k not in ("online", "supported")} == \
        {k: v for k, v in after.items() if k not in ("online", "supported")}

    # 4. Only the state query is answered: online, state applied, others unknown
    dev = make(lambda k, r: [state_frame(fan=33)] if k == "state" else None,
               {PropertyId.IECO}, humidity=True, energy=True)
    await dev.refresh()
    assert len(dev._lan.sent) == 4
    assert dev.online and dev.fan_speed == 33
    assert dev.indoor_humidity is None and dev.total_energy_usage is None

    # 5. Only corrupted frames: offline and unsupported, state unchanged
    def corrupt(kind, req):
        f = bytearray(state_frame(power=True, temp=19.0))
        f[12] ^= 0x55
        return [bytes(f)]

    dev = make(corrupt, humidity=True)
    await dev.refresh()
    assert not dev.online and not dev.supported
    assert dev.power_state is False and dev.target_temperature == 17.0

    # 6. Unsolicited extra frame delivered with another query's answer is still applied,
    #    and a bad frame next to a good one doesn't spoil the good one
    def chatty(kind, req):
        if kind == "state":
            return [b"\xaa\x03", state_frame(temp=24.0)]
        if kind == "humidity":
            return [humidity_frame(61), props_frame({PropertyId.IECO: [1, 1]})]
        return []

    dev = make(chatty, humidity=True)
    await dev.refresh()
    assert dev.online and dev.target_temperature == 24.0
    assert dev.indoor_humidity == 61 and dev.ieco is True

    print("demo OK")


if __name__ == "__main__":
    asyncio.run(main())
    sys.exit(0)
