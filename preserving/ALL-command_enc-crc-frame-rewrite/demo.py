"""Demo for change 3: CRC-8, frame checksum and frame assembly.

Checks crc8.calculate against an independent bit-wise CRC-8/MAXIM, Frame.checksum against the
two's-complement definition and Frame.tobytes for every possible data length and input type.
"""
import random
import sys

import msmart.crc8 as crc8
from msmart.const import DeviceType, FrameType
from msmart.device.AC.command import (GetCapabilitiesCommand,
                                      GetEnergyUsageCommand,
                                      GetHumidityCommand, GetStateCommand,
                                      ToggleDisplayCommand)
from msmart.frame import Frame, InvalidFrameException


def crc8_maxim(data) -> int:
    crc = 0
    for b in data:
        crc ^= b
        for _ in range(8):
            crc = (crc >> 1) ^ 0x8C if crc & 1 else crc >> 1
    return crc


def main() -> int:
    rng = random.Random(1234)

    # CRC: known vector from a real frame, every single byte, random buffers of all kinds
    vector = bytes.fromhex("418100ff03ff00020000000000000000000000000311")
    assert crc8.calculate(vector) == 0xF4
    assert crc8.calculate(b"") == 0
    for i in range(256):
        assert crc8.calculate(bytes([i])) == crc8_maxim([i])
        assert crc8.calculate(bytes([0xA5, i])) == crc8_maxim([0xA5, i])
    for _ in range(500):
        data = bytes(rng.randrange(256) for _ in range(rng.randrange(0, 64)))
        want = crc8_maxim(data)
        assert crc8.calculate(data) == want
        assert crc8.calculate(bytearray(data)) == want
        with memoryview(data) as mv:
            assert crc8.calculate(mv) == want
            assert crc8.calculate(mv[0:]) == want

    # Checksum: makes the sum of everything after the start byte zero modulo 256
    for _ in range(500):
        data = bytes(rng.randrange(256) for _ in range(rng.randrange(0, 300)))
        c = Frame.checksum(data)
        assert 0 <= c <= 255 and (sum(data) + c) % 256 == 0
        with memoryview(data) as mv:
            assert Frame.checksum(mv) == c
    assert Frame.checksum(b"") == 0 and Frame.checksum(b"\x00" * 5) == 0

    # Frame assembly for every legal data length and for each frame type
    for frame_type in FrameType:
        for n in range(0, 246):
            data = bytes(rng.randrange(256) for _ in range(n))
            for arg in (data, bytearray(data)):
                frame = Frame(DeviceType.AIR_CONDITIONER, frame_type).tobytes(arg)
                assert isinstance(frame, bytes) and len(frame) == n + 11
                assert frame[0] == 0xAA and frame[1] == n + 10 and frame[2] == 0xAC
                assert frame[3:8] == bytes(5) and frame[9] == frame_type
                assert frame[10:-1] == data
                assert sum(frame[1:]) % 256 == 0
                with memoryview(frame) as mv:
                    Frame.validate(mv)
    # No data at all
    frame = Frame(DeviceType.AIR_CONDITIONER, FrameType.QUERY).tobytes()
    assert len(frame) == 11 and frame[1] == 10

    # Too long for the one byte length field
    for n in (246, 300):
        try:
            Frame(DeviceType.AIR_CONDITIONER, FrameType.QUERY).tobytes(bytes(n))
        except ValueError as e:
            print(f"{n} bytes refused: {e}")
        else:
            raise AssertionError("overlong frame accepted")

    # A corrupted frame is still refused
    bad = bytearray(GetStateCommand().tobytes())
    bad[12] ^= 0x01
    try:
        with memoryview(bytes(bad)) as mv:
            Frame.validate(mv)
    except InvalidFrameException:
        pass
    else:
        raise AssertionError("corrupted frame accepted")

    # Fixed commands are well formed
    for cmd in (GetStateCommand(), GetEnergyUsageCommand(), GetHumidityCommand(),
                GetCapabilitiesCommand(), GetCapabilitiesCommand(True), ToggleDisplayCommand()):
        frame = cmd.tobytes()
        assert frame[1] == len(frame) - 1 and sum(frame[1:]) % 256 == 0
        body = frame[10:-1]
        assert crc8_maxim(body[:-1]) == body[-1]
        print(type(cmd).__name__, frame.hex())

    print("OK")
    return 0


if __name__ == "__main__":
    sys.exit(main())
