"""Demo for change 1 (apply-lock-per-loop): the 0x40 body on the wire encodes exactly the requested state.

Runs a simulated V2 unit on 127.0.0.1, drives AirConditioner.apply() sequentially, from two
overlapping tasks, after a cancelled apply and from a second event loop, and decodes every
0x40 body with an independent decoder of the vendor bit layout.  Exits 0 on success.
"""
import asyncio
import itertools
import logging
import random
import sys

import msmart.crc8 as crc8
from msmart.device import AirConditioner as AC
from msmart.frame import Frame
from msmart.lan import _Packet

logging.disable(logging.CRITICAL)

FIELDS = ("power", "mode", "temp", "fan", "swing", "eco", "turbo", "sleep", "fahrenheit",
          "freeze", "follow_me", "purifier", "humidity", "aux", "beep")


def vendor_decode(b: bytes) -> dict:
    """Decode a 0x40 control body (vendor layout, linear alternate temperature)."""
    assert b[0] == 0x40 and len(b) == 26, b.hex()
    assert crc8.calculate(b[:-1]) == b[-1]
    assert b[1] & 0x02, "client mode: mobile"
    alt = b[18] & 0x1F
    temp = (alt + 12) if alt else (b[2] & 0x0F) + 16
    temp += 0.5 if b[2] & 0x10 else 0.0
    assert bool(b[8] & 0x20) == bool(b[10] & 0x02), "both turbo bits agree"
    aux = 2 if b[22] & 0x08 else (1 if b[9] & 0x08 else 0)
    assert not (b[22] & 0x08 and b[9] & 0x08)
    return {
        "power": bool(b[1] & 0x01), "beep": bool(b[1] & 0x40),
        "mode": b[2] >> 5, "temp": temp, "fan": b[3] & 0x7F, "swing": b[7] & 0x0F,
        "turbo": bool(b[8] & 0x20), "follow_me": bool(b[8] & 0x80),
        "eco": bool(b[9] & 0x80), "purifier": bool(b[9] & 0x20),
        "sleep": bool(b[10] & 0x01), "fahrenheit": bool(b[10] & 0x04),
        "humidity": b[19] & 0x7F, "freeze": bool(b[21] & 0x80), "aux": aux,
    }


def state_reply(s: dict, msg_id: int) -> bytes:
    """Build a 0xC0 frame echoing state s."""
    p = bytearray(24)
    p[0] = 0xC0
    p[1] = 1 if s["power"] else 0
    whole = int(s["temp"])
    p[2] = (s["mode"] << 5) | (0x10 if s["temp"] != whole else 0)
    if 17 <= whole <= 30:
        p[2] |= (whole - 16) & 0xF
    else:
        p[13] = (whole - 12) & 0x1F
    p[3] = s["fan"]
    p[7] = s["swing"]
    p[8] = (0x20 if s["turbo"] else 0) | (0x80 if s["follow_me"] else 0) | (0x40 if s["aux"] == 2 else 0)
    p[9] = (0x10 if s["eco"] else 0) | (0x20 if s["purifier"] else 0) | (0x08 if s["aux"] == 1 else 0)
    p[10] = (1 if s["sleep"] else 0) | (2 if s["turbo"] else 0) | (4 if s["fahrenheit"] else 0)
    p[11] = p[12] = 0xFF
    p[19] = s["humidity"]
    p[21] = 0x80 if s["freeze"] else 0
    p[23] = msg_id
    body = bytes(p) + bytes([crc8.calculate(p)])
    frame = bytearray([0xAA, 10 + len(body), 0xAC, 0, 0, 0, 0, 0, 0, 0x02]) + body
    frame.append(Frame.checksum(frame[1:]))
    return bytes(frame)


class Unit:
    """Simulated V2 unit recording every 0x40 body it receives."""

    def __init__(self, delay: float = 0.0) -> None:
        self.bodies = []
        self.delay = delay
        self.server = None
        self.port = None
        self.connections = 0

    async def start(self) -> None:
        self.server = await asyncio.start_server(self._client, "127.0.0.1", 0)
        self.port = self.server.sockets[0].getsockname()[1]

    async def stop(self) -> None:
        self.server.close()

    async def _client(self, reader, writer) -> None:
        self.connections += 1
        buf = b""
        try:
            while True:
                data = await reader.read(4096)
                if not data:
                    return
                buf += data
                while len(buf) >= 6:
                    assert buf[:2] == b"\x5a\x5a", buf.hex()
                    size = int.from_bytes(buf[4:6], "little")
                    if len(buf) < size:
                        break
                    packet, buf = buf[:size], buf[size:]
                    frame = _Packet.decode(packet)
                    assert frame[0] == 0xAA and Frame.checksum(frame[1:-1]) == frame[-1]
                    body = frame[10:-1]
                    if body[0] == 0x40:
                        self.bodies.append(bytes(body))
                    if self.delay:
                        await asyncio.sleep(self.delay)
                    if body[0] == 0x40:
                        assert frame[9] == 0x02 and frame[2] == 0xAC
                        reply = state_reply(vendor_decode(body), body[-2])
                    else:
                        # Acknowledge anything else with an empty property list
                        p = bytes([0xB0, 0x00, body[-2]])
                        p += bytes([crc8.calculate(p)])
                        f = bytearray([0xAA, 10 + len(p), 0xAC, 0, 0, 0, 0, 0, 0, 0x02]) + p
                        f.append(Frame.checksum(f[1:]))
                        reply = bytes(f)
                    writer.write(_Packet.encode(1234, reply))
                    await writer.drain()
        except (ConnectionError, asyncio.CancelledError):
            pass
        finally:
            writer.close()


def set_state(dev: AC, s: dict) -> None:
    dev.power_state = s["power"]
    dev.operational_mode = AC.OperationalMode(s["mode"])
    dev.target_temperature = s["temp"]
    try:
        dev.fan_speed = AC.FanSpeed(s["fan"])
    except ValueError:
        dev.fan_speed = s["fan"]
    dev.swing_mode = AC.SwingMode(s["swing"])
    dev.eco = s["eco"]
    dev.turbo = s["turbo"]
    dev.sleep = s["sleep"]
    dev.fahrenheit = s["fahrenheit"]
    dev.freeze_protection = s["freeze"]
    dev.follow_me = s["follow_me"]
    dev.purifier = s["purifier"]
    dev.target_humidity = s["humidity"]
    dev.aux_mode = AC.AuxHeatMode(s["aux"])
    dev.beep = s["beep"]


def random_state(rng: random.Random) -> dict:
    return {
        "power": rng.random() < 0.5, "mode": rng.randint(1, 6),
        "temp": rng.randint(26, 86) / 2, "fan": rng.randint(1, 102),
        "swing": rng.choice([0x0, 0xC, 0x3, 0xF]),
        "eco": rng.random() < 0.5, "turbo": rng.random() < 0.5, "sleep": rng.random() < 0.5,
        "fahrenheit": rng.random() < 0.5, "freeze": rng.random() < 0.5,
        "follow_me": rng.random() < 0.5, "purifier": rng.random() < 0.5,
        "humidity": rng.randint(30, 99), "aux": rng.randint(0, 2), "beep": rng.random() < 0.5,
    }


def check(unit: Unit, expected: list) -> None:
    """Every recorded body decodes to the expected state; distinct states -> distinct bodies."""
    assert len(unit.bodies) == len(expected), (len(unit.bodies), len(expected))
    seen = {}
    for body, want in zip(unit.bodies, expected):
        got = vendor_decode(body)
        assert got == want, f"\n got {got}\nwant {want}\nbody {body.hex()}"
        key = tuple(want[f] for f in FIELDS)
        core = body[:24]  # without message id and CRC
        assert seen.setdefault(core, key) == key, "two states share a body"
    unit.bodies.clear()


async def sequential(n: int, seed: int) -> None:
    unit = Unit()
    await unit.start()
    dev = AC(ip="127.0.0.1", port=unit.port, device_id=1234)
    rng = random.Random(seed)
    states = [random_state(rng) for _ in range(n)]
    # all 62 half-degree setpoints crossed with a rolling mode
    for i, t in enumerate(range(26, 87)):
        s = random_state(rng)
        s["temp"], s["mode"] = t / 2, 1 + i % 6
        states.append(s)
    for s in states:
        set_state(dev, s)
        await dev.apply()
        # read-back through the echoed 0xC0
        assert dev.target_temperature == s["temp"] and dev.power_state == s["power"]
    check(unit, states)
    assert unit.connections == 1
    await unit.stop()
    dev._lan._disconnect()


async def overlapping(seed: int) -> None:
    """Two tasks apply on one object; each command carries the settings current at its call."""
    unit = Unit(delay=0.05)
    await unit.start()
    dev = AC(ip="127.0.0.1", port=unit.port, device_id=1234)
    rng = random.Random(seed)
    await dev.apply()  # open the connection first
    unit.bodies.clear()
    for _ in range(5):
        a, b = random_state(rng), random_state(rng)
        set_state(dev, a)
        ta = asyncio.ensure_future(dev.apply())
        await asyncio.sleep(0)  # let task a take its snapshot and start
        set_state(dev, b)
        tb = asyncio.ensure_future(dev.apply())
        await asyncio.gather(ta, tb)
        decoded = [vendor_decode(x) for x in unit.bodies]
        assert len(decoded) == 2 and a in decoded and b in decoded, decoded
        unit.bodies.clear()
    await unit.stop()
    dev._lan._disconnect()


async def cancelled_then_apply(seed: int) -> None:
    """An apply abandoned by its caller does not prevent or corrupt the next one."""
    unit = Unit(delay=0.2)
    await unit.start()
    dev = AC(ip="127.0.0.1", port=unit.port, device_id=1234)
    rng = random.Random(seed)
    a, b = random_state(rng), random_state(rng)
    set_state(dev, a)
    task = asyncio.ensure_future(dev.apply())
    await asyncio.sleep(0.05)
    task.cancel()
    await asyncio.gather(task, return_exceptions=True)
    unit.delay = 0
    set_state(dev, b)
    await asyncio.wait_for(dev.apply(), timeout=10)
    assert vendor_decode(unit.bodies[0]) == a
    assert vendor_decode(unit.bodies[-1]) == b
    assert all(vendor_decode(x) in (a, b) for x in unit.bodies)
    await unit.stop()
    dev._lan._disconnect()


def second_loop(seed: int) -> None:
    """One device object used from two event loops, with contention in both."""
    rng = random.Random(seed)
    dev_box = []

    async def run() -> None:
        unit = Unit(delay=0.02)
        await unit.start()
        if not dev_box:
            dev_box.append(AC(ip="127.0.0.1", port=unit.port, device_id=1234))
        dev = dev_box[0]
        dev._port = unit.port
        dev._lan._port = unit.port
        dev._lan._disconnect()
        a, b = random_state(rng), random_state(rng)
        set_state(dev, a)
        ta = asyncio.ensure_future(dev.apply())
        await asyncio.sleep(0)
        set_state(dev, b)
        tb = asyncio.ensure_future(dev.apply())
        await asyncio.gather(ta, tb)
        decoded = [vendor_decode(x) for x in unit.bodies]
        # (retransmissions are allowed; every body is one of the two requested states)
        assert a in decoded and b in decoded and all(d in (a, b) for d in decoded), decoded
        await unit.stop()
        dev._lan._disconnect()

    asyncio.run(run())
    asyncio.run(run())


def main() -> int:
    asyncio.run(sequential(150, seed=1))
    asyncio.run(overlapping(seed=2))
    asyncio.run(cancelled_then_apply(seed=3))
    second_loop(seed=4)
    print("demo: OK")
    return 0


if __name__ == "__main__":
    sys.exit(main())
