"""Demonstration for property C02: the V2 packet codec interoperates with an independent implementation.

Run: cd <worktree> && PYTHONPATH=<worktree> /venv/bin/python demo.py
Exits 0 when every frame / device id round-trips both ways.
"""
import asyncio
import hashlib
import os
import random
import sys
from datetime import datetime, timezone
from unittest import mock

from Crypto.Cipher import AES

import msmart.lan as lan
from msmart.lan import LAN, _LanProtocol, _Packet

# ---------------------------------------------------------------------------
# Independent implementation of the V2 packet format (written from the format
# description only: does not call into msmart)
# ---------------------------------------------------------------------------
REF_SIGN_KEY = b"xhdiwjnchekd4d512chdjx5d8e4c394D2D7S"
REF_ENC_KEY = hashlib.md5(REF_SIGN_KEY).digest()


def ref_encode(device_id: int, frame: bytes, *, filler: bytes = bytes(4 + 8), tail: bytes = bytes(12)) -> bytes:
    pad = 16 - len(frame) % 16
    padded = frame + bytes([pad]) * pad
    enc = b"".join(AES.new(REF_ENC_KEY, AES.MODE_ECB).encrypt(padded[i:i+16])
                   for i in range(0, len(padded), 16))
    total = 40 + len(enc) + 16
    pkt = bytes([0x5A, 0x5A, 0x01, 0x11, total & 0xFF, total >> 8, 0x20, 0x00])
    pkt += filler  # message id + timestamp: free
    pkt += bytes((device_id >> (8 * i)) & 0xFF for i in range(8))
    pkt += tail
    pkt += enc
    return pkt + hashlib.md5(pkt + REF_SIGN_KEY).digest()


def ref_decode(pkt: bytes) -> tuple:
    assert isinstance(pkt, (bytes, bytearray)), type(pkt)
    assert pkt[0] == 0x5A and pkt[1] == 0x5A, "start marker"
    total = pkt[4] | (pkt[5] << 8)
    assert total == len(pkt), f"total length field {total} != {len(pkt)}"
    assert total >= 40 + 16 + 16
    body, sign = pkt[:-16], pkt[-16:]
    assert hashlib.md5(body + REF_SIGN_KEY).digest() == sign, "signature"
    enc = body[40:]
    assert len(enc) % 16 == 0 and len(enc) >= 16
    dec = b"".join(AES.new(REF_ENC_KEY, AES.MODE_ECB).decrypt(enc[i:i+16])
                   for i in range(0, len(enc), 16))
    pad = dec[-1]
    assert 1 <= pad <= 16 and dec[-pad:] == bytes([pad]) * pad, "pkcs7"
    device_id = sum(b << (8 * i) for i, b in enumerate(body[20:28]))
    return bytes(dec[:-pad]), device_id


# ---------------------------------------------------------------------------
FAILURES = []


def check(cond: bool, what: str) -> None:
    if not cond:
        FAILURES.append(what)
        print("FAIL:", what)


def frames():
    rng = random.Random(2)
    for n in range(256):
        yield bytes(rng.getrandbits(8) for _ in range(n))
    # Degenerate contents that look like padding / markers
    for n in (1, 15, 16, 17, 31, 32, 33, 255):
        yield bytes([0x10]) * n
        yield bytes(n)
        yield bytes([n & 0xFF]) * n
        yield bytes([0x5A]) * n
        yield bytes([0xFF]) * n


DEVICE_IDS = [0, 1, 0xFF, 0x100, 0xFFFF, 0x10000, 123456, 0xFFFFFFFF, 0x100000000,
              0xFFFFFFFFFFFF, 0x1000000000000, 0x7FFFFFFFFFFFFFFF, 0x8000000000000000,
              2**64 - 1, 0x0102030405060708, 152832116426242]

TIMES = [
    datetime(2000, 1, 1, 0, 0, 0, 0, tzinfo=timezone.utc),
    datetime(1999, 12, 31, 23, 59, 59, 999999, tzinfo=timezone.utc),
    datetime(2024, 2, 29, 12, 30, 30, 500000, tzinfo=timezone.utc),
    datetime(2099, 12, 31, 23, 59, 59, 990000, tzinfo=timezone.utc),
    datetime(1970, 1, 1, tzinfo=timezone.utc),
    datetime(9999, 12, 31, 23, 59, 59, 999999, tzinfo=timezone.utc),
    datetime(1, 1, 1, tzinfo=timezone.utc),
]


class FakeDatetime(datetime):
    current = TIMES[0]

    @classmethod
    def now(cls, tz=None):
        return cls.current if tz is not None else cls.current.replace(tzinfo=None)


def direct() -> None:
    """_Packet.encode -> reference decoder and reference encoder -> _Packet.decode."""
    rng = random.Random(7)
    count = 0
    for i, frame in enumerate(frames()):
        ids = DEVICE_IDS if len(frame) in (0, 1, 15, 16, 17, 255) else [
            DEVICE_IDS[i % len(DEVICE_IDS)], rng.getrandbits(64)]
        for device_id in ids:
            pkt = _Packet.encode(device_id, frame)
            check(type(pkt) is bytes, "encode returns bytes")
            try:
                got = ref_decode(pkt)
            except AssertionError as e:
                got = f"reference rejected packet: {e}"
            check(got == (frame, device_id),
                  f"encode len={len(frame)} id={device_id:#x}: {got!r}")

            # Opposite direction, with the free fields filled arbitrarily
            filler = bytes(rng.getrandbits(8) for _ in range(12))
            tail = bytes(rng.getrandbits(8) for _ in range(12)) if i % 2 else bytes(12)
            ref_pkt = ref_encode(device_id, frame, filler=filler, tail=tail)
            try:
                back = _Packet.decode(ref_pkt)
            except Exception as e:  # pylint: disable=broad-except
                back = f"{type(e).__name__}: {e}"
            check(back == frame and type(back) is bytes,
                  f"decode len={len(frame)} id={device_id:#x}: {back!r}")
            count += 1
    print(f"direct: {count} frame/id combinations both ways")


def timestamps() -> None:
    """Round trip holds at any wall clock time."""
    frame = bytes(range(34))
    with mock.patch.object(lan, "datetime", FakeDatetime):
        for t in TIMES:
            FakeDatetime.current = t
            for n in (0, 16, 34):
                pkt = _Packet.encode(0xFFEEDDCCBBAA9988, frame[:n])
                check(ref_decode(pkt) == (frame[:n], 0xFFEEDDCCBBAA9988),
                      f"timestamp {t.isoformat()} len={n}")
    print(f"timestamps: {len(TIMES)} clock values")


class FakeTransport:
    """Peer running the reference implementation: decodes requests, answers with a derived frame."""

    def __init__(self, protocol, seen):
        self._protocol = protocol
        self._seen = seen
        self._closing = False

    def get_extra_info(self, name):
        return ("127.0.0.1", 6444)

    def is_closing(self):
        return self._closing

    def close(self):
        self._closing = True

    def write(self, data):
        frame, device_id = ref_decode(bytes(data))
        self._seen.append((frame, device_id))
        response = bytes(reversed(frame)) + b"\xAA"
        if len(response) > 255:
            response = response[:255]
        loop = asyncio.get_event_loop()
        loop.call_soon(self._protocol.data_received,
                       ref_encode(device_id, response, filler=os.urandom(12)))


async def via_lan() -> None:
    """Frames through LAN.send on a V2 connection against a reference peer."""
    rng = random.Random(11)
    n = 0
    for device_id in (0, 123456, 0xFFFFFFFFFFFF, 2**64 - 1):
        seen = []
        dev = LAN("127.0.0.1", 6444, device_id)

        async def connect(dev=dev, seen=seen):
            protocol = _LanProtocol()
            protocol.connection_made(FakeTransport(protocol, seen))
            dev._protocol = protocol

        with mock.patch.object(dev, "_connect", connect):
            for length in (0, 1, 15, 16, 17, 31, 32, 33, 47, 48, 100, 239, 240, 254, 255):
                frame = bytes(rng.getrandbits(8) for _ in range(length))
                responses = await dev.send(frame)
                expected = (bytes(reversed(frame)) + b"\xAA")[:255]
                check(seen and seen[-1] == (frame, device_id),
                      f"LAN.send wire len={length} id={device_id:#x}")
                check(responses == [expected],
                      f"LAN.send response len={length} id={device_id:#x}: {responses!r}")
                n += 1
    print(f"via_lan: {n} sends")


def main() -> int:
    direct()
    timestamps()
    asyncio.run(via_lan())
    if FAILURES:
        print(f"{len(FAILURES)} failures")
        return 1
    print("OK")
    return 0


if __name__ == "__main__":
    sys.exit(main())
