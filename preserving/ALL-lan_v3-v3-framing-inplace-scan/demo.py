"""Demo for change 1: V3 stream reassembly gives the same packets for every segmentation."""
import asyncio
import itertools
import logging
import random
import sys

from msmart.lan import _LanProtocolV3

logging.disable(logging.CRITICAL)


def make_packet(rng, n, ptype=3):
    body = bytearray(rng.randbytes(n + 2))
    if n >= 4 and rng.random() < 0.5:
        # Embed start of packet bytes inside the payload
        i = rng.randrange(0, n)
        body[i:i + 2] = b"\x83\x70"
    return b"\x83\x70" + n.to_bytes(2, "big") + b"\x20" + bytes([ptype]) + bytes(body)


def drain(proto):
    out = []
    while True:
        try:
            out.append(proto._queue.get_nowait())
        except asyncio.QueueEmpty:
            return out


def run(stream, cuts, packets, prefix_len):
    """Feed stream split at cuts; check order, completeness and promptness."""
    proto = _LanProtocolV3()
    # Absolute offset of last byte of each packet
    ends, off = [], prefix_len
    for p in packets:
        off += len(p)
        ends.append(off)

    got, fed, prev = [], 0, 0
    for cut in list(cuts) + [len(stream)]:
        proto.data_received(stream[prev:cut])
        prev = fed = cut
        got += drain(proto)
        expected = sum(1 for e in ends if e <= fed)
        assert len(got) == expected, (len(got), expected, cuts)
    assert got == packets, "packets differ"
    assert all(isinstance(p, bytes) for p in got)


def main():
    rng = random.Random(1234)
    checked = 0
    prefixes = [b"", b"\x00\x01\x02", b"\x70\x83", b"\x11\x83", b"\x83", b"\x83\x83", rng.randbytes(40).replace(b"\x83\x70", b"\x83\x71")]
    for prefix in prefixes:
        assert b"\x83\x70" not in prefix
        for count in (1, 2, 3):
            packets = [make_packet(rng, rng.choice([0, 1, 5, 16, 33, 64])) for _ in range(count)]
            stream = prefix + b"".join(packets)
            n = len(stream)
            # All segmentations with up to 2 cut points
            for k in (0, 1, 2):
                for cuts in itertools.combinations(range(1, n), k):
                    run(stream, cuts, packets, len(prefix))
                    checked += 1
            # Byte by byte
            run(stream, range(1, n), packets, len(prefix))
            # Random cuts
            for _ in range(20):
                cuts = sorted(rng.sample(range(1, n), rng.randrange(1, min(n - 1, 12))))
                run(stream, cuts, packets, len(prefix))
                checked += 1

    # Many packets per segment, then a partial one completed later
    packets = [make_packet(rng, 20) for _ in range(4)]
    stream = b"".join(packets)
    proto = _LanProtocolV3()
    proto.data_received(stream[:-5])
    assert drain(proto) == packets[:3]
    proto.data_received(stream[-5:])
    assert drain(proto) == packets[3:]

    # Garbage between packets is skipped too
    proto = _LanProtocolV3()
    proto.data_received(packets[0] + b"\xde\xad\xbe\xef" + packets[1])
    assert drain(proto) == packets[:2]

    print(f"ok: {checked} segmentations checked")
    return 0


if __name__ == "__main__":
    sys.exit(main())
