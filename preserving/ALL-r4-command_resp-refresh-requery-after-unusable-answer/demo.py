"""Demo 4: refresh against devices whose answers are intact, damaged all the time, damaged once, mixed or missing."""
import asyncio
import logging
import sys
from unittest.mock import patch

import msmart.crc8 as crc8
from msmart.device import AirConditioner as AC
from msmart.device.AC.command import PropertyId
from msmart.frame import Frame

logging.basicConfig(level=logging.CRITICAL)


def frame(body: bytes, frame_type: int = 0x03) -> bytes:
    body = bytes(body)
    data = bytearray([0xAA, 10 + len(body) + 1, 0xAC, 0, 0, 0, 0, 0, 0, frame_type]) + body + bytes([crc8.calculate(body)])
    data.append(Frame.checksum(data[1:]))
    return bytes(data)


def damaged(data: bytes, pos: int = 12, fix_checksum: bool = False) -> bytes:
    bad = bytearray(data)
    bad[pos] ^= 0x21
    if fix_checksum:
        bad[-1] = Frame.checksum(bad[1:-1])
    return bytes(bad)


def check(cond, what):
    if not cond:
        print("FAIL:", what)
        sys.exit(1)


def state_frame(temp: int, fan: int) -> bytes:
    # power on, cool, target temp, fan, indoor 23.0 C, outdoor 28.5 C
    body = bytes([0xC0, 0x01, 0x40 | (temp - 16), fan, 0, 0, 0, 0x30, 0, 0, 0, 96, 107, 0, 0, 0, 0, 0, 0, 45, 0, 0, 0, 7])
    return frame(body)


ENERGY = frame(bytes([0xC1, 0x21, 0x01, 0x44, 0x00, 0x01, 0x50, 0x40, 0, 0, 0, 0, 0, 0, 0x12, 0x34, 0, 0x06, 0x50, 0, 0]))
HUMIDITY = frame(bytes([0xC1, 0x21, 0x01, 0x45, 0x37, 0, 0, 0, 0, 0, 0, 0, 0, 0, 0, 0, 0, 0, 0, 0]))
PROPS = frame(bytes([0xB1, 0x01, 0x09, 0x00, 0x00, 0x01, 0x32, 0x00]))


class Fake:
    """Answers each kind of query from a script (list of answers, the last one repeats)."""

    def __init__(self, **scripts):
        self.scripts = scripts
        self.count = {}
        self.ids = []

    def handle(self, data: bytes):
        check(data[0] == 0xAA and data[1] == len(data) - 1 and data[2] == 0xAC, "well-formed command")
        check(Frame.checksum(data[1:-1]) == data[-1] and crc8.calculate(data[10:-2]) == data[-2], "command checks")
        self.ids.append(data[-3])
        body = data[10:]
        kind = {0x41: "state", 0xB1: "props"}.get(body[0])
        if body[0] == 0x41 and body[1] == 0x21:
            kind = "energy" if body[3] == 0x44 else "humidity"
        self.count[kind] = self.count.get(kind, 0) + 1
        script = self.scripts.get(kind, [[]])
        return list(script[min(self.count[kind], len(script)) - 1])


async def refresh(dev, fake):
    async def _send_command(self, command):
        return fake.handle(command.tobytes())

    with patch("msmart.base_device.Device._send_command", new=_send_command):
        await dev.refresh()
    for a, b in zip(fake.ids, fake.ids[1:]):
        check(b == (a + 1) & 0xFF, "message ids advance by one")


def snapshot(dev):
    d = dev.to_dict()
    d.pop("online"), d.pop("supported")
    return d


async def main():
    good = state_frame(24, 60)

    # A. Intact answer: one query, state reported
    dev, fake = AC("0.0.0.0", 1, 6444), Fake(state=[[good]])
    await refresh(dev, fake)
    check(fake.count == {"state": 1}, "A: one query")
    check(dev.online and dev.supported and dev.target_temperature == 24.0 and dev.fan_speed == AC.FanSpeed.MEDIUM
          and dev.indoor_temperature == 23.0 and dev.outdoor_temperature == 28.5 and dev.target_humidity == 45, "A")
    base = snapshot(dev)

    # B. Every answer damaged (checksum, body check with fixed-up checksum): offline, unsupported, state untouched
    for bad in (damaged(state_frame(30, 20)), damaged(state_frame(30, 20), 13, True), damaged(state_frame(30, 20), 1)):
        fake = Fake(state=[[bad]])
        await refresh(dev, fake)
        check(1 <= fake.count["state"] <= 2, "B: bounded number of queries")
        check(dev.online is False and dev.supported is False, "B: offline and unsupported")
        check(snapshot(dev) == base, "B: state untouched")

    # C. Damaged answer and an intact one in the same exchange: the intact one is used, one query
    fake = Fake(state=[[damaged(state_frame(30, 20)), state_frame(26, 80), damaged(good, 20)]])
    await refresh(dev, fake)
    check(fake.count == {"state": 1}, "C: one query")
    check(dev.online and dev.supported and dev.target_temperature == 26.0 and dev.fan_speed == AC.FanSpeed.HIGH, "C")

    # D. Damaged once, intact when asked again
    before = snapshot(dev)
    fake = Fake(state=[[damaged(state_frame(19, 40))], [state_frame(19, 40)]])
    await refresh(dev, fake)
    check(1 <= fake.count["state"] <= 2, "D: bounded")
    if fake.count["state"] == 2:
        check(dev.online and dev.supported and dev.target_temperature == 19.0 and dev.fan_speed == AC.FanSpeed.LOW, "D: requeried")
    else:
        check(not dev.online and not dev.supported and snapshot(dev) == before, "D: not requeried")

    # E. Silent device: asked once per query, offline, state untouched
    before = snapshot(dev)
    fake = Fake()
    await refresh(dev, fake)
    check(fake.count == {"state": 1}, "E: one query")
    check(not dev.online and not dev.supported and snapshot(dev) == before, "E")

    # F. All four queries, the energy answer always damaged, the others intact
    dev._request_energy_usage = True
    dev._supports_humidity = True
    dev._supported_properties.add(PropertyId.SWING_UD_ANGLE)
    fake = Fake(state=[[good]], energy=[[damaged(ENERGY, 15, True)]], humidity=[[HUMIDITY]], props=[[PROPS]])
    await refresh(dev, fake)
    check(fake.count["state"] == 1 and fake.count["humidity"] == 1 and fake.count["props"] == 1
          and 1 <= fake.count["energy"] <= 2, "F: queries")
    check(dev.online and dev.supported, "F: online")
    check(dev.target_temperature == 24.0 and dev.indoor_humidity == 0x37
          and dev.vertical_swing_angle == AC.SwingAngle.POS_3 and dev.total_energy_usage is None, "F: state")

    # G. The same with intact answers everywhere: four queries
    fake = Fake(state=[[good]], energy=[[ENERGY]], humidity=[[HUMIDITY]], props=[[PROPS]])
    await refresh(dev, fake)
    check(fake.count == {"state": 1, "energy": 1, "humidity": 1, "props": 1}, "G: four queries")
    check(dev.total_energy_usage is not None and abs(dev.total_energy_usage - 150.4) < 1e-6, "G: energy")

    # H. Nothing valid anywhere
    before = snapshot(dev)
    fake = Fake(state=[[damaged(good)]], energy=[[damaged(ENERGY)]], humidity=[[damaged(HUMIDITY)]], props=[[damaged(PROPS)]])
    await refresh(dev, fake)
    check(all(1 <= n <= 2 for n in fake.count.values()) and len(fake.count) == 4, "H: bounded")
    check(not dev.online and not dev.supported and snapshot(dev) == before, "H: offline, untouched")

asyncio.run(main())
print("OK")
