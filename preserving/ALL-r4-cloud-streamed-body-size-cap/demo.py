"""Demo 3: receiving and decoding cloud responses.

Fake conforming servers on httpx.MockTransport deliver their responses in one piece or in many
small pieces, with various token lists, non-ASCII messages and large error pages; the SmartHome
file downloads are exercised too. Checks only what must hold however the body is received.
"""
import asyncio
import hashlib
import hmac
import json
import sys
from urllib.parse import parse_qsl, unquote_plus, urlencode

import httpx
from Crypto.Cipher import AES
from Crypto.Util import Padding

from msmart.cloud import ApiError, CloudError, NetHomePlusCloud, SmartHomeCloud
from msmart.const import DeviceType

NH_KEY = "3742e9e5842d4ad59c2db887e12449f9"
SH_APP_KEY = "ac21b9f9cbfe4ca5a88562ef25e2b768"
ACCOUNT, PASSWORD = "user@example.org", "secret-secret"
LOGIN_ID = "11112222333344445555666677778888"


def check(cond, what):
    if not cond:
        print("FAIL:", what)
        sys.exit(1)
    print("ok:", what)


class Pieces(httpx.AsyncByteStream):
    """A response body that arrives in small pieces with pauses in between."""

    def __init__(self, data: bytes, size: int):
        self.data, self.size, self.closed = data, max(1, size), False

    async def __aiter__(self):
        for i in range(0, len(self.data), self.size):
            await asyncio.sleep(0)
            yield self.data[i:i + self.size]

    async def aclose(self):
        self.closed = True


class Server:
    def __init__(self):
        self.piece = 0          # 0 = whole body at once
        self.tokenlist = []
        self.override = None    # (status, bytes)
        self.problems = []
        self.count = 0
        self.streams = []
        self.files = {}

    def client(self, *a, **k):
        return httpx.AsyncClient(transport=httpx.MockTransport(self.handle))

    def reply(self, status, data: bytes, headers=None):
        if self.piece:
            s = Pieces(data, self.piece)
            self.streams.append(s)
            return httpx.Response(status, stream=s, headers=headers)
        return httpx.Response(status, content=data, headers=headers)

    async def handle(self, request):
        self.count += 1
        if request.method == "GET":
            return self.reply(200, self.files[request.url.path])
        if self.override:
            status, data = self.override
            return self.reply(status, data)
        if request.url.path == "/mas/v5/app/proxy":
            return self.smarthome(request)
        return self.nethome(request)

    def nethome(self, request):
        path = request.url.path
        f = dict(parse_qsl(request.content.decode(), keep_blank_values=True))
        sign = f.pop("sign", "")
        q = unquote_plus(urlencode(sorted(f.items())))
        if sign != hashlib.sha256((path + q + NH_KEY).encode()).hexdigest():
            self.problems.append("signature " + path)
        if path.endswith("id/get"):
            res = {"loginId": LOGIN_ID}
        elif path.endswith("user/login"):
            res = {"sessionId": "S-77", "nickname": "Jürgen 空调"}
        else:
            if f.get("sessionId") != "S-77":
                self.problems.append("session")
            res = {"tokenlist": self.tokenlist}
        return self.reply(200, json.dumps({"errorCode": "0", "msg": "", "result": res}).encode(),
                          {"Content-Type": "application/json;charset=UTF-8"})

    def smarthome(self, request):
        body = request.content.decode()
        good = hmac.new(b"PROD_VnoClJI9aikS8dyy", ("meicloud" + body + request.headers["random"]).encode(),
                        hashlib.sha256).hexdigest()
        if request.headers.get("sign") != good:
            self.problems.append("sh signature")
        alias = request.url.params["alias"]
        if alias.endswith("id/get"):
            data = {"loginId": LOGIN_ID}
        elif alias.endswith("user/login"):
            data = {"mdata": {"accessToken": "AT-1"}}
        elif alias.endswith("luaGet"):
            data = {"fileName": "T_0000_AC_1.lua", "url": "https://files.example/lua"}
        else:
            data = {"result": [{"title": "plugin.zip", "url": "https://files.example/plugin"}]}
        return self.reply(200, json.dumps({"code": 0, "msg": "ok", "data": data}).encode())


def entry(i):
    return {"udpId": f"{i:032x}", "token": hashlib.sha512(b"t%d" % i).hexdigest(), "key": hashlib.sha256(b"k%d" % i).hexdigest()}


async def main():
    srv = Server()
    cloud = NetHomePlusCloud("US", account=ACCOUNT, password=PASSWORD, get_async_client=srv.client)

    for piece in (0, 1, 7, 64, 1000):
        srv.piece = piece
        await cloud.login(force=True)
        check(cloud._session_id == "S-77", f"piece={piece}: login stores the session id")

        for n in (1, 2, 3, 40, 400):
            srv.tokenlist = [entry(i) for i in range(1, n + 1)]
            for pos in sorted({1, (n + 1) // 2, n}):
                want = entry(pos)
                got = await cloud.get_token(want["udpId"])
                if got != (want["token"], want["key"]):
                    check(False, f"piece={piece} n={n}: entry {pos}")
            # near misses and absence
            for bad in (f"{n + 1:032x}", entry(1)["udpId"][:-1], entry(1)["udpId"].upper().replace("1", "1 "), ""):
                try:
                    await cloud.get_token(bad)
                    check(False, f"piece={piece} n={n}: {bad!r} must not match")
                except CloudError:
                    pass
        check(True, f"piece={piece}: first/middle/last entries found in lists of 1..400, near misses refused")

        # API error with non-ASCII message
        srv.override = (200, json.dumps({"errorCode": 3176, "msg": "ungültig 无效"}, ensure_ascii=False).encode())
        try:
            await cloud.get_token(entry(1)["udpId"])
            check(False, "API error expected")
        except ApiError as e:
            check(e.code == 3176 and e.message == "ungültig 无效", f"piece={piece}: API error code and message")

        # A large error page: CloudError after a single attempt
        srv.override, srv.count = (502, b"<html>" + b"x" * 300000 + b"</html>"), 0
        try:
            await cloud.get_token(entry(1)["udpId"])
            check(False, "HTTP error expected")
        except ApiError:
            check(False, "HTTP error is not an API error")
        except CloudError:
            check(srv.count == 1, f"piece={piece}: HTTP 502 -> CloudError after one attempt")
        srv.override = None

    check(all(s.closed for s in srv.streams), f"all {len(srv.streams)} streamed bodies were closed")

    # SmartHome downloads
    h = hashlib.sha256(SH_APP_KEY.encode()).hexdigest()
    key, iv = h[:16].encode(), h[16:32].encode()
    lua = "-- lua \n" + "\n".join(f"local v{i} = {i}" for i in range(2000))
    srv.files["/lua"] = AES.new(key, AES.MODE_CBC, iv=iv).encrypt(Padding.pad(lua.encode(), 16)).hex().encode()
    srv.files["/plugin"] = bytes(range(256)) * 3000
    sh = SmartHomeCloud("US", account=ACCOUNT, password=PASSWORD, get_async_client=srv.client)
    for piece in (0, 3, 4096):
        srv.piece = piece
        await sh.login(force=True)
        check(sh._access_token == "AT-1", f"piece={piece}: smarthome login")
        name, text = await sh.get_protocol_lua(DeviceType.AIR_CONDITIONER, "000000P0000000Q1F0C9D153F6B30000")
        check(name == "T_0000_AC_1.lua" and text == lua, f"piece={piece}: protocol file downloaded and decrypted")
        name, data = await sh.get_plugin(DeviceType.AIR_CONDITIONER, "000000P0000000Q1F0C9D153F6B30000")
        check(name == "plugin.zip" and data == srv.files["/plugin"], f"piece={piece}: plugin downloaded intact")

    check(not srv.problems, "servers saw only conforming requests")


asyncio.run(main())
