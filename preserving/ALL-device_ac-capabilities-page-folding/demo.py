"""Demo for change 4 (get_capabilities: per-page folding of capability reports; table driven update).

Queries capabilities from simulated devices that deliver the same records in one response or
split over a first and an 'additional' response. Passes on the original code and with the change.
"""
import asyncio
import logging
import sys

import msmart.crc8 as crc8
from msmart.const import FrameType
from msmart.device import AirConditioner as AC
from msmart.device.AC.command import PropertyId
from msmart.frame import Frame

logging.disable(logging.CRITICAL)


def frame(body: bytes, frame_type=FrameType.QUERY) -> bytes:
    body = bytes(body)
    body += bytes([crc8.calculate(body)])
    hdr = bytearray(10)
    hdr[0], hdr[1], hdr[2], hdr[9] = 0xAA, len(body) + 10, 0xAC, frame_type
    f = bytearray(hdr + body)
    f.append(Frame.checksum(f[1:]))
    return bytes(f)


def caps_frame(records, more: bool, frame_type=FrameType.QUERY) -> bytes:
    b = bytearray([0xB5, len(records)])
    for cid, values in records:
        b += bytes([cid & 0xFF, cid >> 8, len(values)]) + bytes(values)
    b += bytes([1 if more else 0, 0x33])
    return frame(b, frame_type)


def state_frame() -> bytes:
    b = bytearray(24)
    b[0], b[1], b[2], b[3], b[7] = 0xC0, 1, (2 << 5) | 4, 60, 0x30
    b[11] = b[12] = 0xFF
    return frame(b)


class SimDevice:
    def __init__(self, page1, page2=None, extra_first=(), drop_second=False, silent=False):
        self.page1, self.page2 = page1, page2
        self.extra_first = list(extra_first)
        self.drop_second = drop_second
        self.silent = silent
        self.sent = []
        self.requests = []
        self.token = None
        self.key = None

    async def send(self, data: bytes, retries: int = 3):
        assert data[0] == 0xAA and data[1] == len(data) - 1 and data[2] == 0xAC
        assert Frame.checksum(data[1:-1]) == data[-1]
        assert crc8.calculate(data[10:-2]) == data[-2]
        self.sent.append(data)
        await asyncio.sleep(0)
        if self.silent:
            raise TimeoutError("No response from host.")
        body = data[10:-3]
        if body == bytes([0xB5, 0x01, 0x00]):
            self.requests.append("first")
            return self.extra_first + [caps_frame(self.page1, self.page2 is not None)]
        if body == bytes([0xB5, 0x01, 0x01, 0x01]):
            self.requests.append("additional")
            assert self.page2 is not None, "additional page requested but not announced"
            if self.drop_second:
                raise TimeoutError("No response from host.")
            return [caps_frame(self.page2, False)]
        return []


def snapshot(dev: AC) -> dict:
    return {
        "op": sorted(dev.supported_operation_modes),
        "swing": sorted(dev.supported_swing_modes),
        "fan": sorted(dev.supported_fan_speeds),
        "custom": dev.supports_custom_fan_speed,
        "eco": dev.supports_eco, "turbo": dev.supports_turbo,
        "freeze": dev.supports_freeze_protection, "display": dev.supports_display_control,
        "filter": dev.supports_filter_reminder, "purifier": dev.supports_purifier,
        "hum": dev.supports_humidity, "thum": dev.supports_target_humidity,
        "min": dev.min_target_temperature, "max": dev.max_target_temperature,
        "energy": dev.enable_energy_usage_requests,
        "rates": sorted(dev.supported_rate_selects), "aux": sorted(dev.supported_aux_modes),
        "props": sorted(dev._supported_properties),
        "flags": (dev.supports_breeze_away, dev.supports_breeze_mild, dev.supports_breezeless,
                  dev.supports_horizontal_swing_angle, dev.supports_vertical_swing_angle,
                  dev.supports_ieco, dev.supports_self_clean),
    }


def check_ids(sent):
    ids = [f[-3] for f in sent]
    for a, b in zip(ids, ids[1:]):
        assert b == (a + 1) & 0xFF, ids


async def query(sim: SimDevice) -> AC:
    dev = AC("10.0.0.6", 91, 6444)
    dev._lan = sim
    await dev.get_capabilities()
    check_ids(sim.sent)
    return dev


RECORDS = [
    (0x0214, [9]),          # modes: heat, cool, dry, auto, aux
    (0x0215, [1]),          # swing: both
    (0x0210, [6]),          # fan: silent/low/medium/high/auto
    (0x0212, [1]),          # eco
    (0x021A, [3]),          # turbo (heat only)
    (0x0213, [1]),          # freeze protection
    (0x0224, [1]),          # display control
    (0x0217, [1]),          # filter reminder
    (0x021E, [1]),          # anion
    (0x021F, [2]),          # humidity auto + manual
    (0x0216, [2]),          # energy
    (0x0225, [32, 60, 34, 60, 34, 58, 1]),   # temperatures 16..30
    (0x00FE, [1, 2, 3]),    # unknown id
    (0x0009, [1]),          # vertical angle
    (0x000A, [1]),          # horizontal angle
    (0x0039, [1]),          # self clean
    (0x0048, [2]),          # rate select 5 level
    (0x0043, [1]),          # breeze control
    (0x0042, [1]),          # breeze away (superseded)
    (0x00E3, [1]),          # ieco
    (0x0051, []),           # empty record
]


async def main():
    # One response
    dev = await query(SimDevice(RECORDS))
    ref = snapshot(dev)
    assert dev._lan.requests == ["first"]
    assert ref["op"] == sorted([AC.OperationalMode.FAN_ONLY, AC.OperationalMode.DRY, AC.OperationalMode.COOL,
                                AC.OperationalMode.HEAT, AC.OperationalMode.AUTO, AC.OperationalMode.SMART_DRY])
    assert ref["swing"] == sorted(AC.SwingMode.list())
    assert ref["fan"] == sorted([AC.FanSpeed.SILENT, AC.FanSpeed.LOW, AC.FanSpeed.MEDIUM,
                                 AC.FanSpeed.HIGH, AC.FanSpeed.AUTO])
    assert ref["custom"] is False and ref["eco"] and ref["turbo"] and ref["freeze"]
    assert ref["display"] and ref["filter"] and ref["purifier"] and ref["hum"] and ref["thum"]
    assert (ref["min"], ref["max"]) == (16, 30) and ref["energy"] is True
    assert ref["rates"] == sorted([AC.RateSelect.OFF, AC.RateSelect.LEVEL_1, AC.RateSelect.LEVEL_2,
                                   AC.RateSelect.LEVEL_3, AC.RateSelect.LEVEL_4, AC.RateSelect.LEVEL_5])
    assert ref["aux"] == sorted(AC.AuxHeatMode.list())
    assert ref["props"] == sorted([PropertyId.SWING_UD_ANGLE, PropertyId.SWING_LR_ANGLE, PropertyId.SELF_CLEAN,
                                   PropertyId.RATE_SELECT, PropertyId.BREEZE_CONTROL, PropertyId.IECO])
    assert ref["flags"] == (True, True, True, True, True, True, True)

    # The same records split at every point over two responses
    for cut in range(len(RECORDS) + 1):
        sim = SimDevice(RECORDS[:cut], RECORDS[cut:])
        dev = await query(sim)
        assert sim.requests == ["first", "additional"], sim.requests
        assert snapshot(dev) == ref, cut

    # Noise next to the answer: a state report, a truncated frame and an unsolicited
    # 'capabilities' notification with a non-query frame type are all ignored
    noise = [state_frame(), b"\xaa\x0b\xac", caps_frame([(0x0212, [0])], False, frame_type=0x05)]
    dev = await query(SimDevice(RECORDS, extra_first=noise))
    assert snapshot(dev) == ref

    # Legacy profile: no breeze control, 2 level rate select, custom fan speeds, defaults elsewhere
    legacy = [(0x0210, [1]), (0x0048, [1]), (0x0042, [1]), (0x0018, [1]), (0x0214, [2])]
    dev = await query(SimDevice(legacy))
    snap = snapshot(dev)
    assert snap["props"] == sorted([PropertyId.RATE_SELECT, PropertyId.BREEZE_AWAY, PropertyId.BREEZELESS])
    assert snap["rates"] == sorted([AC.RateSelect.OFF, AC.RateSelect.GEAR_50, AC.RateSelect.GEAR_75])
    assert snap["custom"] is True and AC.FanSpeed.MAX in dev.supported_fan_speeds
    assert snap["op"] == sorted([AC.OperationalMode.FAN_ONLY, AC.OperationalMode.HEAT, AC.OperationalMode.AUTO])
    assert snap["flags"] == (True, False, True, False, False, False, False)
    assert snap["energy"] is False and not snap["eco"] and not snap["hum"]
    assert snap["aux"] == [AC.AuxHeatMode.OFF] and snap["swing"] == [AC.SwingMode.OFF]
    for cut in range(len(legacy) + 1):
        assert snapshot(await query(SimDevice(legacy[:cut], legacy[cut:]))) == snap

    # A second query replaces the property set rather than adding to it
    dev = await query(SimDevice(RECORDS))
    dev._lan = SimDevice(legacy)
    await dev.get_capabilities()
    assert sorted(dev._supported_properties) == snap["props"]

    # Additional page announced but never delivered: first page still applied, no exception
    sim = SimDevice(RECORDS[:4], RECORDS[4:], drop_second=True)
    dev = await query(sim)
    assert sim.requests == ["first", "additional"]
    assert snapshot(dev) == snapshot(await query(SimDevice(RECORDS[:4])))

    # Silent device: one request, nothing changes, no exception
    sim = SimDevice(RECORDS, silent=True)
    fresh = snapshot(AC("10.0.0.6", 91, 6444))
    dev = await query(sim)
    assert len(sim.sent) == 1 and snapshot(dev) == fresh

    print("demo4 OK")


if __name__ == "__main__":
    asyncio.run(main())
    sys.exit(0)
