"""Demo 4: one device object used from successive event loops (asyncio.run called again and again)."""
import asyncio
import logging
import os
import sys
import threading
from hashlib import sha256

from Crypto.Cipher import AES

from msmart.device import AirConditioner as AC
from msmart.lan import _Packet

STATE = bytes.fromhex(
    "aa23ac00000000000303c00145660000003c0010045c6b20000000000000000000020d79")

TOKEN = bytes(range(64))
KEY = bytes(range(100, 132))


def _cbc(key: bytes):
    return AES.new(key, AES.MODE_CBC, iv=bytes(16))


class FakeDevice:
    """A V2 or V3 unit on loopback, served by an event loop in a thread of its own."""

    def __init__(self, version: int) -> None:
        self.version = version
        self.connections = 0
        self.closed = 0
        self.log = []  # (connection number, what)
        self.port = None
        self._loop = asyncio.new_event_loop()
        self._ready = threading.Event()
        self._thread = threading.Thread(target=self._run, daemon=True)
        self._thread.start()
        assert self._ready.wait(5)

    def _run(self) -> None:
        asyncio.set_event_loop(self._loop)
        server = self._loop.run_until_complete(
            asyncio.start_server(self._serve, "127.0.0.1", 0))
        self.port = server.sockets[0].getsockname()[1]
        self._ready.set()
        self._loop.run_forever()

    def stop(self) -> None:
        async def shutdown() -> None:
            me = asyncio.current_task()
            for task in asyncio.all_tasks():
                if task is not me:
                    task.cancel()
            await asyncio.sleep(0.05)
            self._loop.stop()

        asyncio.run_coroutine_threadsafe(shutdown(), self._loop)
        self._thread.join(2)

    async def _serve(self, reader, writer) -> None:
        self.connections += 1
        conn = self.connections
        try:
            if self.version == 2:
                await self._serve_v2(conn, reader, writer)
            else:
                await self._serve_v3(conn, reader, writer)
        except (asyncio.IncompleteReadError, ConnectionError):
            pass
        finally:
            self.closed += 1
            writer.close()

    async def _serve_v2(self, conn, reader, writer) -> None:
        while True:
            head = await reader.readexactly(6)
            length = int.from_bytes(head[4:6], "little")
            rest = await reader.readexactly(length - 6)
            self.log.append((conn, ("data", _Packet.decode(head + rest))))
            writer.write(_Packet.encode(1234, STATE))
            await writer.drain()

    async def _serve_v3(self, conn, reader, writer) -> None:
        session = None
        expect_count = None
        while True:
            head = await reader.readexactly(6)
            assert head[:2] == b"\x83\x70" and head[4] == 0x20
            size = int.from_bytes(head[2:4], "big")
            rest = await reader.readexactly(size + 2)
            ptype = head[5] & 0xF
            if ptype == 0x0:
                count = int.from_bytes(rest[:2], "big")
                self.log.append((conn, ("handshake", rest[2:], count)))
                expect_count = count + 1
                nonce = os.urandom(32)
                session = bytes(a ^ b for a, b in zip(nonce, KEY))
                payload = _cbc(KEY).encrypt(nonce) + sha256(nonce).digest()
                writer.write(b"\x83\x70" + len(payload).to_bytes(2, "big") +
                             b"\x20\x01" + bytes(2) + payload)
            elif ptype == 0x6:
                assert session is not None, "data before handshake"
                plain = _cbc(session).decrypt(rest[:-32])
                assert sha256(head + plain).digest() == rest[-32:]
                count = int.from_bytes(plain[:2], "big")
                assert count == expect_count, (count, expect_count)
                expect_count = (count + 1) & 0xFFFF
                pad = head[5] >> 4
                inner = plain[2:len(plain) - pad]
                self.log.append((conn, ("data", _Packet.decode(inner), count)))

                reply = _Packet.encode(1234, STATE)
                rpad = (16 - (len(reply) + 2) % 16) % 16
                rhead = b"\x83\x70" + (len(reply) + rpad + 32).to_bytes(2, "big") + \
                    b"\x20" + bytes([rpad << 4 | 0x3])
                rplain = bytes(2) + reply + bytes(rpad)
                writer.write(rhead + _cbc(session).encrypt(rplain) +
                             sha256(rhead + rplain).digest())
            else:
                raise AssertionError("unexpected packet type %d" % ptype)
            await writer.drain()


async def use(dev, times: int) -> bool:
    for _ in range(times):
        await dev.refresh()
    return dev.online


def second_loop(dev, fake, label: str) -> str:
    """Use a device whose connection was opened under a loop that is gone by now.
    What happens then is outside what the library promises; it's reported, not judged,
    except that a V3 link must never carry data before a handshake (the fake asserts that).
    """
    before = fake.connections
    try:
        online = asyncio.run(asyncio.wait_for(use(dev, 1), 12))
        how = "online=%s, new connection=%s" % (
            online, fake.connections > before)
    except Exception as e:  # pylint: disable=broad-except
        how = "raised %s" % type(e).__name__
    return "%s second loop: %s" % (label, how)


def main() -> int:
    notes = []

    # --- V2 ---
    fake2 = FakeDevice(2)
    dev = AC(ip="127.0.0.1", port=fake2.port, device_id=1234)

    # Built outside any loop, used in the first one: one connection for all exchanges
    assert asyncio.run(use(dev, 3)) is True
    assert fake2.connections == 1
    assert len(fake2.log) == 3
    assert dev.target_temperature == 21.0

    notes.append(second_loop(dev, fake2, "V2"))

    # A fresh object in yet another loop always works
    dev_b = AC(ip="127.0.0.1", port=fake2.port, device_id=1234)
    n = fake2.connections
    assert asyncio.run(use(dev_b, 2)) is True
    assert fake2.connections == n + 1

    # --- V3 ---
    fake3 = FakeDevice(3)
    dev3 = AC(ip="127.0.0.1", port=fake3.port, device_id=1234)

    async def first() -> bool:
        await dev3.authenticate(TOKEN.hex(), KEY.hex())
        return await use(dev3, 2)

    assert asyncio.run(first()) is True
    assert fake3.connections == 1
    kinds = [what[0] for _c, what in fake3.log]
    assert kinds == ["handshake", "data", "data"], kinds
    assert fake3.log[0][1][1] == TOKEN
    assert dev3.token == TOKEN.hex() and dev3.key == KEY.hex()

    notes.append(second_loop(dev3, fake3, "V3"))

    # Per connection: first thing is a handshake with the configured token, counters advance by one
    per_conn = {}
    for conn, what in fake3.log:
        per_conn.setdefault(conn, []).append(what)
    for conn, items in per_conn.items():
        assert items[0][0] == "handshake" and items[0][1] == TOKEN, (conn, items[0])
        counts = [w[2] for w in items]
        for a, b in zip(counts, counts[1:]):
            assert b == a + 1, counts

    # Frames are well formed; ids advance by one within the undisturbed first stages
    frames2 = [w[1] for _c, w in fake2.log]
    frames3 = [w[1] for _c, w in fake3.log if w[0] == "data"]
    for f in frames2 + frames3:
        assert f[0] == 0xAA and f[1] == len(f) - 1 and sum(f[1:]) & 0xFF == 0
    for stage in (frames2[:3], frames3[:2]):
        ids = [f[-3] for f in stage]
        for a, b in zip(ids, ids[1:]):
            assert b == (a + 1) & 0xFF, ids

    fake2.stop()
    fake3.stop()
    print("demo4 ok; " + "; ".join(notes))
    return 0


if __name__ == "__main__":
    logging.basicConfig(level=logging.CRITICAL)
    sys.exit(main())
