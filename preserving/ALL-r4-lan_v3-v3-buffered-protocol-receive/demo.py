"""Demo 1: V3 receive path (segmentation, garbage prefixes, real loopback socket).

Runs against the original code and against change.patch; exits 0 on both.
"""
import asyncio
import logging
import os
import random
import sys
from hashlib import sha256

from Crypto.Cipher import AES

from msmart.lan import LAN, _LanProtocolV3, _Packet

TOKEN = bytes(range(64))
KEY = bytes(range(100, 132))


def xor(a, b):
    return bytes(x ^ y for x, y in zip(a, b))


def cbc(key):
    return AES.new(key, AES.MODE_CBC, iv=bytes(16))


class FakeV3Device:
    """Minimal independent V3 device on a loopback socket."""

    def __init__(self, *, chop=None, junk=b""):
        self.chop = chop      # None = whole packets, n = pieces of n bytes
        self.junk = junk      # marker-free bytes sent in front of every reply
        self.requests = []    # (type, counter) of every packet seen
        self.tx_count = 0
        self.session_key = None
        self.server = None

    async def start(self):
        self.server = await asyncio.start_server(self._client, "127.0.0.1", 0)
        return self.server.sockets[0].getsockname()[1]

    async def stop(self):
        self.server.close()
        await self.server.wait_closed()

    async def _send(self, writer, data):
        data = self.junk + data
        if self.chop is None:
            writer.write(data)
            await writer.drain()
            return
        for i in range(0, len(data), self.chop):
            writer.write(data[i:i + self.chop])
            await writer.drain()
            await asyncio.sleep(0)

    def _encrypted(self, payload):
        body = self.tx_count.to_bytes(2, "big") + payload
        self.tx_count = (self.tx_count + 1) & 0xFFFF
        pad = -len(body) % 16
        body += os.urandom(pad)
        header = b"\x83\x70" + (len(body) - 2 + 32).to_bytes(2, "big") + \
            b"\x20" + bytes([pad << 4 | 0x3])
        return header + cbc(self.session_key).encrypt(body) + sha256(header + body).digest()

    async def _client(self, reader, writer):
        try:
            while True:
                header = await reader.readexactly(6)
                assert header[:2] == b"\x83\x70" and header[4] == 0x20
                rest = await reader.readexactly(int.from_bytes(header[2:4], "big") + 2)
                ptype = header[5] & 0xF
                if ptype == 0x0:
                    self.requests.append(("handshake", int.from_bytes(rest[:2], "big")))
                    assert rest[2:] == TOKEN
                    nonce = os.urandom(32)
                    self.session_key = xor(nonce, KEY)
                    payload = cbc(KEY).encrypt(nonce) + sha256(nonce).digest()
                    reply = b"\x83\x70" + len(payload).to_bytes(2, "big") + b"\x20\x01" + \
                        bytes(2) + payload
                    await self._send(writer, reply)
                elif ptype == 0x6:
                    plain = cbc(self.session_key).decrypt(rest[:-32])
                    assert sha256(header + plain).digest() == rest[-32:]
                    pad = header[5] >> 4
                    self.requests.append(("data", int.from_bytes(plain[:2], "big")))
                    frame = _Packet.decode(plain[2:len(plain) - pad])
                    # Answer with an echo of the frame and one unsolicited frame
                    out = self._encrypted(_Packet.encode(7, b"\xaa" + frame))
                    out += self._encrypted(_Packet.encode(7, b"\xbb" + frame))
                    await self._send(writer, out)
        except (asyncio.IncompleteReadError, ConnectionError):
            pass
        finally:
            writer.close()


def hs_packet(payload):
    """A handshake-response type packet (needs no key to be read back)."""
    return b"\x83\x70" + len(payload).to_bytes(2, "big") + b"\x20\x01" + bytes(2) + payload


async def direct_feed():
    """Feed segmented streams straight into the protocol object."""
    rng = random.Random(1)
    for trial in range(200):
        payloads = [bytes(rng.randrange(256) for _ in range(rng.choice([0, 1, 5, 30, 64, 200])))
                    for _ in range(rng.randint(1, 4))]
        if trial % 5 == 0:
            payloads[0] = b"\x83\x70" + payloads[0] + b"\x83\x70"
        junk = bytes(rng.choice([0x00, 0x11, 0x83, 0xFF]) for _ in range(rng.randint(0, 6)))
        junk = junk.replace(b"\x83\x70", b"\x83\x71")
        if junk.endswith(b"\x83"):
            junk = junk[:-1]
        stream = junk + b"".join(hs_packet(p) for p in payloads)

        # Where each packet ends in the stream
        ends, pos = [], len(junk)
        for p in payloads:
            pos += len(p) + 8
            ends.append(pos)

        cuts = sorted(rng.sample(range(1, len(stream)), min(len(stream) - 1, rng.choice([0, 1, 3, 10, 10 ** 6]))))
        protocol = _LanProtocolV3()
        got, fed = [], 0
        for a, b in zip([0] + cuts, cuts + [len(stream)]):
            protocol.data_received(stream[a:b])
            fed = b
            while True:
                try:
                    got.append(await protocol.read(timeout=0))
                except asyncio.QueueEmpty:
                    break
            # As soon as the last byte arrived, never earlier
            assert len(got) == sum(1 for e in ends if e <= fed), (trial, fed, len(got))
        assert got == payloads, trial
    print("direct feed: 200 segmented streams delivered exactly once, in order")


async def loopback(chop, junk):
    device = FakeV3Device(chop=chop, junk=junk)
    port = await device.start()
    lan = LAN("127.0.0.1", port, 7)
    await lan.authenticate(TOKEN, KEY)
    frames = [bytes([i]) * (5 + 11 * i) for i in range(3)]
    seen = []
    for frame in frames:
        responses = await lan.send(frame)
        assert responses, "an exchange returns at least one response"
        seen += responses
    # Late (slowly arriving) frames surface in a later non-blocking read
    await asyncio.sleep(0.3)
    async for response in lan._read_available():
        seen.append(response)
    expected = [tag + frame for frame in frames for tag in (b"\xaa", b"\xbb")]
    assert seen == expected, (chop, seen)
    lan._disconnect()
    await device.stop()
    counters = [c for _, c in device.requests]
    assert device.requests[0][0] == "handshake"
    assert counters == list(range(len(counters))), counters
    print(f"loopback chop={chop} junk={junk.hex() or '-'}: {len(counters)} packets, counters consecutive")


async def main():
    await direct_feed()
    await loopback(None, b"")
    await loopback(1, b"")
    await loopback(7, b"\x00\x83\x11")
    await loopback(4096, b"\xff" * 3)


if __name__ == "__main__":
    logging.getLogger("msmart").setLevel(logging.ERROR)
    asyncio.run(main())
    sys.exit(0)
