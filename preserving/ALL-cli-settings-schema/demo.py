"""Demonstration for change 1 (settings parser rewrite in msmart/cli.py).

Drives `msmart-ng control` in-process through cli.main() against a fake device
installed at LAN.send/LAN.authenticate, and checks
  * every documented spelling of a setting=value pair ends up in exactly the
    command a library-level reference run produces (differential oracle),
  * unspecified settings stay as the device reported them,
  * display_on is toggled only when it differs,
  * invalid names / values / malformed pairs end in a non-zero exit (or an
    exception) with nothing at all sent to the device.
Exits 0 on success.
"""
import asyncio
import logging
import sys

import msmart.cli as cli
import msmart.crc8 as crc8
from msmart.device import AirConditioner as AC
from msmart.frame import Frame
from msmart.lan import LAN

logging.disable(logging.CRITICAL)

STATE = bytes.fromhex(
    "aa23ac00000000000303c00145660000003c0010045c6b20000000000000000000020d79")
CAPS_0 = bytes.fromhex(
    "b50a12020101430001011402010115020101160201001a020101100201011f020103250207203c203c203c05400001000100")
CAPS_1 = bytes.fromhex("b5051e020101130201012202010019020100390001010000")


def make_frame(payload: bytes, frame_type: int = 0x03) -> bytes:
    body = bytes(payload) + bytes([crc8.calculate(payload)])
    frame = bytearray([0xAA, 10 + len(body), 0xAC, 0, 0, 0, 0, 0, 3, frame_type]) + body
    frame.append(Frame.checksum(frame[1:]))
    return bytes(frame)


class FakeDevice:
    def __init__(self, display_on: bool = True) -> None:
        self.display_on = display_on
        self.frames = []
        self.auth = []

    def state(self) -> bytes:
        payload = bytearray(STATE[10:-2])
        payload[14] = 0x00 if self.display_on else 0x70
        return make_frame(payload)

    @staticmethod
    def kind(frame: bytes) -> str:
        ftype, body = frame[9], frame[10:-1]
        if ftype == 0x02:
            return {0x40: "set_state", 0xB0: "set_props"}.get(body[0], "other")
        if body[0] == 0xB5:
            return "caps"
        if body[0] == 0xB1:
            return "get_props"
        if body[0] == 0x41:
            if body[1] == 0x81:
                return "get_state"
            if body[1] == 0x21:
                return "group"
            return "toggle"
        return "other"

    async def send(self, data: bytes, retries: int = 3):
        self.frames.append(bytes(data))
        kind = self.kind(data)
        if kind == "toggle":
            self.display_on = not self.display_on
        if kind in ("toggle", "get_state", "set_state"):
            return [self.state()]
        if kind == "caps":
            return [make_frame(CAPS_1 if data[12] else CAPS_0)]
        return []

    def sent(self, *kinds):
        """Frames of the given kinds with message id, CRC and checksum removed."""
        return [(f[9], f[10:-3]) for f in self.frames if self.kind(f) in kinds]


CURRENT = None


async def _send(self, data, retries=3):
    return await CURRENT.send(data, retries)


async def _authenticate(self, token=None, key=None, retries=3):
    CURRENT.auth.append((token, key))


LAN.send = _send
LAN.authenticate = _authenticate


def run_cli(argv, display_on=True):
    """Run msmart-ng with argv; returns (exit status or exception, fake device)."""
    global CURRENT
    CURRENT = FakeDevice(display_on)
    sys.argv = ["msmart-ng"] + argv
    try:
        cli.main()
        status = 0
    except SystemExit as e:
        status = e.code if e.code is not None else 0
    except Exception as e:  # a crash is a (non-zero) failure exit of the process
        status = e
    return status, CURRENT


def run_reference(values, display_on=True, capabilities=False):
    """What the library does for the already-interpreted values."""
    global CURRENT
    CURRENT = FakeDevice(display_on)

    async def go():
        dev = AC(ip="10.0.0.9", port=6444, device_id=0)
        await dev.refresh()
        if capabilities:
            await dev.get_capabilities()
        values_ = dict(values)
        display = values_.pop("display_on", None)
        if display is not None and display != dev.display_on:
            await dev.toggle_display()
        if values_:
            for k, v in values_.items():
                setattr(dev, k, v)
            await dev.apply()
    asyncio.run(go())
    return CURRENT


failures = []


def check(cond, what):
    if not cond:
        failures.append(what)
        print("FAIL:", what)


VALID = [
    # enumerations by member name in any case, and by integer value
    (["operational_mode=cool"], {"operational_mode": AC.OperationalMode.COOL}),
    (["operational_mode=HEAT"], {"operational_mode": AC.OperationalMode.HEAT}),
    (["operational_mode=Fan_Only"], {"operational_mode": AC.OperationalMode.FAN_ONLY}),
    (["operational_mode=3"], {"operational_mode": AC.OperationalMode.DRY}),
    (["swing_mode=both"], {"swing_mode": AC.SwingMode.BOTH}),
    (["swing_mode=12"], {"swing_mode": AC.SwingMode.VERTICAL}),
    (["swing_mode=0"], {"swing_mode": AC.SwingMode.OFF}),
    (["aux_mode=aux_only"], {"aux_mode": AC.AuxHeatMode.AUX_ONLY}),
    (["aux_mode=1"], {"aux_mode": AC.AuxHeatMode.AUX_HEAT}),
    # fan speed: member, member value, raw integer
    (["fan_speed=silent"], {"fan_speed": AC.FanSpeed.SILENT}),
    (["fan_speed=100"], {"fan_speed": AC.FanSpeed.MAX}),
    (["fan_speed=55"], {"fan_speed": 55}),
    (["fan_speed=1"], {"fan_speed": 1}),
    # numbers as int or float
    (["target_temperature=20.5"], {"target_temperature": 20.5}),
    (["target_temperature=24"], {"target_temperature": 24.0}),
    (["target_temperature=13"], {"target_temperature": 13.0}),
    (["target_temperature=43.0"], {"target_temperature": 43.0}),
    (["target_humidity=55"], {"target_humidity": 55}),
    (["target_humidity=35.0"], {"target_humidity": 35}),
    # booleans
    (["power_state=True"], {"power_state": True}),
    (["power_state=false"], {"power_state": False}),
    (["power_state=FALSE"], {"power_state": False}),
    (["eco=0"], {"eco": False}),
    (["turbo=1"], {"turbo": True}),
    (["sleep=true"], {"sleep": True}),
    (["beep=1"], {"beep": True}),
    (["fahrenheit=True", "follow_me=1", "purifier=TRUE", "freeze_protection=1"],
     {"fahrenheit": True, "follow_me": True, "purifier": True, "freeze_protection": True}),
    # pairs and the README example
    (["operational_mode=cool", "target_temperature=20.5", "fan_speed=100", "display_on=True", "beep=0"],
     {"operational_mode": AC.OperationalMode.COOL, "target_temperature": 20.5,
      "fan_speed": AC.FanSpeed.MAX, "display_on": True, "beep": False}),
    (["eco=1", "eco=0"], {"eco": False}),
    # property protocol settings
    (["horizontal_swing_angle=pos_3", "vertical_swing_angle=100"],
     {"horizontal_swing_angle": AC.SwingAngle.POS_3, "vertical_swing_angle": AC.SwingAngle.POS_5}),
    (["rate_select=gear_75", "ieco=1"], {"rate_select": AC.RateSelect.GEAR_75, "ieco": True}),
    (["breeze_away=True"], {"breeze_away": True}),
    # display only
    (["display_on=1"], {"display_on": True}),
    (["display_on=False"], {"display_on": False}),
]

INVALID = [
    ["bogus=1"], ["=1"], ["Eco=1"], ["operational_mode =cool"],
    ["indoor_temperature=20"], ["online=True"], ["supports_eco=1"], ["ip=1.2.3.4"],
    ["refresh=1"], ["apply=1"], ["FanSpeed=1"], ["_eco=1"], ["__class__=1"],
    ["operational_mode=warm"], ["operational_mode=0"], ["operational_mode=7"],
    ["operational_mode=cool "], ["operational_mode="], ["swing_mode=1"],
    ["swing_mode=diagonal"], ["fan_speed=fast"], ["aux_mode=5"], ["rate_select=33"],
    ["target_temperature=warm"], ["target_temperature="], ["target_temperature=20,5"],
    ["target_temperature=nan"], ["target_humidity=wet"], ["target_humidity=1e"],
    ["eco=yes"], ["eco=on"], ["eco="], ["power_state=maybe"], ["display_on=bright"],
    ["eco"], ["eco=1=2"], ["target_temperature"],
    # a good pair followed by a bad one must not send anything either
    ["operational_mode=cool", "bogus=1"], ["eco=1", "target_temperature=hot"],
]

for display_on in (True, False):
    for caps in (False, True):
        for settings, values in VALID:
            argv = ["control", "10.0.0.9"] + (["--capabilities"] if caps else []) + settings
            status, dev = run_cli(argv, display_on)
            ref = run_reference(values, display_on, caps)
            label = f"{argv} display_on={display_on}"
            check(status == 0, f"{label}: exit status {status!r}")
            for kinds in (("set_state",), ("set_props",), ("toggle",)):
                check(dev.sent(*kinds) == ref.sent(*kinds),
                      f"{label}: {kinds} {dev.sent(*kinds)} != {ref.sent(*kinds)}")
            check(len(dev.sent("get_state")) >= 1, f"{label}: state never queried")
            first_write = min((i for i, f in enumerate(dev.frames)
                               if dev.kind(f) in ("set_state", "set_props", "toggle")), default=None)
            if first_write is not None:
                check(any(dev.kind(f) == "get_state" for f in dev.frames[:first_write]),
                      f"{label}: wrote before reading the device state")
            check(dev.display_on == values.get("display_on", display_on),
                  f"{label}: display ended {dev.display_on}")

for settings in INVALID:
    for extra in ([], ["--token", "00" * 64, "--key", "11" * 32, "--id", "1234"]):
        argv = ["control", "10.0.0.9"] + extra + settings
        status, dev = run_cli(argv)
        check(status != 0, f"{argv}: accepted (exit 0)")
        check(dev.frames == [] and dev.auth == [], f"{argv}: I/O before rejection {dev.frames} {dev.auth}")

# Manual V3 credentials are handed to authenticate before anything else happens
status, dev = run_cli(["control", "10.0.0.9", "--token", "ab" * 64, "--key", "cd" * 32, "--id", "77", "eco=1"])
check(status == 0, f"manual credentials: exit {status!r}")
check(len(dev.auth) == 1 and bytes.fromhex("ab" * 64) in (dev.auth[0][0], bytes.fromhex(dev.auth[0][0]) if isinstance(dev.auth[0][0], str) else None),
      f"manual credentials: {dev.auth}")

print("demo: %d failures" % len(failures))
sys.exit(1 if failures else 0)
