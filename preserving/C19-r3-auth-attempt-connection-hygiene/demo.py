"""Demo for change 2 (per-loop discovery lock, proactive disconnect between the two udpid attempts).

A model NetHome Plus server (httpx.MockTransport) plus a model V3 device (UDP discovery responder + TCP handshake) on a
private loopback address. Exits 0 on the original code and with the change.
"""
import asyncio
import hashlib
import json
import logging
import os
import sys
from hashlib import md5, sha256
from urllib.parse import parse_qsl, urlparse

import httpx
from Crypto.Cipher import AES
from Crypto.Util import Padding

from msmart.cloud import ApiError, CloudError
from msmart.device import Device
from msmart.discover import Discover

logging.disable(logging.CRITICAL)

APP_KEY = "3742e9e5842d4ad59c2db887e12449f9"


def sha(s: str) -> str:
    return hashlib.sha256(s.encode()).hexdigest()


class ModelServer:
    """Conforming server: verifies sign, login id, password derivation and session id of every request."""

    def __init__(self, accounts, tokenlist):
        self.accounts = accounts
        self.tokenlist = tokenlist
        self.login_ids = {}
        self.sessions = set()
        self.requests = []  # (path, fields)
        self.violations = []
        self.faults = []  # consumed one per request: "timeout", "http500", int api code
        self._n = 0

    def client(self):
        return httpx.AsyncClient(transport=httpx.MockTransport(self.handle))

    def _ok(self, result):
        return httpx.Response(200, text=json.dumps({"errorCode": "0", "msg": "ok", "result": result}))

    def _err(self, code, msg):
        return httpx.Response(200, text=json.dumps({"errorCode": str(code), "msg": msg}))

    async def handle(self, request: httpx.Request):
        await asyncio.sleep(0)  # let other tasks interleave
        path = urlparse(str(request.url)).path
        fields = dict(parse_qsl(request.content.decode(), keep_blank_values=True))
        self.requests.append((path, fields))

        if self.faults:
            fault = self.faults.pop(0)
            if fault == "timeout":
                raise httpx.ReadTimeout("model timeout", request=request)
            if fault == "http500":
                return httpx.Response(500, text="oops")
            if isinstance(fault, int):
                return self._err(fault, "injected")

        # Signature over path + sorted fields (without sign) + app key
        sign = fields.get("sign")
        query = "&".join(f"{k}={v}" for k, v in sorted(
            (k, v) for k, v in fields.items() if k != "sign"))
        if sign != sha(path + query + APP_KEY):
            self.violations.append(f"bad sign on {path}")
            return self._err(3301, "bad sign")

        for f in ("appId", "src", "format", "clientType", "language", "deviceId", "stamp", "sessionId"):
            if f not in fields:
                self.violations.append(f"missing field {f} on {path}")

        if path == "/v1/user/login/id/get":
            acct = fields.get("loginAccount")
            if acct not in self.accounts:
                return self._err(3102, "no such account")
            self._n += 1
            self.login_ids.setdefault(acct, []).append(f"lid{self._n:04d}")
            return self._ok({"loginId": self.login_ids[acct][-1]})

        if path == "/v1/user/login":
            acct = fields.get("loginAccount")
            if acct not in self.accounts or acct not in self.login_ids:
                return self._err(3102, "no such account")
            # Any login id issued for the account is accepted
            expect = [sha(lid + sha(self.accounts[acct]) + APP_KEY) for lid in self.login_ids[acct]]
            if fields.get("password") not in expect:
                return self._err(3101, "bad password")
            self._n += 1
            sid = f"sess{self._n:04d}"
            self.sessions.add(sid)
            return self._ok({"sessionId": sid, "userId": "1"})

        if path == "/v1/iot/secure/getToken":
            if fields.get("sessionId") not in self.sessions:
                self.violations.append("getToken without valid session id")
                return self._err(3106, "invalid session")
            return self._ok({"tokenlist": self.tokenlist})

        return httpx.Response(404, text="")


def udpid(device_id: int, endian: str) -> str:
    h = sha256(device_id.to_bytes(6, endian)).digest()
    return bytes(a ^ b for a, b in zip(h[:16], h[16:])).hex()


def entry(udp, n):
    return {"udpId": udp, "token": f"{n:02x}" * 64, "key": f"{n + 100:02x}" * 32}


def check(cond, what):
    if not cond:
        print("FAIL:", what)
        sys.exit(1)


ENC_KEY = md5(b"xhdiwjnchekd4d512chdjx5d8e4c394D2D7S").digest()


class ModelDevice:
    """V3 device: answers discovery on UDP 6445 and the key handshake on TCP."""

    def __init__(self, ip, device_id, token_hex, key_hex, close_on_error):
        self.ip, self.id = ip, device_id
        self.token, self.key = bytes.fromhex(token_hex), bytes.fromhex(key_hex)
        self.close_on_error = close_on_error
        self.handshakes = []  # tokens presented
        self.connections = 0
        self.port = None
        self.writers = []

    async def start(self):
        self.server = await asyncio.start_server(self._tcp, self.ip, 0)
        self.port = self.server.sockets[0].getsockname()[1]
        loop = asyncio.get_running_loop()
        dev = self

        class Udp(asyncio.DatagramProtocol):
            def connection_made(self, transport):
                self.t = transport

            def datagram_received(self, data, addr):
                self.t.sendto(dev.discovery_response(), addr)

        self.udp, _ = await loop.create_datagram_endpoint(Udp, local_addr=(self.ip, 6445))

    async def stop(self):
        self.udp.close()
        self.server.close()
        for w in self.writers:
            w.close()
        await asyncio.sleep(0)

    def discovery_response(self) -> bytes:
        name = b"net_a1_ABCD"  # type 0xA1: generic Device, no refresh traffic needed
        plain = bytes(reversed([int(x) for x in self.ip.split(".")])) + self.port.to_bytes(2, "little") + bytes(2)
        plain += b"0000000000000000000000000000ABCD"[:32].ljust(32, b"0")
        plain += bytes([len(name)]) + name
        enc = AES.new(ENC_KEY, AES.MODE_ECB).encrypt(Padding.pad(plain, 16))
        body = bytearray(40)
        body[0:2] = b"\x5a\x5a"
        body[20:26] = self.id.to_bytes(6, "little")
        body = bytes(body) + enc + bytes(16)
        return b"\x83\x70" + len(body).to_bytes(2, "big") + b"\x20\x00\x00\x00" + body + bytes(16)

    async def _tcp(self, reader, writer):
        self.connections += 1
        self.writers.append(writer)
        try:
            while True:
                hdr = await reader.readexactly(6)
                size = int.from_bytes(hdr[2:4], "big")
                rest = await reader.readexactly(size + 2)
                pid, payload = rest[:2], rest[2:]
                if hdr[5] & 0xF != 0x0:
                    continue
                self.handshakes.append(payload)
                if payload == self.token:
                    plain = os.urandom(32)
                    data = AES.new(self.key, AES.MODE_CBC, iv=bytes(16)).encrypt(plain) + sha256(plain).digest()
                    writer.write(b"\x83\x70" + len(data).to_bytes(2, "big") + b"\x20\x01" + pid + data)
                else:
                    writer.write(b"\x83\x70\x00\x05\x20\x0f" + pid + b"ERROR")
                    if self.close_on_error:
                        await writer.drain()
                        break
                await writer.drain()
        except (asyncio.IncompleteReadError, ConnectionError):
            pass
        finally:
            writer.close()


async def scenario(n, registered_endian, close_on_error, position):
    pid = os.getpid()
    ip = f"127.{1 + pid % 200}.{(pid // 200) % 250}.{10 + n}"
    device_id = 0x0000A1B2C3D4E5 + n
    little, big = udpid(device_id, "little"), udpid(device_id, "big")
    good = entry(little if registered_endian == "little" else big, 7)
    # Device only registered under one udpid; the cloud knows decoys for the other and near misses
    other = little if registered_endian == "big" else big
    decoys = [entry(other, 1), entry(good["udpId"][:-1] + ("0" if good["udpId"][-1] != "0" else "1"), 2),
              entry(good["udpId"].upper() + "x", 3)]
    tokenlist = list(decoys)
    tokenlist.insert(position, good)

    srv = ModelServer({"nethome+us@mailinator.com": "password1"}, tokenlist)
    dev = ModelDevice(ip, device_id, good["token"], good["key"], close_on_error)
    await dev.start()
    try:
        found = await Discover.discover(target=ip, timeout=0.3, discovery_packets=1, get_async_client=srv.client)
    finally:
        await dev.stop()
    check(len(found) == 1, f"scenario {n}: one device discovered ({found})")
    d = found[0]
    check(d.id == device_id and d.version == 3, "id/version")
    check((d.token, d.key) == (good["token"], good["key"]), f"scenario {n}: device holds the registered credentials")
    check(dev.handshakes[-1] == bytes.fromhex(good["token"]), "last handshake used the registered token")
    expected_tokens = [decoys[0]["token"], good["token"]] if registered_endian == "big" else [good["token"]]
    check([h.hex() for h in dev.handshakes] == expected_tokens, f"scenario {n}: handshake sequence little then big")
    asked = [f["udpid"] for p, f in srv.requests if p == "/v1/iot/secure/getToken"]
    check(asked == ([little, big] if registered_endian == "big" else [little]), "udpids asked in order")
    check(not srv.violations, f"violations {srv.violations}")
    d._lan._disconnect()
    return dev


async def failing(n):
    """Neither credential works / cloud fails: no credentials on the device, cloud errors surface."""
    pid = os.getpid()
    ip = f"127.{1 + pid % 200}.{(pid // 200) % 250}.{10 + n}"
    device_id = 0x0000112233445566 & 0xFFFFFFFFFFFF
    little, big = udpid(device_id, "little"), udpid(device_id, "big")
    srv = ModelServer({"nethome+us@mailinator.com": "password1"}, [entry(little, 1), entry(big, 2)])
    dev = ModelDevice(ip, device_id, "aa" * 64, "bb" * 32, False)
    await dev.start()
    try:
        found = await Discover.discover(target=ip, timeout=0.3, discovery_packets=1, get_async_client=srv.client)
        check(len(found) == 1 and found[0].token is None and found[0].key is None, "no credentials after two failures")
        check(len(dev.handshakes) == 2, "both byte orders tried")
        found[0]._lan._disconnect()

        # Cloud error during token retrieval: surfaces as CloudError from discover()
        srv2 = ModelServer({"nethome+us@mailinator.com": "password1"}, [])
        try:
            await Discover.discover(target=ip, timeout=0.3, discovery_packets=1, get_async_client=srv2.client)
            check(False, "absent entry must surface")
        except CloudError:
            pass
        srv3 = ModelServer({"nethome+us@mailinator.com": "password1"}, [entry(little, 1)])
        srv3.faults = [None, None, "timeout", "timeout", "timeout"]
        try:
            await Discover.discover(target=ip, timeout=0.3, discovery_packets=1, get_async_client=srv3.client)
            check(False, "timeouts must surface")
        except CloudError:
            pass
        check(sum(1 for p, _ in srv3.requests if p.endswith("getToken")) == 3, "retry budget respected")
    finally:
        await dev.stop()


async def main():
    n = 0
    for endian in ("little", "big"):
        for close in (False, True):
            for pos in (0, 3):
                await scenario(n, endian, close, pos)
                n += 1
    await failing(n)


if __name__ == "__main__":
    asyncio.run(main())

    # A second event loop in the same process (class-level lock must not break it)
    async def again():
        await scenario(100, "big", True, 2)
        # Manual connect of a discovered-elsewhere device object
        await asyncio.gather(scenario(101, "little", False, 0))
    asyncio.run(again())
    print("demo2 OK")
