"""Demonstration for C09 (transport containment), change 1: peer close fails the exchange fast.

A byte-level adversarial peer is served from a loopback TCP server.  For every scripted peer the
outcome of LAN.send / LAN.authenticate must be one of: list of decoded frames, ProtocolError
(incl. AuthenticationError), TimeoutError.  Device level operations must not raise at all
(Device.authenticate may raise AuthenticationError only).

Exits 0 when every case is contained.
"""
import asyncio
import logging
import os
import random
import sys
import time
from hashlib import md5, sha256

from Crypto.Cipher import AES
from Crypto.Util import Padding
from Crypto.Util.strxor import strxor

from msmart.device import AirConditioner
from msmart.lan import LAN, AuthenticationError, ProtocolError

logging.disable(logging.CRITICAL)

SIGN_KEY = "xhdiwjnchekd4d512chdjx5d8e4c394D2D7S".encode()
ENC_KEY = md5(SIGN_KEY).digest()
STATE_FRAME = bytes.fromhex(
    "aa23ac00000000000303c00145660000003c0010045c6800000000000000000000018426")
QUERY = bytes.fromhex(
    "aa21ac8d000000000003418100ff03ff000200000000000000000000000003016971")
TOKEN = bytes(range(64))
KEY = bytes(range(100, 132))
RNG = random.Random(909)


# ---------------------------------------------------------------- peer side encoders (independent of the library)
def v2_packet(frame: bytes, *, length=None, sign=True, raw_payload=None) -> bytes:
    payload = raw_payload if raw_payload is not None else AES.new(
        ENC_KEY, AES.MODE_ECB).encrypt(Padding.pad(frame, 16))
    total = 40 + len(payload) + 16
    hdr = b"\x5a\x5a\x01\x11" + (total if length is None else length).to_bytes(2, "little") + b"\x20\x00"
    hdr += bytes(4) + bytes(8) + (1234).to_bytes(8, "little") + bytes(12)
    pkt = hdr + payload
    return pkt + (md5(pkt + SIGN_KEY).digest() if sign else bytes(16))


def v3_handshake_response(plain: bytes, *, ptype=0x1, good_hash=True, size=None) -> bytes:
    body = AES.new(KEY, AES.MODE_CBC, iv=bytes(16)).encrypt(plain)
    body += sha256(plain).digest() if good_hash else bytes(32)
    n = len(body) if size is None else size
    return b"\x83\x70" + n.to_bytes(2, "big") + b"\x20" + bytes([ptype]) + b"\x00\x01" + body


def v3_encrypted(local_key: bytes, data: bytes, *, ptype=0x3, good_hash=True, cipher=None, magic=0x20) -> bytes:
    rem = (len(data) + 2) % 16
    pad = 16 - rem if rem else 0
    length = len(data) + pad + 32
    header = b"\x83\x70" + length.to_bytes(2, "big") + bytes([magic, pad << 4 | ptype])
    plain = b"\x00\x07" + data + bytes(pad)
    enc = AES.new(local_key, AES.MODE_CBC, iv=bytes(16)).encrypt(plain)
    if cipher is not None:
        enc = cipher
        plain = AES.new(local_key, AES.MODE_CBC, iv=bytes(16)).decrypt(enc) if len(enc) % 16 == 0 else enc
        header = b"\x83\x70" + (len(enc) - 2 + 32).to_bytes(2, "big") + bytes([magic, ptype])
    digest = sha256(header + plain).digest() if good_hash else bytes(32)
    return header + enc + digest


# ---------------------------------------------------------------- scripted peer
class Peer:
    """Loopback TCP peer.  `steps` is a list of actions executed after each client request:
    bytes -> write them; "close" -> FIN; "abort" -> RST; "silent" -> nothing; float -> sleep."""

    def __init__(self, steps, v3=False, handshake=None):
        self.steps = list(steps)
        self.v3 = v3
        self.handshake = handshake  # override for the handshake reply (list of actions)
        self.plain = bytes(RNG.getrandbits(8) for _ in range(32))
        self.local_key = strxor(self.plain, KEY)
        self.server = None
        self.port = None
        self.connections = 0

    async def __aenter__(self):
        self.server = await asyncio.start_server(self._handle, "127.0.0.1", 0)
        self.port = self.server.sockets[0].getsockname()[1]
        return self

    async def __aexit__(self, *exc):
        self.server.close()

    async def _do(self, writer, action) -> bool:
        if callable(action):
            action = action(self)
        if isinstance(action, (bytes, bytearray)):
            writer.write(bytes(action))
            await writer.drain()
        elif action == "close":
            writer.close()
            return False
        elif action == "abort":
            writer.transport.abort()
            return False
        elif isinstance(action, float):
            await asyncio.sleep(action)
        return True

    async def _handle(self, reader, writer):
        self.connections += 1
        try:
            authed = not self.v3
            while True:
                req = await reader.read(4096)
                if not req:
                    break
                if not authed:
                    authed = True
                    actions = self.handshake if self.handshake is not None else [
                        v3_handshake_response(self.plain)]
                else:
                    actions = self.steps.pop(0) if self.steps else ["silent"]
                if not isinstance(actions, list):
                    actions = [actions]
                for a in actions:
                    if not await self._do(writer, a):
                        return
        except (ConnectionError, OSError):
            pass
        finally:
            try:
                writer.close()
            except Exception:  # pylint: disable=broad-except
                pass


def classify(result):
    if isinstance(result, list) and all(isinstance(r, bytes) for r in result):
        return "frames"
    if isinstance(result, ProtocolError):
        return "protocol"
    if isinstance(result, TimeoutError):
        return "timeout"
    return f"ESCAPED:{type(result).__name__}:{result!r}"


async def run_lan(name, peer: Peer, *, expect=None, retries=1, exchanges=1, gap=0.0):
    """Drive LAN.authenticate (V3) and LAN.send against the peer; contain-check the outcome."""
    out = []
    async with peer:
        lan = LAN("127.0.0.1", peer.port, 1234)
        start = time.monotonic()
        try:
            if peer.v3:
                await lan.authenticate(TOKEN, KEY)
            res = None
            for i in range(exchanges):
                if i and gap:
                    await asyncio.sleep(gap)
                res = await lan.send(QUERY, retries=retries)
        except BaseException as e:  # pylint: disable=broad-except
            res = e
        kind = classify(res)
        out.append((name, kind, round(time.monotonic() - start, 1)))
        try:
            lan._disconnect()  # pylint: disable=protected-access
        except Exception:  # pylint: disable=broad-except
            pass
    ok = not kind.startswith("ESCAPED") and (expect is None or kind in expect)
    return ok, out[0]


async def run_device(name, peer: Peer, *, expect_online=None):
    """Drive Device.authenticate / AirConditioner.refresh; nothing but AuthenticationError may escape."""
    async with peer:
        dev = AirConditioner(ip="127.0.0.1", port=peer.port, device_id=1234)
        start = time.monotonic()
        kind = "returned"
        try:
            if peer.v3:
                try:
                    await dev.authenticate(TOKEN.hex(), KEY.hex())
                except AuthenticationError:
                    kind = "auth-error"
            if kind == "returned":
                await dev.refresh()
                kind = "online" if dev.online else "offline"
        except BaseException as e:  # pylint: disable=broad-except
            kind = f"ESCAPED:{type(e).__name__}:{e!r}"
        try:
            dev._lan._disconnect()  # pylint: disable=protected-access
        except Exception:  # pylint: disable=broad-except
            pass
    ok = not kind.startswith("ESCAPED") and (expect_online is None or kind == expect_online)
    return ok, (name, kind, round(time.monotonic() - start, 1))


def rand(n):
    return bytes(RNG.getrandbits(8) for _ in range(n))


def common_cases():
    good2 = v2_packet(STATE_FRAME)
    cases = []
    # --- controls
    cases.append(run_lan("v2 valid", Peer([good2]), expect={"frames"}))
    cases.append(run_lan("v3 valid", Peer([lambda p: v3_encrypted(p.local_key, good2)], v3=True),
                         expect={"frames"}))
    cases.append(run_device("dev v2 valid", Peer([good2] * 4), expect_online="online"))
    cases.append(run_device("dev v3 valid", Peer([lambda p: v3_encrypted(p.local_key, good2)] * 4, v3=True),
                            expect_online="online"))
    # --- V2 malformed
    cases.append(run_lan("v2 random", Peer([rand(77)])))
    cases.append(run_lan("v2 short", Peer([b"\x5a\x5a\x01"])))
    cases.append(run_lan("v2 truncated", Peer([good2[:50]])))
    for ln in (0, 1, 5, 6, 16, 39, 40, 55, 56, 57, 0xFFFF):
        cases.append(run_lan(f"v2 length={ln}", Peer([v2_packet(STATE_FRAME, length=ln)])))
    cases.append(run_lan("v2 bad sign", Peer([v2_packet(STATE_FRAME, sign=False)])))
    for n in (0, 1, 15, 17, 32, 33):
        cases.append(run_lan(f"v2 signed garbage payload {n}", Peer([v2_packet(b"", raw_payload=rand(n))])))
    cases.append(run_lan("v2 v3-packet to v2 client", Peer([v3_handshake_response(rand(32))])))
    cases.append(run_device("dev v2 signed garbage", Peer([v2_packet(b"", raw_payload=rand(17))] * 4),
                            expect_online="offline"))
    # --- V3 handshake phase: every type nibble, sizes, hashes
    for t in range(16):
        cases.append(run_lan(f"v3 handshake type={t:X}", Peer([], v3=True,
                             handshake=[v3_handshake_response(rand(32), ptype=t)])))
    for n in (0, 1, 31, 33, 48, 63):
        body = rand(n)
        pkt = b"\x83\x70" + n.to_bytes(2, "big") + b"\x20\x01\x00\x00" + body
        cases.append(run_lan(f"v3 handshake body {n}", Peer([], v3=True, handshake=[pkt])))
    cases.append(run_lan("v3 handshake bad hash", Peer([], v3=True,
                         handshake=[v3_handshake_response(rand(32), good_hash=False)])))
    cases.append(run_lan("v3 handshake bad magic", Peer([], v3=True,
                         handshake=[b"\x83\x70\x00\x40\x21\x01" + rand(66)])))
    cases.append(run_lan("v3 encrypted before auth", Peer([], v3=True,
                         handshake=[lambda p: v3_encrypted(p.local_key, good2)])))
    cases.append(run_device("dev v3 handshake garbage", Peer([], v3=True, handshake=[rand(200)]),
                            expect_online="auth-error"))
    # --- V3 data phase: every type nibble, unaligned / signed random ciphertext, bad magic
    for t in range(16):
        cases.append(run_lan(f"v3 data type={t:X}", Peer(
            [lambda p, t=t: v3_encrypted(p.local_key, good2, ptype=t)], v3=True)))
    for n in (0, 2, 15, 16, 17, 31, 100):
        cases.append(run_lan(f"v3 signed random cipher {n}", Peer(
            [lambda p, n=n: v3_encrypted(p.local_key, b"", cipher=rand(n) if n else b"")], v3=True)))
    cases.append(run_lan("v3 data bad hash", Peer(
        [lambda p: v3_encrypted(p.local_key, good2, good_hash=False)], v3=True)))
    cases.append(run_lan("v3 data bad magic", Peer(
        [lambda p: v3_encrypted(p.local_key, good2, magic=0x21)], v3=True)))
    cases.append(run_lan("v3 data inner garbage", Peer(
        [lambda p: v3_encrypted(p.local_key, rand(60))], v3=True)))
    cases.append(run_lan("v3 data random", Peer([rand(300)], v3=True)))
    cases.append(run_lan("v3 min packet", Peer([b"\x83\x70\x00\x00\x20\x03\x00\x00"], v3=True)))
    cases.append(run_device("dev v3 data garbage", Peer(
        [lambda p: v3_encrypted(p.local_key, rand(60))] * 4, v3=True), expect_online="offline"))
    return cases


def specific_cases():
    """Cases around the peer closing / resetting the connection."""
    good2 = v2_packet(STATE_FRAME)
    cases = []
    cases.append(run_lan("v2 close, no data", Peer([["close"]]), expect={"protocol", "timeout"}, retries=3))
    cases.append(run_lan("v2 abort, no data", Peer([["abort"]]), expect={"protocol", "timeout"}, retries=3))
    cases.append(run_lan("v2 valid then close", Peer([[good2, "close"]]), expect={"frames"}))
    cases.append(run_lan("v2 valid x2 then close", Peer([[good2 + good2[:0], 0.05, good2, "close"]]),
                         expect={"frames"}))
    cases.append(run_lan("v2 valid, close, next exchange reconnects",
                         Peer([[good2, "close"], [good2]]), expect={"frames"}, exchanges=2, gap=0.3))
    cases.append(run_lan("v2 garbage then close", Peer([[rand(40), "close"]]), expect={"protocol"}))
    cases.append(run_lan("v2 partial then abort", Peer([[good2[:30], "abort"]]), expect={"protocol", "timeout"}))
    cases.append(run_lan("v3 handshake close", Peer([], v3=True, handshake=["close"]),
                         expect={"protocol", "timeout"}))
    cases.append(run_lan("v3 handshake abort", Peer([], v3=True, handshake=["abort"]),
                         expect={"protocol", "timeout"}))
    cases.append(run_lan("v3 handshake partial then close", Peer([], v3=True,
                         handshake=[b"\x83\x70\x00\x40\x20\x01\x00", "close"]), expect={"protocol", "timeout"}))
    cases.append(run_lan("v3 data close", Peer([["close"]], v3=True), expect={"protocol", "timeout"}, retries=3))
    cases.append(run_lan("v3 valid then close", Peer(
        [[lambda p: v3_encrypted(p.local_key, good2), "close"]], v3=True), expect={"frames"}))
    cases.append(run_device("dev v2 close", Peer([["close"]] * 4), expect_online="offline"))
    cases.append(run_device("dev v3 close after auth", Peer([["close"]] * 4, v3=True)))
    cases.append(run_device("dev v3 close in handshake", Peer([], v3=True, handshake=["abort"]),
                            expect_online="auth-error"))
    return cases


async def main() -> int:
    start = time.monotonic()
    results = await asyncio.gather(*common_cases(), *specific_cases())
    bad = [r for ok, r in results if not ok]
    summary = {}
    for _, (name, kind, secs) in results:
        summary[kind.split(":")[0]] = summary.get(kind.split(":")[0], 0) + 1
        if os.environ.get("DEMO_VERBOSE"):
            print(f"{name:50s} {kind:12s} {secs}s")
    print(f"{len(results)} cases in {time.monotonic() - start:.1f}s: {summary}")
    for r in bad:
        print("NOT CONTAINED / UNEXPECTED:", r)
    return 1 if bad else 0


if __name__ == "__main__":
    sys.exit(asyncio.run(main()))
