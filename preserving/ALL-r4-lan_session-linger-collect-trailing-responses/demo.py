import asyncio
import hashlib
import logging
import os
import sys
import time

from msmart.lan import LAN, ProtocolError, Security, _Packet

TOKEN = bytes(range(64))
KEY = bytes(range(100, 132))


def _xor(a, b):
    return bytes(x ^ y for x, y in zip(a, b))


class FakeDevice:
    """Minimal loopback Midea device speaking V2 or V3.

    `plan(n, frame)` is called for the n-th data request (1-based, per device) and
    returns a list of (delay, frame) answers (possibly empty = stay silent).
    """

    def __init__(self, version=2, plan=None, close_after=None):
        self.version = version
        self.plan = plan or (lambda n, frame: [(0, b"\xaa\x01ok" + bytes([n & 0xFF]))])
        self.close_after = close_after
        self.server = None
        self.port = None
        self.connections = []   # per connection: list of events
        self.requests = 0
        self.open = 0
        self.max_open = 0
        self.log = []           # (time, connection index, event)
        self.writers = []

    async def start(self, port=0):
        self.server = await asyncio.start_server(self._handle, "127.0.0.1", port)
        self.port = self.server.sockets[0].getsockname()[1]
        return self

    async def stop(self):
        self.server.close()
        for w in self.writers:
            w.close()
        await asyncio.sleep(0.05)

    def _note(self, idx, event):
        self.log.append((time.monotonic(), idx, event))
        self.connections[idx].append(event)

    async def _handle(self, reader, writer):
        idx = len(self.connections)
        self.connections.append([])
        self.writers.append(writer)
        self.open += 1
        self.max_open = max(self.max_open, self.open)
        self._note(idx, "open")
        session = {"key": None, "count": 0}
        try:
            while True:
                if self.version == 3:
                    head = await reader.readexactly(6)
                    assert head[:2] == b"\x83\x70", head
                    size = int.from_bytes(head[2:4], "big")
                    rest = await reader.readexactly(size + 2)
                    await self._on_v3(idx, session, head, rest, writer)
                else:
                    head = await reader.readexactly(6)
                    assert head[:2] == b"\x5a\x5a", head
                    size = int.from_bytes(head[4:6], "little")
                    rest = await reader.readexactly(size - 6)
                    frame = _Packet.decode(head + rest)
                    await self._on_frame(idx, frame, lambda f: writer.write(
                        _Packet.encode(1234, f)), writer)
        except (asyncio.IncompleteReadError, ConnectionError):
            pass
        finally:
            self.open -= 1
            self._note(idx, "closed")
            writer.close()

    async def _on_frame(self, idx, frame, reply, writer):
        self.requests += 1
        n = self.requests
        self._note(idx, ("data", frame))
        for delay, answer in self.plan(n, frame):
            if delay:
                await asyncio.sleep(delay)
            reply(answer)
        await writer.drain()
        if self.close_after and n in self.close_after:
            self._note(idx, "server-close")
            writer.close()

    async def _on_v3(self, idx, session, head, rest, writer):
        ptype = head[5] & 0xF
        if ptype == 0x0:
            counter = int.from_bytes(rest[:2], "big")
            token = rest[2:]
            self._note(idx, ("handshake", counter, token))
            nonce = os.urandom(32)
            session["key"] = _xor(nonce, KEY)
            payload = Security.encrypt_aes_cbc(KEY, nonce) + hashlib.sha256(nonce).digest()
            body = bytes(2) + payload
            writer.write(b"\x83\x70" + len(payload).to_bytes(2, "big") + b"\x20\x01" + body)
            await writer.drain()
        elif ptype == 0x6:
            assert session["key"] is not None, "data before handshake"
            enc, tag = rest[:-32], rest[-32:]
            plain = Security.decrypt_aes_cbc(session["key"], enc)
            assert hashlib.sha256(head + plain).digest() == tag
            pad = head[5] >> 4
            counter = int.from_bytes(plain[:2], "big")
            inner = plain[2:len(plain) - pad]
            frame = _Packet.decode(inner)
            self._note(idx, ("counter", counter))

            def reply(answer):
                data = _Packet.encode(1234, answer)
                session["count"] += 1
                rem = (len(data) + 2) % 16
                p = 16 - rem if rem else 0
                h = b"\x83\x70" + (len(data) + p + 32).to_bytes(2, "big") + b"\x20" + bytes([p << 4 | 0x3])
                pl = session["count"].to_bytes(2, "big") + data + bytes(p)
                writer.write(h + Security.encrypt_aes_cbc(session["key"], pl) + hashlib.sha256(h + pl).digest())
            await self._on_frame(idx, frame, reply, writer)
        else:
            raise AssertionError(f"unexpected type {ptype}")

    def data_frames(self, idx=None):
        conns = self.connections if idx is None else [self.connections[idx]]
        return [e[1] for c in conns for e in c if isinstance(e, tuple) and e[0] == "data"]


def check(cond, what):
    print(("ok   " if cond else "FAIL ") + what)
    if not cond:
        sys.exit(1)


# ---------------------------------------------------------------- demo 3: collecting the answers of an exchange
def new_lan(dev, version):
    lan = LAN("127.0.0.1", dev.port, 1234)
    lan._token, lan._key, lan._protocol_version = TOKEN, KEY, version
    return lan


def send_times(dev, frame):
    return [t for (t, _i, e) in dev.log if e == ("data", frame)]


async def main():
    for version in (2, 3):
        # 1. single answer: returned alone and promptly
        dev = await FakeDevice(version).start()
        lan = new_lan(dev, version)
        await lan.send(b"\xaa\x10warmup")
        t0 = time.monotonic()
        res = await lan.send(b"\xaa\x10one")
        took = time.monotonic() - t0
        check(res == [b"\xaa\x01ok\x02"] and took < 0.5, f"V{version}: single answer returned promptly ({took * 1000:.0f} ms)")
        await dev.stop()

        # 2. two answers 20 ms apart, then a second exchange: every frame is delivered exactly once, in order,
        #    by one exchange or the other
        dev = await FakeDevice(version, plan=lambda n, f: [(0, b"\xaa\x01first" + bytes([n])), (0.02, b"\xaa\x01second" + bytes([n]))]).start()
        lan = new_lan(dev, version)
        r1 = await lan.send(b"\xaa\x10A")
        await asyncio.sleep(0.1)
        r2 = await lan.send(b"\xaa\x10B")
        await asyncio.sleep(0.1)
        r3 = await lan.send(b"\xaa\x10C")
        print(f"     V{version}: frames per exchange: {len(r1)}, {len(r2)}, {len(r3)}")
        check(r1[0] == b"\xaa\x01first\x01" and len(r1) >= 1, "first exchange starts with the first answer")
        got = r1 + r2 + r3
        want = [b"\xaa\x01first\x01", b"\xaa\x01second\x01", b"\xaa\x01first\x02", b"\xaa\x01second\x02", b"\xaa\x01first\x03"]
        check(got[:5] == want and len(got) <= 6, "all answers delivered once, in order")
        check(dev.data_frames() == [b"\xaa\x10A", b"\xaa\x10B", b"\xaa\x10C"], "each request transmitted once")
        await dev.stop()

        # 3. first transmission unanswered, second answered: two transmissions 2 s apart, then no more
        dev = await FakeDevice(version, plan=lambda n, f: [] if n == 1 else [(0, b"\xaa\x01late")]).start()
        lan = new_lan(dev, version)
        res = await lan.send(b"\xaa\x10R", retries=3)
        times = send_times(dev, b"\xaa\x10R")
        check(res == [b"\xaa\x01late"] and len(times) == 2, "answered on the second transmission, retransmission stops")
        check(1.9 < times[1] - times[0] < 2.3, f"retransmitted after the 2 s read timeout ({times[1] - times[0]:.2f} s)")
        await asyncio.sleep(0.3)
        check(len(send_times(dev, b"\xaa\x10R")) == 2, "nothing sent after the answer")
        await dev.stop()

    # 4. silent device: `retries` transmissions 2 s apart, then TimeoutError('No response from host.')
    dev = await FakeDevice(2, plan=lambda n, f: []).start()
    lan = new_lan(dev, 2)
    t0 = time.monotonic()
    try:
        await lan.send(b"\xaa\x10S", retries=2)
        check(False, "must time out")
    except TimeoutError as e:
        check("No response from host." in str(e), "silent device -> TimeoutError")
    took = time.monotonic() - t0
    check(len(send_times(dev, b"\xaa\x10S")) == 2 and 3.9 < took < 4.5, f"two transmissions, 4 s ({took:.2f})")
    check(lan._protocol is None, "connection dropped after the timeout")
    await dev.stop()

    # 5. a device that keeps talking (a frame every 30 ms for 1.2 s) cannot hold an exchange for long,
    #    and what it said is not lost: it comes with the following exchanges
    chatter = [(0, b"\xaa\x01c\x00")] + [(0.03, b"\xaa\x01c" + bytes([i])) for i in range(1, 40)]
    dev = await FakeDevice(2, plan=lambda n, f: chatter if n == 1 else [(0, b"\xaa\x01done")]).start()
    lan = new_lan(dev, 2)
    t0 = time.monotonic()
    r1 = await lan.send(b"\xaa\x10T")
    took = time.monotonic() - t0
    check(r1[0] == b"\xaa\x01c\x00" and took < 1.0, f"chatty device: exchange returned after {took * 1000:.0f} ms with {len(r1)} frame(s)")
    await asyncio.sleep(1.5)
    r2 = await lan.send(b"\xaa\x10U")
    check(r1 + r2 == [a for _d, a in chatter] + [b"\xaa\x01done"], "every frame delivered once, in order")
    await dev.stop()
    print("demo 3 done")


logging.basicConfig(level=logging.CRITICAL)
asyncio.run(main())
