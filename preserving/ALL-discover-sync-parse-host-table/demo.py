"""Demo 2: one device per responding address, bad responders omitted, identity preserved.

Uses an in-memory datagram endpoint (no network). Replies are delivered according to a
script of (delay, source address, data) entries with duplicates, several source ports and
interleavings of good and bad hosts. Also calls the parsing entry points directly.
"""
import asyncio
import logging
import sys

from Crypto.Cipher import AES
from Crypto.Util import Padding
from hashlib import md5

from msmart.const import DISCOVERY_MSG, DeviceType
from msmart.device import AirConditioner, Device
from msmart.discover import Discover

logging.basicConfig(level=logging.CRITICAL)

SIGN_KEY = b"xhdiwjnchekd4d512chdjx5d8e4c394D2D7S"
ENC_KEY = md5(SIGN_KEY).digest()


def make_reply(version, device_id, port, sn, name, reported_ip):
    body = bytes(reversed([int(x) for x in reported_ip.split(".")]))
    body += port.to_bytes(4, "little")
    body += sn.encode().ljust(32, b"0")[:32]
    body += bytes([len(name)]) + name.encode()
    body += bytes(10)
    enc = AES.new(ENC_KEY, AES.MODE_ECB).encrypt(Padding.pad(body, 16))
    total = 40 + len(enc) + 16
    hdr = bytearray(40)
    hdr[0:2] = b"\x5a\x5a"
    hdr[2:4] = b"\x01\x11"
    hdr[4:6] = total.to_bytes(2, "little")
    hdr[6:8] = b"\x7a\x80"
    hdr[20:26] = device_id.to_bytes(6, "little")
    pkt = bytes(hdr) + enc
    pkt += md5(pkt + SIGN_KEY).digest()
    if version == 3:
        pkt = b"\x83\x70" + len(pkt).to_bytes(2, "big") + b"\x20\x0f\x00\x00" + pkt + bytes(range(16))
    return pkt


class FakeSocket:
    def setsockopt(self, *args):
        pass


class FakeTransport(asyncio.DatagramTransport):
    """In-memory datagram transport: records probes, lets fake hosts answer them."""

    def __init__(self, loop, protocol, hosts):
        super().__init__()
        self.loop = loop
        self.protocol = protocol
        self.hosts = hosts  # ip -> reply bytes
        self.sent = []  # (time, data, addr)
        self.closed = False

    def get_extra_info(self, name, default=None):
        return FakeSocket() if name == "socket" else default

    def sendto(self, data, addr=None):
        assert not self.closed
        self.sent.append((self.loop.time(), bytes(data), addr))
        if len(self.sent) == 1:
            # hosts is a script: list of (delay, (ip, port), data)
            for delay, src, reply in self.hosts:
                self.loop.call_later(delay, self._deliver, reply, src)

    def _deliver(self, data, addr):
        if not self.closed:
            self.protocol.datagram_received(data, addr)

    def is_closing(self):
        return self.closed

    def close(self):
        if not self.closed:
            self.closed = True
            self.loop.call_soon(self.protocol.connection_lost, None)

    def abort(self):
        self.close()


async def run_discovery(hosts, **kwargs):
    loop = asyncio.get_event_loop()
    created = []

    async def fake_endpoint(factory, *args, **kw):
        protocol = factory()
        transport = FakeTransport(loop, protocol, hosts)
        created.append(transport)
        protocol.connection_made(transport)
        return transport, protocol

    orig = loop.create_datagram_endpoint
    loop.create_datagram_endpoint = fake_endpoint
    try:
        devices = await Discover.discover(**kwargs)
    finally:
        loop.create_datagram_endpoint = orig
    await asyncio.sleep(0.05)
    return devices, created[0]


def check(cond, msg):
    if not cond:
        print("FAIL:", msg)
        sys.exit(1)




def identity(d):
    return (type(d).__name__, d.ip, d.port, d.id, d.sn, d.name, int(d.type), d.version)


async def main():
    import itertools
    import random
    from unittest import mock

    rnd = random.Random(7)

    good = {
        "10.0.0.1": (2, 0x010203040506, 6444, "A" * 32, "net_ac_0001"),
        "10.0.0.2": (3, 0xFFFFFFFFFFFF, 1, "B" * 32, "net_ac_ABCD"),
        "10.0.0.3": (2, 1, 65535, "0123456789abcdef0123456789abcdef", "net_e1_X_Y"),
        "10.0.0.4": (3, 0x00FF00FF00FF, 6445, "C" * 32, "net_00_1234"),
    }
    replies = {ip: make_reply(v, i, p, sn, name, ip if n % 2 else "1.2.3.4")
               for n, (ip, (v, i, p, sn, name)) in enumerate(good.items())}

    def expected(ip):
        v, i, p, sn, name = good[ip]
        t = int(name.split("_")[1], 16)
        return ("AirConditioner" if t == 0xAC else "Device", ip, p, i, sn, name, t, v)

    # Bad reply classes
    enc = lambda body: AES.new(ENC_KEY, AES.MODE_ECB).encrypt(Padding.pad(body, 16))
    def envelope(body, version=2):
        pkt = bytearray(40)
        pkt[0:2] = b"\x5a\x5a"
        pkt = bytes(pkt) + enc(body)
        pkt += md5(pkt + SIGN_KEY).digest()
        if version == 3:
            pkt = b"\x83\x70" + len(pkt).to_bytes(2, "big") + b"\x20\x0f\x00\x00" + pkt + bytes(16)
        return pkt
    full = bytes([1, 0, 0, 10]) + (6444).to_bytes(4, "little") + b"S" * 32
    bad = {
        "random": bytes(rnd.randrange(256) for _ in range(90)),
        "random_v2_marker": b"\x5a\x5a" + bytes(rnd.randrange(256) for _ in range(102)),
        "random_v3_marker": b"\x83\x70" + bytes(rnd.randrange(256) for _ in range(126)),
        "short_body": envelope(b"\x01\x02\x03"),
        "short_body_v3": envelope(full[:20], 3),
        "non_text_body": envelope(full[:8] + b"\xff\xfe" * 16 + bytes([11]) + b"\xff" * 11),
        "no_separators": envelope(full + bytes([9]) + b"netac0001"),
        "bad_type": envelope(full + bytes([11]) + b"net_zz_0001"),
        "truncated": replies["10.0.0.1"][:57],
        "truncated_v3": replies["10.0.0.2"][:-23],
        "empty": b"",
        "xml_no_attrs": b"<root><body><device/></body></root>",
        "xml_no_device": b"<root/>",
        "text": b"hello world",
    }

    # 1. Duplicates, several source ports, all interleavings of 3 good hosts x 2 replies
    ips = ["10.0.0.1", "10.0.0.2", "10.0.0.3"]
    seqs = set(itertools.permutations(ips + ips))
    for seq in sorted(seqs)[::6]:
        script = [(0.001 * k, (ip, rnd.choice([6445, 20086, 40000 + k])), replies[ip]) for k, ip in enumerate(seq)]
        devices, _ = await run_discovery(script, target="10.0.0.255", timeout=0.05, auto_connect=False)
        check(sorted(map(identity, devices)) == sorted(map(expected, ips)), f"wrong devices for order {seq}")

    # 2. Each bad class from each subset position, mixed with good hosts
    for kind, data in bad.items():
        for bad_ips in (["10.0.0.9"], ["10.0.0.8", "10.0.0.9"]):
            events = [(ip, replies[ip]) for ip in good] * 2 + [(ip, data) for ip in bad_ips] * 2
            rnd.shuffle(events)
            script = [(0.001 * k, (ip, 6445), d) for k, (ip, d) in enumerate(events)]
            devices, _ = await run_discovery(script, target="10.0.0.255", timeout=0.08, auto_connect=False)
            check(sorted(map(identity, devices)) == sorted(map(expected, good)),
                  f"bad responder class {kind} changed the result: {[identity(d) for d in devices]}")

    # 3. Only bad responders -> nothing reported
    script = [(0.001 * k, ("10.0.1.%d" % k, 6445), d) for k, d in enumerate(bad.values())]
    devices, _ = await run_discovery(script, target="10.0.0.255", timeout=0.08, auto_connect=False)
    check(devices == [], "bad responders were reported")

    # 4. Direct use of the parsing entry points
    for ip, data in replies.items():
        v = Discover._get_device_version(data)
        check(v == good[ip][0], "version mismatch")
        info = await Discover._get_device_info(ip, v, data)
        check(info == {"ip": ip, "port": good[ip][2], "device_id": good[ip][1], "name": good[ip][4],
                       "sn": good[ip][3], "device_type": int(good[ip][4].split("_")[1], 16), "version": v},
              f"info mismatch {info}")
        Discover._auto_connect = False
        dev = await Discover._get_device(ip, v, data)
        check(dev is not None and identity(dev) == expected(ip), "_get_device mismatch")
        # memoryview / bytearray input
        info2 = await Discover._get_device_info(ip, v, bytearray(data))
        check(info2 == info, "bytearray input mismatch")
    for kind, data in bad.items():
        try:
            v = Discover._get_device_version(data)
        except Exception as e:
            check(type(e).__name__ == "DiscoverError", f"unexpected exception {e!r} for {kind}")
            continue
        if v == 1:
            continue
        check(await Discover._get_device("10.9.9.9", v, data) is None, f"{kind} produced a device")

    # 5. auto_connect: every V2 device found is refreshed exactly once, generic devices tolerated
    refreshed = []

    async def fake_refresh(self):
        refreshed.append(self.ip)
        await asyncio.sleep(0.02)

    v2 = ["10.0.0.1", "10.0.0.3"]
    with mock.patch.object(AirConditioner, "refresh", fake_refresh):
        script = [(0.001 * k, (ip, 6445), replies[ip]) for k, ip in enumerate(v2 * 3)]
        devices, _ = await run_discovery(script, target="10.0.0.255", timeout=0.05, auto_connect=True)
    check(sorted(map(identity, devices)) == sorted(map(expected, v2)), "auto_connect devices mismatch")
    check(refreshed == ["10.0.0.1"], f"unexpected refreshes {refreshed}")

    print("demo2 OK")


if __name__ == "__main__":
    asyncio.run(main())
