"""Demo 4: property-protocol settings (swing angles, rate select, breeze modes, iECO, self clean, buzzer)
written by apply()/start_self_clean() to units that acknowledge writes in different ways, and read back.
The transport is replaced by a fake unit (the way the project's own tests patch Device._send_command).

Exits 0 on the original code and with change4.patch.
"""
import asyncio
import struct
import sys
from unittest.mock import patch

import msmart.crc8 as crc8
from msmart.const import DeviceType, FrameType
from msmart.device import AirConditioner as AC
from msmart.frame import Frame


class _Resp(Frame):
    def __init__(self, ftype):
        super().__init__(DeviceType.AIR_CONDITIONER, ftype)


def build(ftype, body: bytes) -> bytes:
    return _Resp(ftype).tobytes(bytes(body) + bytes([crc8.calculate(bytes(body))]))


class FakeUnit:
    """A V2 unit with state, humidity, energy, properties and capabilities."""

    def __init__(self):
        self.power = False
        self.mode = 2
        self.temp = 22.5
        self.fan = 60
        self.swing = 0xC
        self.eco = False
        self.turbo = False
        self.sleep = False
        self.fahrenheit = False
        self.display = True
        self.humidity_target = 45
        self.indoor_humidity = 51
        self.props = {0x0009: bytes([25]), 0x000A: bytes([50]), 0x0048: bytes([75]), 0x0039: bytes([0])}
        self.buzzer_writes = 0
        self.log = []                # (kind, frame) of every received command
        self.silent = False
        self.before = []             # frames delivered ahead of the next reply
        self.ack_style = "values"    # how property writes are acknowledged: values / empty / state / none
        self.frozen = set()          # property ids the unit refuses to change
        self.cap_records = None      # capability records (defaults below)
        self.after = []              # frames delivered behind the next reply

    # -- frames ---------------------------------------------------------------------------
    def state_frame(self) -> bytes:
        b = bytearray(24)
        b[0] = 0xC0
        b[1] = 0x01 if self.power else 0
        whole = int(self.temp)
        b[2] = ((self.mode & 7) << 5) | ((whole - 16) & 0xF) | (0x10 if self.temp != whole else 0)
        b[3] = self.fan
        b[7] = 0x30 | self.swing
        b[8] = 0x20 if self.turbo else 0
        b[9] = 0x10 if self.eco else 0
        b[10] = (1 if self.sleep else 0) | (2 if self.turbo else 0) | (4 if self.fahrenheit else 0)
        b[11] = 50 + 2 * 24
        b[12] = 0xFF
        b[14] = 0x00 if self.display else 0x70
        b[19] = self.humidity_target
        return build(FrameType.QUERY, b)

    def humidity_frame(self) -> bytes:
        b = bytearray(21)
        b[0], b[1], b[2], b[3] = 0xC1, 0x21, 0x01, 0x45
        b[4] = self.indoor_humidity
        return build(FrameType.QUERY, b)

    def energy_frame(self) -> bytes:
        b = bytearray(21)
        b[0], b[1], b[2], b[3] = 0xC1, 0x21, 0x01, 0x44
        b[4:8] = bytes([0x00, 0x12, 0x34, 0x56])
        b[12:16] = bytes([0x00, 0x00, 0x01, 0x50])
        b[16:19] = bytes([0x00, 0x07, 0x50])
        return build(FrameType.QUERY, b)

    def caps_frame(self) -> bytes:
        recs = self.cap_records or [
            (0x0009, [1]), (0x000A, [1]), (0x0048, [1]), (0x0039, [1]),
            (0x021F, [2]), (0x0216, [2]),
            (0x0214, [1]), (0x0215, [1]), (0x0210, [1]), (0x0224, [1]),
        ]
        b = bytearray([0xB5, len(recs)])
        for cid, data in recs:
            b += struct.pack("<H", cid) + bytes([len(data)]) + bytes(data)
        b += bytes([0, 0])
        return build(FrameType.QUERY, b)

    def props_frame(self, rid, ids) -> bytes:
        b = bytearray([rid, len(ids)])
        for i in ids:
            v = self.props.get(i, bytes([0]))
            b += struct.pack("<H", i) + bytes([0, len(v)]) + v
        b += bytes([0])
        return build(FrameType.QUERY, b)

    # -- request handling -----------------------------------------------------------------
    def handle(self, frame: bytes):
        body = frame[10:-1]
        kind = "other"
        replies = []
        if body[0] == 0x41 and body[1] == 0x81:
            kind, replies = "state", [self.state_frame()]
        elif body[0] == 0x41 and body[1] == 0x21 and body[3] == 0x44:
            kind, replies = "energy", [self.energy_frame()]
        elif body[0] == 0x41 and body[1] == 0x21 and body[3] == 0x45:
            kind, replies = "humidity", [self.humidity_frame()]
        elif body[0] == 0x41 and body[4] == 0x02:
            kind = "toggle"
            self.display = not self.display
            replies = [self.state_frame()]
        elif body[0] == 0x40:
            kind = "setstate"
            self.power = bool(body[1] & 1)
            self.mode = body[2] >> 5
            self.temp = (body[2] & 0xF) + 16 + (0.5 if body[2] & 0x10 else 0)
            self.fan = body[3]
            self.swing = body[7] & 0xF
            self.turbo = bool(body[8] & 0x20)
            self.eco = bool(body[9] & 0x80)
            self.sleep = bool(body[10] & 1)
            self.fahrenheit = bool(body[10] & 4)
            self.humidity_target = body[19]
            replies = [self.state_frame()]
        elif body[0] == 0xB5:
            kind, replies = "caps", [self.caps_frame()]
        elif body[0] == 0xB1:
            ids = [struct.unpack("<H", body[2 + 2 * n:4 + 2 * n])[0] for n in range(body[1])]
            kind, replies = "getprops", [self.props_frame(0xB1, ids)]
        elif body[0] == 0xB0:
            kind = "setprops"
            rest = body[2:]
            ids = []
            for _ in range(body[1]):
                pid, size = struct.unpack("<H", rest[0:2])[0], rest[2]
                if pid == 0x001A:
                    self.buzzer_writes += 1
                else:
                    if pid not in self.frozen:
                        self.props[pid] = bytes(rest[3:3 + size])
                    ids.append(pid)
                rest = rest[3 + size:]
            replies = {"values": [self.props_frame(0xB0, ids)],
                       "empty": [self.props_frame(0xB0, [])],
                       "state": [self.state_frame()],
                       "none": []}[self.ack_style]
        self.log.append((kind, frame))
        if self.silent:
            return []
        before, after = self.before, self.after
        self.before, self.after = [], []
        return before + replies + after


def check(cond, what):
    if not cond:
        print("FAIL:", what)
        sys.exit(1)
    print("ok:", what)


def kinds(unit, since=0):
    return [k for k, _ in unit.log[since:]]


BASE = [(0x0214, [1]), (0x0215, [1]), (0x0210, [1]), (0x0224, [1])]
PROFILES = {
    "breeze control, 5 level rate, ieco, angles": BASE + [(0x0043, [1]), (0x0048, [2]), (0x00E3, [1]),
                                                          (0x0009, [1]), (0x000A, [1]), (0x0039, [1])],
    "legacy breeze away/breezeless, 2 level rate": BASE + [(0x0042, [1]), (0x0018, [1]), (0x0048, [1]), (0x0039, [1])],
}


async def session(profile, ack_style):
    unit = FakeUnit()
    unit.cap_records = PROFILES[profile]
    unit.ack_style = ack_style
    unit.props.update({0x0043: bytes([1]), 0x0042: bytes([1]), 0x0018: bytes([0]),
                       0x00E3: bytes([0, 0]), 0x0048: bytes([100])})
    modern = "control" in profile

    async def fake_send(self, command):
        return unit.handle(command.tobytes())

    with patch("msmart.base_device.Device._send_command", new=fake_send):
        dev = AC(ip="10.0.0.1", port=6444, device_id=1234)
        await dev.get_capabilities()
        await dev.refresh()
        check(dev.online and dev.rate_select == AC.RateSelect.OFF and not dev.breezeless and not dev.breeze_away,
              "[%s / ack %s] initial state read" % (profile, ack_style))

        # Change several settings; the next apply carries them in ONE write together with the buzzer
        dev.beep = True
        dev.breezeless = True
        dev.rate_select = AC.RateSelect.LEVEL_3 if modern else AC.RateSelect.GEAR_50
        if modern:
            dev.ieco = True
            dev.vertical_swing_angle = AC.SwingAngle.POS_3
            dev.horizontal_swing_angle = AC.SwingAngle.POS_5
        mark = len(unit.log)
        await dev.apply()
        sent = kinds(unit, mark)
        check(sent.count("setstate") == 1 and sent.count("setprops") == 1 and sent.index("setstate") < sent.index("setprops"),
              "one state write, then one property write")
        check(unit.buzzer_writes == 1, "buzzer included once")
        print("   (property queries inside apply: %d)" % sent.count("getprops"))
        if modern:
            check(unit.props[0x0043] == bytes([4]) and unit.props[0x0048] == bytes([40])
                  and unit.props[0x00E3][:3] == bytes([0, 1, 1]) and unit.props[0x0009] == bytes([50])
                  and unit.props[0x000A] == bytes([100]), "unit holds the vendor encoded values")
        else:
            check(unit.props[0x0018] == bytes([1]) and unit.props[0x0048] == bytes([50]), "unit holds the vendor encoded values")

        # IECO reads back as two bytes (number, switch)
        if modern:
            unit.props[0x00E3] = bytes([1, 1])

        mark = len(unit.log)
        await dev.apply()
        check(kinds(unit, mark).count("setprops") == 0, "apply without a changed property sends no property write")

        await dev.refresh()
        check(dev.breezeless and not dev.breeze_away and not dev.breeze_mild, "breezeless read back, one breeze mode active")
        check(dev.rate_select == (AC.RateSelect.LEVEL_3 if modern else AC.RateSelect.GEAR_50), "rate select read back")
        if modern:
            check(dev.ieco and dev.vertical_swing_angle == AC.SwingAngle.POS_3
                  and dev.horizontal_swing_angle == AC.SwingAngle.POS_5, "ieco and angles read back")

        # Switch the breeze mode; again exactly one write
        dev.breeze_away = True
        mark = len(unit.log)
        await dev.apply()
        check(kinds(unit, mark).count("setprops") == 1 and unit.buzzer_writes == 2, "breeze change written once")
        if not modern:
            # legacy units: the device object only rewrites what changed, the unit clears the other one itself
            unit.props[0x0018] = bytes([0])
        await dev.refresh()
        check(dev.breeze_away and not dev.breezeless and not dev.breeze_mild, "breeze away read back, one breeze mode active")

        # A unit that refuses a value: the next refresh tells the truth
        unit.frozen = {0x0048}
        dev.rate_select = AC.RateSelect.OFF
        mark = len(unit.log)
        await dev.apply()
        check(kinds(unit, mark).count("setprops") == 1, "refused value was still written once")
        await dev.refresh()
        check(dev.rate_select == (AC.RateSelect.LEVEL_3 if modern else AC.RateSelect.GEAR_50),
              "refresh reports the value the unit kept")
        unit.frozen = set()

        # Self clean
        mark = len(unit.log)
        await dev.start_self_clean()
        check(kinds(unit, mark).count("setprops") == 1 and unit.props[0x0039] == bytes([1]), "self clean written once")
        await dev.refresh()
        check(dev.self_clean_active, "self clean read back")

        # Silent unit: apply doesn't raise and the pending setting is not written twice later
        unit.silent = True
        dev.rate_select = AC.RateSelect.OFF
        mark = len(unit.log)
        await dev.apply()
        check(kinds(unit, mark).count("setprops") == 1, "write attempted once on a silent unit")
        unit.silent = False
        mark = len(unit.log)
        await dev.apply()
        check(kinds(unit, mark).count("setprops") == 0, "nothing pending afterwards")

    ids = [f[-3] for _, f in unit.log]
    check(all((b - a) % 256 == 1 for a, b in zip(ids, ids[1:])), "message ids advance by one")
    for kind, f in unit.log:
        if kind in ("setprops", "getprops"):
            check(f[0] == 0xAA and f[1] == len(f) - 1 and f[2] == 0xAC and f[9] == (2 if kind == "setprops" else 3)
                  and crc8.calculate(f[10:-2]) == f[-2] and Frame.checksum(f[1:-1]) == f[-1], "%s frame well formed" % kind)
            break


async def main():
    for profile in PROFILES:
        for ack_style in ("values", "empty", "state", "none"):
            await session(profile, ack_style)
    print("demo 4 passed")

if __name__ == "__main__":
    asyncio.run(main())
