"""Demonstration for change 2 (capability responses as value objects, capabilities_dict).

Exercises: capability records interpreted independently and identical result whether the
records arrive in one response or split across a first and an additional response; copies of
capability responses; the dictionary form of the device capabilities where available.
"""
import asyncio
import copy
import pickle
import logging
import random
import sys

import msmart.crc8 as crc8
from msmart.const import DeviceType, FrameType
from msmart.device import AirConditioner as AC
from msmart.device.AC.command import CapabilitiesResponse, CapabilityId, Response
from msmart.frame import Frame

logging.disable(logging.CRITICAL)

ATTRS = [
    "supported_operation_modes", "supported_swing_modes", "supported_fan_speeds",
    "supports_custom_fan_speed", "supports_eco", "supports_ieco", "supports_turbo",
    "supports_freeze_protection", "supports_display_control", "supports_filter_reminder",
    "supports_purifier", "supports_humidity", "supports_target_humidity", "supports_self_clean",
    "supports_breeze_away", "supports_breeze_mild", "supports_breezeless",
    "supports_horizontal_swing_angle", "supports_vertical_swing_angle",
    "supported_rate_selects", "supported_aux_modes",
    "min_target_temperature", "max_target_temperature",
]


def record(cap_id, values):
    return int(cap_id).to_bytes(2, "little") + bytes([len(values)]) + bytes(values)


def frame(records, more):
    payload = bytes([0xB5, len(records)]) + b"".join(records) + bytes([1 if more else 0, 0])
    payload += bytes([crc8.calculate(payload)])
    return Frame(DeviceType.AIR_CONDITIONER, FrameType.QUERY).tobytes(payload)


def parse(records, more=False):
    resp = Response.construct(frame(records, more))
    assert isinstance(resp, CapabilitiesResponse), resp
    return resp


def expected_raw(records):
    """Interpret each record alone and merge in order."""
    out = {}
    for r in records:
        out.update(parse([r]).raw_capabilities)
    return out


def random_records(rng, n):
    ids = [int(c) for c in CapabilityId] + [0x0777, 0x02FF, 0x1234]
    recs = []
    for _ in range(n):
        cap = rng.choice(ids)
        size = rng.choice([0, 1, 1, 1, 2, 3, 5, 6, 7, 10])
        if cap == CapabilityId.TEMPERATURES:
            size = rng.choice([1, 3, 5, 6, 7, 8])
        recs.append(record(cap, [rng.randrange(256) for _ in range(size)]))
    return recs


class FakeLan:
    """Stands in for LAN: answers the capability query and the additional query."""

    def __init__(self, first, second=None):
        self.first, self.second = first, second
        self.requests = []
        self.key = self.token = None

    async def send(self, data, retries=3):
        self.requests.append(data)
        await asyncio.sleep(0)  # let other tasks run, like a real exchange would
        assert data[10] == 0xB5, data.hex()
        additional = data[11:14] == bytes([0x01, 0x01, 0x01])
        await asyncio.sleep(0)
        if additional:
            return [] if self.second is None else [frame(self.second, False)]
        return [frame(self.first, self.second is not None)]


def new_device(first, second=None):
    dev = AC(ip="127.0.0.1", port=6444, device_id=1234)
    dev._lan = FakeLan(first, second)
    return dev


def snapshot(dev):
    snap = {a: getattr(dev, a) for a in ATTRS}
    snap["_supported_properties"] = set(dev._supported_properties)
    snap["_request_energy_usage"] = dev._request_energy_usage
    return snap


def reference(records):
    """What a device reports when given each record alone, merged in order."""
    merged = parse([])
    merged._capabilities.clear()
    merged._capabilities.update(expected_raw(records))
    dev = AC(ip="127.0.0.1", port=6444, device_id=1234)
    dev._update_capabilities(merged)
    return snapshot(dev)


async def check_list(records):
    want_raw = expected_raw(records)
    assert dict(parse(records).raw_capabilities) == want_raw, records
    want = reference(records)

    # One response
    dev = new_device(records)
    await dev.get_capabilities()
    assert snapshot(dev) == want, ("single", records)
    assert len(dev._lan.requests) == 1

    # Every split point
    for k in range(len(records) + 1):
        dev = new_device(records[:k], records[k:])
        await dev.get_capabilities()
        assert snapshot(dev) == want, ("split", k, records)
        assert len(dev._lan.requests) == 2


def check_objects(records, k):
    """Copies and combinations of responses carry the same capabilities."""
    want = expected_raw(records)
    whole = parse(records)

    for clone in (copy.copy(whole), copy.deepcopy(whole), pickle.loads(pickle.dumps(whole))):
        assert dict(clone.raw_capabilities) == want
        assert clone.additional_capabilities == whole.additional_capabilities
        assert clone.payload == whole.payload and clone.id == whole.id
        assert str(clone) == str(whole)
    assert isinstance(repr(whole), str)

    first, second = parse(records[:k], True), parse(records[k:], False)
    first_raw, second_raw = dict(first.raw_capabilities), dict(second.raw_capabilities)

    if hasattr(CapabilitiesResponse, "merged"):
        both = first.merged(second)
        assert dict(both.raw_capabilities) == want
        assert both.additional_capabilities is False
        # Operands untouched
        assert dict(first.raw_capabilities) == first_raw and first.additional_capabilities is True
        assert dict(second.raw_capabilities) == second_raw
        # Copies are independent of the original
        clone = copy.deepcopy(first)
        clone.merge(second)
        assert dict(first.raw_capabilities) == first_raw
        assert dict(clone.raw_capabilities) == want

    # In place merge, as always
    first.merge(second)
    assert dict(first.raw_capabilities) == want
    assert dict(second.raw_capabilities) == second_raw


async def check_dict(records, k):
    want = reference(records)
    dev = new_device(records[:k], records[k:])
    await dev.get_capabilities()
    assert snapshot(dev) == want
    if hasattr(dev, "capabilities_dict"):
        d = dev.capabilities_dict()
        assert d["supported_modes"] == want["supported_operation_modes"]
        for key in ("supported_swing_modes", "supported_fan_speeds", "supports_eco", "supports_turbo",
                    "supports_custom_fan_speed", "supported_rate_selects", "supported_aux_modes",
                    "min_target_temperature", "max_target_temperature", "supports_self_clean"):
            assert d[key] == want[key], key
        # A returned dictionary is a snapshot, editing it doesn't edit the device
        d["supported_modes"].clear()
        assert snapshot(dev) == want
    assert isinstance(str(dev), str) and isinstance(dev.to_dict(), dict)


def main():
    rng = random.Random(152)

    fixed = [
        [record(CapabilityId.MODES, [1]), record(0x0777, [1, 2, 3]), record(CapabilityId.PRESET_ECO, [1])],
        [record(CapabilityId.TEMPERATURES, [1, 2, 3]), record(CapabilityId.FAN_SPEED_CONTROL, [7])],
        [record(CapabilityId.SWING_MODES, []), record(CapabilityId.SWING_MODES, [1]),
         record(CapabilityId.TEMPERATURES, [32, 60, 34, 58, 36, 56, 1]), record(CapabilityId.ENERGY, [2])],
        [record(CapabilityId.RATE_SELECT, [2]), record(CapabilityId.RATE_SELECT, [0]),
         record(CapabilityId.ENERGY, [3]), record(CapabilityId.ENERGY, [0])],
        [],
    ]
    lists = fixed + [random_records(rng, rng.randrange(1, 13)) for _ in range(60)]

    async def run_all():
        for recs in lists:
            await check_list(recs)
            for k in {0, len(recs) // 2, len(recs)}:
                check_objects(recs, k)
                await check_dict(recs, k)

    asyncio.run(run_all())

    print("demo2 OK: %d record lists" % len(lists))
    return 0


if __name__ == "__main__":
    sys.exit(main())
