import asyncio
import logging
import struct
import sys
import time

import msmart.crc8 as crc8
from msmart.device import AirConditioner as AC
from msmart.device.AC.command import PropertyId
from msmart.frame import Frame
from msmart.lan import _Packet

# --------------------------------------------------------------------------------------
# A small V2 air conditioner on 127.0.0.1 (real TCP, no network): keeps a state, answers
# state / energy / humidity / capability / property queries, executes state and property
# writes and records every command frame it receives together with its arrival time.
# --------------------------------------------------------------------------------------


def _frame(body: bytes, frame_type: int = 0x03) -> bytes:
    body = bytes(body)
    body += bytes([crc8.calculate(body)])
    head = bytearray(10)
    head[0] = 0xAA
    head[1] = 10 + len(body)
    head[2] = 0xAC
    head[9] = frame_type
    frame = bytes(head) + body
    return frame + bytes([(~sum(frame[1:]) + 1) & 0xFF])


def check_frame(frame: bytes) -> None:
    """What a spec-conforming device parser checks (C12)."""
    assert frame[0] == 0xAA, "start byte"
    assert frame[1] == len(frame) - 1, "length byte"
    assert frame[2] == 0xAC, "appliance type"
    assert frame[9] in (0x02, 0x03), "frame type"
    assert sum(frame[1:]) & 0xFF == 0, "checksum"
    assert crc8.calculate(frame[10:-2]) == frame[-2], "crc8"


class FakeAC:
    def __init__(self) -> None:
        self.frames = []          # (arrival loop time, frame bytes)
        self.replied = []         # loop time at which each reply was written
        self.mute = lambda frame: False   # predicate: do not answer this frame
        self.connections = 0
        self.state = dict(power=False, temp=24.0, mode=2, fan=60, swing=0, eco=False, turbo=False,
                          sleep=False, fahrenheit=False, freeze=False, follow_me=False, purifier=False,
                          humidity=45, aux=False, indep_aux=False, display=True)
        self.props = {0x0009: 0, 0x000A: 0, 0x0018: 0, 0x0039: 0, 0x0042: 1, 0x0043: 1, 0x0048: 100,
                      0x00E3: 0, 0x001A: 0}
        self.prop_writes = []     # list of {id: bytes} per property write frame
        self.server = None
        self.port = 0

    async def start(self) -> "FakeAC":
        self.server = await asyncio.start_server(self._serve, "127.0.0.1", 0)
        self.port = self.server.sockets[0].getsockname()[1]
        return self

    async def stop(self) -> None:
        self.server.close()
        await self.server.wait_closed()

    # ---- wire ----
    async def _serve(self, reader, writer) -> None:
        self.connections += 1
        buf = b""
        loop = asyncio.get_running_loop()
        try:
            while True:
                data = await reader.read(4096)
                if not data:
                    break
                buf += data
                while len(buf) >= 6:
                    assert buf[:2] == b"\x5a\x5a", "V2 packet expected"
                    size = int.from_bytes(buf[4:6], "little")
                    if len(buf) < size:
                        break
                    packet, buf = buf[:size], buf[size:]
                    frame = _Packet.decode(packet)
                    self.frames.append((loop.time(), frame))
                    if self.mute(frame):
                        continue
                    for reply in self._execute(frame):
                        writer.write(_Packet.encode(1234, reply))
                    self.replied.append(loop.time())
        except (ConnectionError, asyncio.CancelledError):
            pass
        finally:
            writer.close()

    # ---- behaviour ----
    def _state_body(self) -> bytes:
        s = self.state
        b = bytearray(24)
        b[0] = 0xC0
        b[1] = 0x01 if s["power"] else 0
        whole = int(s["temp"])
        half = 0x10 if s["temp"] != whole else 0
        if 17 <= whole <= 30:
            b[2] = ((whole - 16) & 0xF) | half | (s["mode"] << 5)
        else:
            b[2] = half | (s["mode"] << 5)
            b[13] = (whole - 12) & 0x1F
        b[3] = s["fan"]
        b[7] = 0x30 | s["swing"]
        b[8] = (0x20 if s["turbo"] else 0) | (0x80 if s["follow_me"] else 0) | (0x40 if s["indep_aux"] else 0)
        b[9] = (0x10 if s["eco"] else 0) | (0x20 if s["purifier"] else 0) | (0x08 if s["aux"] else 0)
        b[10] = (0x01 if s["sleep"] else 0) | (0x02 if s["turbo"] else 0) | (0x04 if s["fahrenheit"] else 0)
        b[11] = 22 * 2 + 50
        b[12] = 30 * 2 + 50
        b[14] = 0x00 if s["display"] else 0x70
        b[19] = s["humidity"]
        b[21] = 0x80 if s["freeze"] else 0
        return bytes(b)

    def _execute(self, frame: bytes) -> list:
        body = frame[10:-2]
        kind = body[0]
        if kind == 0x40:  # state write
            s = self.state
            s["power"] = bool(body[1] & 0x01)
            alt = body[18] & 0x1F
            s["temp"] = float(alt + 12 if alt else (body[2] & 0xF) + 16) + (0.5 if body[2] & 0x10 else 0.0)
            s["mode"] = body[2] >> 5
            s["fan"] = body[3] & 0x7F
            s["swing"] = body[7] & 0x0F
            s["turbo"] = bool(body[8] & 0x20) or bool(body[10] & 0x02)
            s["follow_me"] = bool(body[8] & 0x80)
            s["eco"] = bool(body[9] & 0x80)
            s["purifier"] = bool(body[9] & 0x20)
            s["aux"] = bool(body[9] & 0x08)
            s["sleep"] = bool(body[10] & 0x01)
            s["fahrenheit"] = bool(body[10] & 0x04)
            s["humidity"] = body[19] & 0x7F
            s["freeze"] = bool(body[21] & 0x80)
            s["indep_aux"] = bool(body[22] & 0x08)
            return [_frame(self._state_body(), 0x02)]
        if kind == 0x41:
            if body[1] == 0x21 and body[3] == 0x44:  # energy
                b = bytearray(22)
                b[0], b[1], b[2], b[3] = 0xC1, 0x21, 0x01, 0x44
                b[4:8] = bytes([0x00, 0x01, 0x23, 0x45])
                b[16:19] = bytes([0x00, 0x12, 0x30])
                return [_frame(b)]
            if body[1] == 0x21 and body[3] == 0x45:  # humidity
                b = bytearray(22)
                b[0], b[1], b[2], b[3] = 0xC1, 0x21, 0x01, 0x45
                b[4] = 52
                return [_frame(b)]
            if body[1] & 0x80:  # state query
                return [_frame(self._state_body())]
            # display toggle
            self.state["display"] = not self.state["display"]
            return [_frame(self._state_body())]
        if kind == 0xB5:  # capabilities: swing angles, breeze control, 5 level rate select, ieco, energy, humidity
            recs = [(0x0009, 1), (0x000A, 1), (0x0043, 1), (0x0048, 3), (0x00E3, 1), (0x0039, 1),
                    (0x0216, 2), (0x021F, 1)]
            b = bytearray([0xB5, len(recs)])
            for cid, val in recs:
                b += struct.pack("<H", cid) + bytes([1, val])
            return [_frame(b)]
        if kind == 0xB1:  # property query
            count = body[1]
            ids = struct.unpack("<" + "H" * count, body[2:2 + 2 * count])
            b = bytearray([0xB1, count])
            for pid in ids:
                b += struct.pack("<H", pid) + bytes([0x00]) + self._prop_value(pid)
            return [_frame(b)]
        if kind == 0xB0:  # property write
            count = body[1]
            rest = body[2:]
            written = {}
            b = bytearray([0xB0, count])
            for _ in range(count):
                (pid,) = struct.unpack("<H", rest[0:2])
                size = rest[2]
                value = bytes(rest[3:3 + size])
                rest = rest[3 + size:]
                written[pid] = value
                if pid == 0x00E3:
                    self.props[pid] = value[2]
                else:
                    self.props[pid] = value[0]
                b += struct.pack("<H", pid) + bytes([0x00]) + self._prop_value(pid)
            self.prop_writes.append(written)
            return [_frame(b, 0x02)]
        return []

    def _prop_value(self, pid: int) -> bytes:
        v = self.props.get(pid, 0)
        if pid == 0x00E3:
            return bytes([2, 1, v])
        return bytes([1, v])


def message_ids(frames) -> list:
    return [f[-3] for _t, f in frames]


def assert_consecutive(ids) -> None:
    for a, b in zip(ids, ids[1:]):
        assert b == (a + 1) & 0xFF, f"message ids not consecutive: {ids}"


def kinds(frames) -> list:
    out = []
    for _t, f in frames:
        body = f[10:-2]
        if body[0] == 0x41:
            if body[1] == 0x21:
                out.append("energy" if body[3] == 0x44 else "humidity")
            elif body[1] & 0x80:
                out.append("state?")
            else:
                out.append("display")
        else:
            out.append({0x40: "state!", 0xB5: "caps?", 0xB1: "props?", 0xB0: "props!"}.get(body[0], hex(body[0])))
    return out


async def new_device(fake: FakeAC) -> AC:
    return AC(ip="127.0.0.1", port=fake.port, device_id=1234)

# --------------------------------------------------------------------------------------
# Demo 3: what one apply() puts on the wire (state write + property write).
# --------------------------------------------------------------------------------------


async def scenario_apply() -> None:
    fake = await FakeAC().start()
    dev = await new_device(fake)
    await dev.get_capabilities()
    await dev.refresh()
    assert dev.online and dev.supports_vertical_swing_angle and dev.supports_ieco and dev.supports_breeze_mild

    # (a) state change only: exactly one frame, no property write
    n = len(fake.frames)
    dev.power_state = True
    dev.target_temperature = 30.5
    dev.operational_mode = AC.OperationalMode.HEAT
    dev.fan_speed = 37
    dev.turbo = True
    await dev.apply()
    assert kinds(fake.frames[n:]) == ["state!"], kinds(fake.frames[n:])
    assert fake.prop_writes == []
    s = fake.state
    assert (s["power"], s["temp"], s["mode"], s["fan"], s["turbo"]) == (True, 30.5, 4, 37, True), s

    # (b) state and several properties: one state write and ONE property write, buzzer included
    n = len(fake.frames)
    dev.target_temperature = 17.0
    dev.beep = True
    dev.breeze_mild = True
    dev.ieco = True
    dev.rate_select = AC.RateSelect.LEVEL_3
    dev.horizontal_swing_angle = AC.SwingAngle.POS_5
    await dev.apply()
    sent = fake.frames[n:]
    assert sorted(kinds(sent)) == ["props!", "state!"], kinds(sent)
    assert len(fake.prop_writes) == 1
    assert fake.prop_writes[0] == {
        0x0043: b"\x03",                                   # breeze control: mild
        0x00E3: bytes([0, 1, 1]) + bytes(10),              # iECO on
        0x0048: b"\x28",                                   # rate select 40
        0x000A: b"\x64",                                   # horizontal angle 100
        0x001A: b"\x01",                                   # buzzer
    }, fake.prop_writes[0]
    state_frame = [f for _t, f in sent if f[10] == 0x40][0]
    assert state_frame[11] & 0x40, "beep bit in the state write"
    assert fake.state["temp"] == 17.0
    print("apply with 4 changed properties sent:", " then ".join(kinds(sent)))

    # (c) nothing changed since: the next apply carries no property write
    n = len(fake.frames)
    await dev.apply()
    assert kinds(fake.frames[n:]) == ["state!"]
    assert len(fake.prop_writes) == 1

    # (d) read back equal on the next refresh
    await dev.refresh()
    assert dev.breeze_mild and not dev.breeze_away and not dev.breezeless
    assert dev.ieco is True and dev.rate_select == AC.RateSelect.LEVEL_3
    assert dev.horizontal_swing_angle == AC.SwingAngle.POS_5 and dev.target_temperature == 17.0

    # (e) self clean: a single property write with the buzzer
    n = len(fake.frames)
    await dev.start_self_clean()
    assert kinds(fake.frames[n:]) == ["props!"]
    assert fake.prop_writes[-1] == {0x0039: b"\x01", 0x001A: b"\x01"}

    for _t, f in fake.frames:
        check_frame(f)
    assert_consecutive(message_ids(fake.frames))
    dev._lan._disconnect()
    await fake.stop()


async def scenario_unencodable_value() -> None:
    fake = await FakeAC().start()
    dev = await new_device(fake)
    await dev.get_capabilities()
    await dev.refresh()

    n = len(fake.frames)
    writes = len(fake.prop_writes)
    dev.target_temperature = 22.0
    dev.rate_select = 300            # not a rate the protocol can carry in one byte
    try:
        await dev.apply()
    except ValueError as e:
        print("apply with an unencodable rate raised ValueError (%s) after %d frame(s) were sent"
              % (e, len(fake.frames) - n))
    else:
        raise AssertionError("expected ValueError")
    assert len(fake.prop_writes) == writes          # no property write went out

    # After the value is corrected the pending property is transmitted, exactly once
    dev.rate_select = AC.RateSelect.LEVEL_1
    await dev.apply()
    await dev.apply()
    assert len(fake.prop_writes) == writes + 1 and fake.prop_writes[-1][0x0048] == b"\x01"
    assert fake.state["temp"] == 22.0
    await dev.refresh()
    assert dev.rate_select == AC.RateSelect.LEVEL_1

    # Whatever happened, the frames that did go out are well formed and numbered consecutively
    for _t, f in fake.frames:
        check_frame(f)
    assert_consecutive(message_ids(fake.frames))
    dev._lan._disconnect()
    await fake.stop()


async def scenario_property_write_unanswered() -> None:
    fake = await FakeAC().start()
    dev = await new_device(fake)
    await dev.get_capabilities()
    await dev.refresh()

    fake.mute = lambda frame: frame[10] == 0xB0
    n = len(fake.frames)
    dev.power_state = True
    dev.target_temperature = 26.5
    dev.vertical_swing_angle = AC.SwingAngle.POS_2
    t0 = time.monotonic()
    await dev.apply()               # must not raise
    elapsed = time.monotonic() - t0
    sent = fake.frames[n:]
    assert kinds(sent).count("state!") == 1 and kinds(sent).count("props!") == 3, kinds(sent)
    assert fake.state["temp"] == 26.5 and fake.state["power"] is True
    print("property write unanswered: apply returned after %.1f s, wire: %s" % (elapsed, ",".join(kinds(sent))))

    fake.mute = lambda frame: False
    await dev.refresh()
    assert dev.online and dev.target_temperature == 26.5
    for _t, f in fake.frames:
        check_frame(f)
    dev._lan._disconnect()
    await fake.stop()


def main() -> int:
    logging.basicConfig(level=logging.CRITICAL)
    asyncio.run(scenario_apply())
    asyncio.run(scenario_unencodable_value())
    asyncio.run(scenario_property_write_unanswered())
    print("demo 3 OK")
    return 0


if __name__ == "__main__":
    sys.exit(main())
