"""C12 demo 1: every command is a well-formed frame and ids advance by one mod 256,
whatever the counter's starting point; over-long bodies are refused with ValueError."""
import itertools
import sys

from msmart.const import FrameType
from msmart.device.AC.command import (Command, GetCapabilitiesCommand,
                                      GetEnergyUsageCommand, GetHumidityCommand,
                                      GetPropertiesCommand, GetStateCommand,
                                      PropertyId, SetPropertiesCommand,
                                      SetStateCommand, ToggleDisplayCommand)


def crc8_854(data: bytes) -> int:
    # Independent bitwise CRC-8/MAXIM (poly 0x31 reflected = 0x8C)
    crc = 0
    for b in data:
        crc ^= b
        for _ in range(8):
            crc = (crc >> 1) ^ 0x8C if crc & 1 else crc >> 1
    return crc


def parse(frame: bytes, frame_type: int) -> int:
    """Spec-conforming device parser. Returns the message id."""
    assert isinstance(frame, bytes)
    assert frame[0] == 0xAA, "start byte"
    assert frame[1] == len(frame) - 1, "length byte"
    assert frame[2] == 0xAC, "appliance type"
    assert frame[9] == frame_type, "frame type"
    assert sum(frame[1:]) & 0xFF == 0, "checksum"
    body = frame[10:-1]
    assert len(body) >= 3
    assert crc8_854(body[:-1]) == body[-1], "crc8"
    return body[-2]


SUPPORTED = [p for p in PropertyId if p._supported]


def commands():
    yield GetStateCommand(), FrameType.QUERY
    yield GetEnergyUsageCommand(), FrameType.QUERY
    yield GetHumidityCommand(), FrameType.QUERY
    yield GetCapabilitiesCommand(), FrameType.QUERY
    yield GetCapabilitiesCommand(True), FrameType.QUERY
    for beep in (True, False):
        c = ToggleDisplayCommand()
        c.beep_on = beep
        yield c, FrameType.QUERY
    for n in range(len(SUPPORTED) + 1):
        for subset in itertools.islice(itertools.combinations(list(PropertyId), n), 6):
            yield GetPropertiesCommand(list(subset)), FrameType.QUERY
        for subset in itertools.islice(itertools.combinations(SUPPORTED, n), 6):
            props = {p: (True if p in (PropertyId.BREEZE_AWAY, PropertyId.BREEZELESS, PropertyId.IECO,
                                         PropertyId.SELF_CLEAN, PropertyId.BUZZER) else 50) for p in subset}
            yield SetPropertiesCommand(props), FrameType.CONTROL
    for temp, mode, fan, swing, flag, hum in itertools.product(
            (12.0, 16.5, 17, 22.5, 30, 31.5, 43), (0, 1, 5, 7), (0, 40, 102, 255), (0, 0x3, 0xC, 0xF),
            (True, False), (0, 40, 100)):
        c = SetStateCommand()
        c.target_temperature = temp
        c.operational_mode = mode
        c.fan_speed = fan
        c.swing_mode = swing
        c.target_humidity = hum
        for name in ("beep_on", "power_on", "eco", "turbo", "fahrenheit", "sleep", "freeze_protection",
                     "follow_me", "purifier", "aux_heat", "force_aux_heat", "independent_aux_heat"):
            setattr(c, name, flag)
        yield c, FrameType.CONTROL


def main() -> int:
    last = None
    count = 0
    for cmd, ftype in commands():
        mid = parse(cmd.tobytes(), ftype)
        if last is not None:
            assert mid == (last + 1) & 0xFF, f"id {mid} after {last}"
        last = mid
        count += 1
    assert count > 600, count  # more than two wrap-arounds

    # Counter may be repositioned by assignment (as the project's own test does)
    for start in (0, 0x10, 0xFE, 0xFF, 255 + 256 * 7):
        Command._message_id = start
        ids = [parse(GetStateCommand().tobytes(), FrameType.QUERY) for _ in range(3)]
        assert ids == [(start + k) & 0xFF for k in (1, 2, 3)], (start, ids)

    # A body too long for the one-byte length field is refused with ValueError
    # and the next accepted command is still well formed.
    try:
        Command(FrameType.QUERY).tobytes(bytes(244))
    except ValueError:
        pass
    else:
        raise AssertionError("over-long body accepted")
    longest = Command(FrameType.QUERY).tobytes(bytes(243))
    assert len(longest) == 256
    parse(longest, FrameType.QUERY)
    a = parse(GetStateCommand().tobytes(), FrameType.QUERY)
    b = parse(GetStateCommand().tobytes(), FrameType.QUERY)
    assert b == (a + 1) & 0xFF

    print(f"demo OK: {count} commands parsed")
    return 0


if __name__ == "__main__":
    sys.exit(main())
