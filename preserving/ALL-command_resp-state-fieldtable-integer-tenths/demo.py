"""Demo for change 3 (state response decoding).

Builds state responses for many reported states and checks the decoded attributes, directly and through
AirConditioner.refresh().
"""
import asyncio
import logging
import sys
from unittest.mock import patch

import msmart.crc8 as crc8
from msmart.base_device import Device
from msmart.device import AirConditioner as AC
from msmart.device.AC.command import (InvalidResponseException, Response,
                                      StateResponse)
from msmart.frame import Frame, InvalidFrameException

logging.disable(logging.CRITICAL)


def check(cond, msg):
    if not cond:
        print("FAIL:", msg)
        sys.exit(1)


def frame(payload: bytes, crc: bool = True) -> bytes:
    body = bytes(payload)
    body += bytes([crc8.calculate(body) if crc else Frame.checksum(body)])
    header = bytearray(10)
    header[0] = 0xAA
    header[1] = len(body) + 10
    header[2] = 0xAC
    header[9] = 0x03
    f = bytes(header) + body
    return f + bytes([Frame.checksum(f[1:])])


def state(payload, crc=True) -> StateResponse:
    resp = Response.construct(frame(bytes(payload), crc))
    check(type(resp) is StateResponse, "class")
    return resp


def blank(length=24) -> bytearray:
    p = bytearray(length)
    p[0] = 0xC0
    if length > 12:
        p[11] = p[12] = 0xFF
    return p


# 1. Known responses
r = Response.construct(bytes.fromhex("aa1eac00000000000003c0004b1e7f7f000000000069630000000000000d33"))
check((r.power_on, r.target_temperature, r.operational_mode, r.fan_speed, r.indoor_temperature,
       r.outdoor_temperature, r.target_humidity, r.freeze_protection) ==
      (False, 27.0, 2, 30, 27.5, 24.5, None, None), "short response")
r = Response.construct(bytes.fromhex("aa22ac00000000000303c0014566000000300010045eff00000000000000000069fdb9"))
check((r.power_on, r.target_temperature, r.fan_speed, r.eco, r.fahrenheit, r.indoor_temperature,
       r.outdoor_temperature, r.target_humidity, r.freeze_protection) ==
      (True, 21.0, 102, True, True, 22.0, None, 0, False), "v2 response")

# 2. Temperatures: every byte with every tenths digit, both sensors, both units
for raw in range(256):
    for digit in range(10):
        for fahrenheit in (False, True):
            p = blank()
            p[10] = 0x04 if fahrenheit else 0
            p[11] = raw
            p[12] = (raw + 101) & 0xFF
            other = (digit * 3) % 10
            p[15] = digit | (other << 4)
            r = state(p)
            check(r.fahrenheit is fahrenheit, "unit")
            for value, byte, tenths in ((r.indoor_temperature, p[11], digit), (r.outdoor_temperature, p[12], other)):
                if byte == 0xFF:
                    check(value is None, "sentinel is unknown")
                    continue
                coarse = (byte - 50) / 2
                check(isinstance(value, float) and abs(value - coarse) < 1, f"{byte} {tenths} -> {value}")
                check((value >= 0) == (coarse >= 0) or value == 0, "sign")
                if not fahrenheit and tenths:
                    check(round(abs(value) * 10) % 10 == tenths and abs(value * 10 - round(value * 10)) < 1e-9,
                          f"tenths {byte} {tenths} -> {value}")
                    check(int(abs(value)) == int(abs(coarse)), "whole degrees")
                elif not tenths:
                    check(value == coarse, "coarse reading")
                else:
                    check(value * 2 == int(value * 2), "half degree steps in Fahrenheit")
check(state(blank()).indoor_temperature is None and state(blank()).outdoor_temperature is None, "both unknown")

# 3. Target temperature: all primary and alternate codes, half degree bit
for primary in range(32):
    for alternate in range(32):
        p = blank()
        p[2] = 0x40 | primary
        p[13] = alternate
        expected = (alternate + 12 if alternate else (primary & 0xF) + 16) + (0.5 if primary & 0x10 else 0)
        r = state(p, crc=False)
        check(r.target_temperature == expected and isinstance(r.target_temperature, float), "target temperature")
        check(r.operational_mode == 2 and r.filter_alert is False, "mode")

# 4. Every value of each flag byte, fan byte, mode, swing
for v in range(256):
    p = blank()
    p[1] = p[3] = p[7] = p[8] = p[9] = p[10] = p[14] = p[19] = p[21] = v
    p[2] = v
    p[13] = v & 0xE0
    r = state(p)
    check(r.power_on is bool(v & 1) and r.fan_speed == v and r.swing_mode == v & 0xF, "byte 1/3/7")
    check(r.operational_mode == v >> 5, "mode")
    check(r.turbo is bool(v & 0x20 or v & 0x02), "turbo")
    check(r.independent_aux_heat is bool(v & 0x40) and r.follow_me is bool(v & 0x80), "byte 8")
    check(r.eco is bool(v & 0x10) and r.purifier is bool(v & 0x20) and r.aux_heat is bool(v & 0x08), "byte 9")
    check(r.sleep is bool(v & 1) and r.fahrenheit is bool(v & 4), "byte 10")
    check(r.filter_alert is bool(v & 0x20), "filter")
    check(r.display_on is ((v & 0x70) != 0x70), "display")
    check(r.target_humidity == v & 0x7F and r.freeze_protection is bool(v & 0x80), "optional fields")

# 5. Lengths: optional fields unknown when absent, shorter than minimum rejected
for n in range(1, 40):
    p = blank(n)
    for style in (True, False):
        if n < 16:
            try:
                Response.construct(frame(bytes(p), style))
                check(False, "short state accepted")
            except (InvalidFrameException, InvalidResponseException):
                pass
            continue
        if n > 19:
            p[19] = 0xB7
        if n > 21:
            p[21] = 0x80
        r = state(p, style)
        check(r.target_humidity == (0x37 if n >= 20 else None), "humidity presence")
        check(r.freeze_protection == (True if n >= 22 else None), "freeze presence")


# 6. Through the device
async def device_level():
    dev = AC(ip="127.0.0.1", port=6444, device_id=1)
    p = blank()
    p[1] = 1
    p[2] = (4 << 5) | 0x10 | 5
    p[3] = 80
    p[7] = 0x3
    p[9] = 0x10
    p[10] = 0x01
    p[11] = 95
    p[12] = 30
    p[15] = 0x47
    p[19] = 55
    p[21] = 0x80
    good = frame(bytes(p))
    bad = bytearray(good)
    bad[13] ^= 0x40
    bad[-1] = Frame.checksum(bad[1:-1])

    async def fake(self, command):
        return [bytes(bad), frame(bytes(p[:9])), good]
    with patch.object(Device, "_send_command", fake):
        await dev.refresh()
    check(dev.online and dev.supported, "online")
    check((dev.power_state, dev.target_temperature, dev.operational_mode, dev.fan_speed, dev.swing_mode, dev.eco,
           dev.sleep, dev.fahrenheit, dev.indoor_temperature, dev.outdoor_temperature, dev.target_humidity,
           dev.freeze_protection) ==
          (True, 21.5, AC.OperationalMode.HEAT, AC.FanSpeed.HIGH, AC.SwingMode.HORIZONTAL, True, True, False, 22.7,
           -10.4, 55, True), "device state")

asyncio.run(device_level())
print("demo3 OK")
