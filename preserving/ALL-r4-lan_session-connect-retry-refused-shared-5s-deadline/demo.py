import asyncio
import hashlib
import logging
import os
import sys
import time

from msmart.lan import LAN, ProtocolError, Security, _Packet

TOKEN = bytes(range(64))
KEY = bytes(range(100, 132))


def _xor(a, b):
    return bytes(x ^ y for x, y in zip(a, b))


class FakeDevice:
    """Minimal loopback Midea device speaking V2 or V3.

    `plan(n, frame)` is called for the n-th data request (1-based, per device) and
    returns a list of (delay, frame) answers (possibly empty = stay silent).
    """

    def __init__(self, version=2, plan=None, close_after=None):
        self.version = version
        self.plan = plan or (lambda n, frame: [(0, b"\xaa\x01ok" + bytes([n & 0xFF]))])
        self.close_after = close_after
        self.server = None
        self.port = None
        self.connections = []   # per connection: list of events
        self.requests = 0
        self.open = 0
        self.max_open = 0
        self.log = []           # (time, connection index, event)
        self.writers = []

    async def start(self, port=0):
        self.server = await asyncio.start_server(self._handle, "127.0.0.1", port)
        self.port = self.server.sockets[0].getsockname()[1]
        return self

    async def stop(self):
        self.server.close()
        for w in self.writers:
            w.close()
        await asyncio.sleep(0.05)

    def _note(self, idx, event):
        self.log.append((time.monotonic(), idx, event))
        self.connections[idx].append(event)

    async def _handle(self, reader, writer):
        idx = len(self.connections)
        self.connections.append([])
        self.writers.append(writer)
        self.open += 1
        self.max_open = max(self.max_open, self.open)
        self._note(idx, "open")
        session = {"key": None, "count": 0}
        try:
            while True:
                if self.version == 3:
                    head = await reader.readexactly(6)
                    assert head[:2] == b"\x83\x70", head
                    size = int.from_bytes(head[2:4], "big")
                    rest = await reader.readexactly(size + 2)
                    await self._on_v3(idx, session, head, rest, writer)
                else:
                    head = await reader.readexactly(6)
                    assert head[:2] == b"\x5a\x5a", head
                    size = int.from_bytes(head[4:6], "little")
                    rest = await reader.readexactly(size - 6)
                    frame = _Packet.decode(head + rest)
                    await self._on_frame(idx, frame, lambda f: writer.write(
                        _Packet.encode(1234, f)), writer)
        except (asyncio.IncompleteReadError, ConnectionError):
            pass
        finally:
            self.open -= 1
            self._note(idx, "closed")
            writer.close()

    async def _on_frame(self, idx, frame, reply, writer):
        self.requests += 1
        n = self.requests
        self._note(idx, ("data", frame))
        for delay, answer in self.plan(n, frame):
            if delay:
                await asyncio.sleep(delay)
            reply(answer)
        await writer.drain()
        if self.close_after and n in self.close_after:
            self._note(idx, "server-close")
            writer.close()

    async def _on_v3(self, idx, session, head, rest, writer):
        ptype = head[5] & 0xF
        if ptype == 0x0:
            counter = int.from_bytes(rest[:2], "big")
            token = rest[2:]
            self._note(idx, ("handshake", counter, token))
            nonce = os.urandom(32)
            session["key"] = _xor(nonce, KEY)
            payload = Security.encrypt_aes_cbc(KEY, nonce) + hashlib.sha256(nonce).digest()
            body = bytes(2) + payload
            writer.write(b"\x83\x70" + len(payload).to_bytes(2, "big") + b"\x20\x01" + body)
            await writer.drain()
        elif ptype == 0x6:
            assert session["key"] is not None, "data before handshake"
            enc, tag = rest[:-32], rest[-32:]
            plain = Security.decrypt_aes_cbc(session["key"], enc)
            assert hashlib.sha256(head + plain).digest() == tag
            pad = head[5] >> 4
            counter = int.from_bytes(plain[:2], "big")
            inner = plain[2:len(plain) - pad]
            frame = _Packet.decode(inner)
            self._note(idx, ("counter", counter))

            def reply(answer):
                data = _Packet.encode(1234, answer)
                session["count"] += 1
                rem = (len(data) + 2) % 16
                p = 16 - rem if rem else 0
                h = b"\x83\x70" + (len(data) + p + 32).to_bytes(2, "big") + b"\x20" + bytes([p << 4 | 0x3])
                pl = session["count"].to_bytes(2, "big") + data + bytes(p)
                writer.write(h + Security.encrypt_aes_cbc(session["key"], pl) + hashlib.sha256(h + pl).digest())
            await self._on_frame(idx, frame, reply, writer)
        else:
            raise AssertionError(f"unexpected type {ptype}")

    def data_frames(self, idx=None):
        conns = self.connections if idx is None else [self.connections[idx]]
        return [e[1] for c in conns for e in c if isinstance(e, tuple) and e[0] == "data"]


def check(cond, what):
    print(("ok   " if cond else "FAIL ") + what)
    if not cond:
        sys.exit(1)


# ---------------------------------------------------------------- demo 1: opening connections
def free_port():
    import socket
    s = socket.socket()
    s.bind(("127.0.0.1", 0))
    port = s.getsockname()[1]
    s.close()
    return port


async def main():
    # 1. plain V2 exchange: one connection, one transmission, answer returned
    dev = await FakeDevice(2).start()
    lan = LAN("127.0.0.1", dev.port, 1234)
    res = await lan.send(b"\xaa\x10hello")
    check(res == [b"\xaa\x01ok\x01"], "V2 exchange returns the device's answer")
    check(len(dev.connections) == 1 and dev.data_frames() == [b"\xaa\x10hello"], "one connection, one transmission")
    res = await lan.send(b"\xaa\x10again")
    check(len(dev.connections) == 1 and len(res) == 1, "connection reused for the next exchange")
    await dev.stop()

    # 2. nobody listening: ProtocolError (never another class), well inside the 5 s connect window
    port = free_port()
    lan = LAN("127.0.0.1", port, 1234)
    t0 = time.monotonic()
    try:
        await lan.send(b"\xaa\x10hello", retries=2)
        check(False, "refused connect must raise")
    except ProtocolError as e:
        check(str(e).startswith("Connect failed.") and isinstance(e.__cause__, OSError), "refused connect -> ProtocolError('Connect failed.') chained to OSError")
    check(time.monotonic() - t0 < 5, "refusal reported within the connect window")
    check(lan._protocol is None and not lan._alive, "no half-open state left behind")

    # 3. device comes up afterwards: next exchange succeeds without user intervention (V3: handshake first)
    dev = await FakeDevice(3).start(port)
    lan._token, lan._key = TOKEN, KEY
    lan._protocol_version = 3
    res = await lan.send(b"\xaa\x10hello", retries=2)
    check(res == [b"\xaa\x01ok\x01"], "exchange after the refusal succeeds")
    first = dev.connections[0]
    check(first[1] == ("handshake", 0, TOKEN) and first[2] == ("counter", 1), "handshake with configured token, then data with counter+1")
    check(dev.data_frames() == [b"\xaa\x10hello"], "request transmitted exactly once")
    await dev.stop()

    # 4. a connect that hangs is given up after 5 s with TimeoutError('Connect timeout.'); then recovery
    loop = asyncio.get_running_loop()
    real = loop.create_connection
    hang = {"on": True, "calls": 0}

    async def create_connection(*args, **kwargs):
        if hang["on"]:
            hang["calls"] += 1
            await asyncio.sleep(3600)
        return await real(*args, **kwargs)
    loop.create_connection = create_connection
    dev = await FakeDevice(2).start()
    lan = LAN("127.0.0.1", dev.port, 1234)
    t0 = time.monotonic()
    try:
        await lan.send(b"\xaa\x10hello")
        check(False, "hanging connect must raise")
    except TimeoutError as e:
        check(str(e).startswith("Connect timeout."), "hanging connect -> TimeoutError('Connect timeout.')")
    took = time.monotonic() - t0
    check(4.9 < took < 5.5, f"given up after 5 s ({took:.2f})")
    check(len(dev.connections) == 0, "nothing reached the device")
    hang["on"] = False
    res = await lan.send(b"\xaa\x10hello")
    check(len(res) == 1 and len(dev.connections) == 1, "next exchange succeeds")
    await dev.stop()

    # 5. the device starts listening a moment after the exchange began: the exchange either reports the
    #    refusal or goes through with a single transmission; the one after it succeeds in any case
    port = free_port()
    lan = LAN("127.0.0.1", port, 1234)
    dev = FakeDevice(2)
    starter = asyncio.ensure_future(asyncio.sleep(0.1))
    starter.add_done_callback(lambda _f: asyncio.ensure_future(dev.start(port)))
    try:
        res = await lan.send(b"\xaa\x10early", retries=1)
        check(res == [b"\xaa\x01ok\x01"] and dev.data_frames() == [b"\xaa\x10early"], "late listener: answered, one transmission")
    except ProtocolError as e:
        check(str(e).startswith("Connect failed.") and dev.data_frames() == [], "late listener: refusal reported, nothing transmitted")
    await asyncio.sleep(0.2)
    before = len(dev.data_frames())
    res = await lan.send(b"\xaa\x10later", retries=1)
    check(len(res) == 1 and dev.data_frames()[before:] == [b"\xaa\x10later"], "exchange after it succeeds")
    await dev.stop()
    print("demo 1 done")


logging.basicConfig(level=logging.CRITICAL)
asyncio.run(main())
