"""Demonstration for property C08 (retry, timeout and recovery contract of an exchange).

Standalone: PYTHONPATH=<worktree> /venv/bin/python demo.py
Uses a scripted loopback TCP device (V2 and V3). All scenarios run concurrently; < 30 s.
Exits 0 when every scenario behaves as the property demands.
"""
import asyncio
import logging
import os
import sys
from collections import deque
from hashlib import sha256

from Crypto.Util.strxor import strxor

from msmart.device import AirConditioner
from msmart.lan import LAN, ProtocolError, Security, _Packet

logging.disable(logging.CRITICAL)

DEVICE_ID = 123456
REQUEST = bytes.fromhex("aa20ac00000000000003418100ff03ff000200000000000000000000000003cd9c")
STATE = bytes.fromhex("aa23ac00000000000303c00145660000003c0010045c6b20000000000000000000020d79")
TOKEN = bytes(range(64))
KEY = bytes(range(100, 132))

FAILURES = []


def check(cond, what):
    if not cond:
        FAILURES.append(what)
        print("FAIL:", what)


class SimDevice:
    """Scripted device. One action is consumed per received request transmission:
    "drop" | ("answer", delay) | "error" | "garbage" | "close". Default when the script is empty: prompt answer."""

    def __init__(self, v3=False):
        self.v3 = v3
        self.script = deque()
        self.hs_script = deque()  # "error" | "drop" per handshake request, default: answer
        self.tx = []          # (connection number, decoded frame) per request transmission
        self.handshakes = []  # connection number per handshake request
        self.connections = 0
        self.server = None
        self.port = None
        self._tasks = set()
        self._writers = set()

    async def start(self):
        self.server = await asyncio.start_server(self._serve, "127.0.0.1", self.port or 0, reuse_address=True)
        self.port = self.server.sockets[0].getsockname()[1]

    async def stop(self):
        self.server.close()
        for w in list(self._writers):
            w.close()
        await asyncio.sleep(0.05)

    def mark(self):
        return len(self.tx), self.connections, len(self.handshakes)

    # -- framing helpers ------------------------------------------------
    @staticmethod
    def _take_v2(buf):
        if len(buf) < 6 or buf[:2] != b"\x5a\x5a":
            return None
        n = int.from_bytes(buf[4:6], "little")
        if len(buf) < n:
            return None
        pkt = bytes(buf[:n])
        del buf[:n]
        return pkt

    @staticmethod
    def _take_v3(buf):
        if len(buf) < 6 or buf[:2] != b"\x83\x70":
            return None
        n = int.from_bytes(buf[2:4], "big") + 8
        if len(buf) < n:
            return None
        pkt = bytes(buf[:n])
        del buf[:n]
        return pkt

    def _v3_response(self, local_key, data, count):
        rem = (len(data) + 2) % 16
        pad = 16 - rem if rem else 0
        header = b"\x83\x70" + (len(data) + pad + 32).to_bytes(2, "big") + b"\x20" + bytes([pad << 4 | 0x3])
        payload = count.to_bytes(2, "big") + data + bytes(pad)
        return header + Security.encrypt_aes_cbc(local_key, payload) + sha256(header + payload).digest()

    async def _serve(self, reader, writer):
        self.connections += 1
        conn = self.connections
        self._writers.add(writer)
        buf = bytearray()
        local_key = None
        count = 0
        try:
            while True:
                try:
                    data = await reader.read(4096)
                except (ConnectionError, OSError):
                    return
                if not data:
                    return
                buf += data
                while True:
                    pkt = self._take_v3(buf) if self.v3 else self._take_v2(buf)
                    if pkt is None:
                        break
                    if self.v3:
                        ptype = pkt[5] & 0xF
                        if ptype == 0x0:
                            self.handshakes.append(conn)
                            check(pkt[8:] == TOKEN, "handshake carries the token")
                            hs_action = self.hs_script.popleft() if self.hs_script else None
                            if hs_action == "drop":
                                continue
                            if hs_action == "error":
                                writer.write(b"\x83\x70\x00\x00\x20\x0f\x00\x00")
                                continue
                            plain = os.urandom(32)
                            local_key = strxor(plain, KEY)
                            body = Security.encrypt_aes_cbc(KEY, plain) + sha256(plain).digest()
                            writer.write(b"\x83\x70" + len(body).to_bytes(2, "big") + b"\x20\x01" + bytes(2) + body)
                            continue
                        check(ptype == 0x6 and local_key is not None, "encrypted request only after handshake")
                        if local_key is None:
                            continue
                        plain = Security.decrypt_aes_cbc(local_key, pkt[6:-32])
                        check(sha256(pkt[:6] + plain).digest() == pkt[-32:], "V3 request digest valid")
                        pad = pkt[5] >> 4
                        pkt = plain[2:len(plain) - pad]
                    frame = _Packet.decode(pkt)  # verifies the MD5 signature and decrypts
                    self.tx.append((conn, frame))
                    action = self.script.popleft() if self.script else ("answer", 0)
                    if action == "drop":
                        continue
                    if action == "close":
                        writer.close()
                        return
                    if action == "garbage":
                        writer.write(b"\x00\x01garbage-not-a-packet")
                        continue
                    if action == "error":
                        writer.write(b"\x83\x70\x00\x00\x20\x0f\x00\x00" if self.v3 else b"\x5a\x5a\x01\x11\x10\x00\x20\x00")
                        continue
                    _, delay = action
                    count += 1
                    reply = _Packet.encode(DEVICE_ID, STATE)
                    if self.v3:
                        reply = self._v3_response(local_key, reply, count)
                    t = asyncio.ensure_future(self._late(writer, reply, delay))
                    self._tasks.add(t)
                    t.add_done_callback(self._tasks.discard)
        finally:
            self._writers.discard(writer)
            try:
                writer.close()
            except Exception:  # pylint: disable=broad-except
                pass

    @staticmethod
    async def _late(writer, reply, delay):
        if delay:
            await asyncio.sleep(delay)
        try:
            writer.write(reply)
        except Exception:  # pylint: disable=broad-except
            pass


async def make(v3=False):
    sim = SimDevice(v3)
    await sim.start()
    lan = LAN("127.0.0.1", sim.port, DEVICE_ID)
    if v3:
        lan._protocol_version = 3  # pylint: disable=protected-access
        lan._token, lan._key = TOKEN, KEY  # pylint: disable=protected-access
    return sim, lan


async def exchange(lan, retries):
    """Returns ("ok", responses) or ("timeout"/"protocol"/"cancelled", exc)."""
    try:
        return "ok", await lan.send(REQUEST, retries=retries)
    except ProtocolError as e:
        return "protocol", e
    except TimeoutError as e:
        return "timeout", e
    except asyncio.CancelledError as e:
        return "cancelled", e


async def expect_recovery(name, sim, lan, v3=False):
    n_tx, n_conn, n_hs = sim.mark()
    kind, res = await exchange(lan, 3)
    check(kind == "ok" and STATE in res, f"{name}: next exchange succeeds (got {kind}: {res!r})")
    check(len(sim.tx) - n_tx == 1, f"{name}: recovery exchange transmits once (saw {len(sim.tx) - n_tx})")
    check(all(f == REQUEST for _, f in sim.tx), f"{name}: every transmission carries the request frame")
    if v3:
        check(len(sim.handshakes) - n_hs == 1 and sim.connections - n_conn == 1,
              f"{name}: V3 recovery re-authenticates on a new connection")


async def s_retry_counts():
    # answered on the third transmission
    sim, lan = await make()
    sim.script.extend(["drop", "drop"])
    kind, res = await exchange(lan, 3)
    check(kind == "ok" and res == [STATE], f"retry: answered third transmission succeeds ({kind})")
    check(len(sim.tx) == 3, f"retry: exactly 3 transmissions (saw {len(sim.tx)})")
    check(all(f == REQUEST for _, f in sim.tx), "retry: all transmissions carry the same frame")
    # exhausting a budget of 2
    sim.script.extend(["drop", "drop", "drop"])
    n = len(sim.tx)
    kind, res = await exchange(lan, 2)
    check(kind == "timeout", f"retry: exhausted budget raises timeout ({kind})")
    check(len(sim.tx) - n == 2, f"retry: budget 2 means exactly 2 transmissions (saw {len(sim.tx) - n})")
    sim.script.clear()
    await expect_recovery("after timeout", sim, lan)
    await sim.stop()


async def s_timing():
    sim, lan = await make()
    # slow but in time: 1 transmission
    sim.script.append(("answer", 1.0))
    kind, res = await exchange(lan, 4)
    check(kind == "ok" and len(sim.tx) == 1, f"timing: answer after 1.0 s needs 1 transmission (saw {len(sim.tx)})")
    # late: after the first timeout, within the second window
    n = len(sim.tx)
    sim.script.extend([("answer", 2.6), "drop", "drop"])
    kind, res = await exchange(lan, 4)
    check(kind == "ok" and len(sim.tx) - n == 2,
          f"timing: answer after 2.6 s stops retransmission at 2 (saw {len(sim.tx) - n}, {kind})")
    # budget of one
    n = len(sim.tx)
    sim.script.clear()
    sim.script.append("drop")
    kind, res = await exchange(lan, 1)
    check(kind == "timeout" and len(sim.tx) - n == 1, f"timing: budget 1 transmits once then times out ({kind})")
    sim.script.clear()
    await expect_recovery("after budget-1 timeout", sim, lan)
    await sim.stop()


async def s_faults(v3):
    tag = "V3" if v3 else "V2"
    sim, lan = await make(v3)
    # establish
    kind, res = await exchange(lan, 3)
    check(kind == "ok", f"{tag}: initial exchange ok ({kind}: {res!r})")
    # error packet / garbage
    for fault in (["error"], ["garbage"] + (["drop"] if v3 else []), ["close"]):
        sim.script.clear()
        sim.script.extend(fault)
        n = len(sim.tx)
        kind, res = await exchange(lan, 2)
        check(kind in ("protocol", "timeout"), f"{tag}: fault {fault[0]} fails the exchange ({kind})")
        check(1 <= len(sim.tx) - n <= 2, f"{tag}: fault {fault[0]}: 1..2 transmissions (saw {len(sim.tx) - n})")
        sim.script.clear()
        await expect_recovery(f"{tag} after {fault[0]}", sim, lan, v3)
    # pair of consecutive faults: error then peer close, then recovery
    for fault in ("error", "close"):
        sim.script.clear()
        sim.script.append(fault)
        kind, res = await exchange(lan, 1)
        check(kind in ("protocol", "timeout"), f"{tag}: pair fault {fault} fails ({kind})")
    sim.script.clear()
    await expect_recovery(f"{tag} after error+close", sim, lan, v3)
    # cancellation while waiting for the response
    sim.script.append("drop")
    task = asyncio.ensure_future(exchange(lan, 3))
    await asyncio.sleep(0.5)
    task.cancel()
    try:
        kind, res = await task
    except asyncio.CancelledError:
        kind = "cancelled"
    check(kind in ("timeout", "cancelled"), f"{tag}: cancel ends the exchange ({kind})")
    sim.script.clear()
    await expect_recovery(f"{tag} after cancel", sim, lan, v3)
    # refused connect (only after a failure that dropped the connection)
    if not v3:
        sim.script.append("close")
        await exchange(lan, 1)
        await sim.stop()
        kind, res = await exchange(lan, 2)
        check(kind == "protocol", f"{tag}: refused connect is a protocol error ({kind})")
        await sim.start()
        sim.script.clear()
        await expect_recovery(f"{tag} after refuse", sim, lan, v3)
    await sim.stop()


async def s_auth_faults():
    """V3: failures while (re)establishing the session are failed exchanges too; the next one must work."""
    sim, lan = await make(True)
    sim.hs_script.append("error")
    kind, res = await exchange(lan, 2)
    check(kind == "protocol" and len(sim.tx) == 0, f"auth: handshake error fails the exchange ({kind})")
    n_hs = len(sim.handshakes)
    kind, res = await exchange(lan, 2)
    check(kind == "ok" and len(sim.tx) == 1 and len(sim.handshakes) == n_hs + 1,
          f"auth: exchange after handshake error succeeds with one handshake and one transmission ({kind})")
    # expire the session, then lose all handshakes of the next exchange
    lan._protocol._local_key_expiration = None  # pylint: disable=protected-access
    sim.hs_script.extend(["drop"] * 3)
    n_hs = len(sim.handshakes)
    kind, res = await exchange(lan, 2)
    check(kind == "timeout" and len(sim.tx) == 1, f"auth: unanswered handshakes time the exchange out ({kind})")
    check(1 <= len(sim.handshakes) - n_hs <= 3, "auth: handshake retransmitted at most 3 times")
    n_hs = len(sim.handshakes)
    kind, res = await exchange(lan, 2)
    check(kind == "ok" and len(sim.tx) == 2 and len(sim.handshakes) == n_hs + 1,
          f"auth: exchange after handshake timeout succeeds ({kind})")
    await sim.stop()


async def s_hang():
    sim, lan = await make()
    loop = asyncio.get_event_loop()
    real = loop.create_connection
    calls = []

    async def hanging(*a, **kw):
        if sim.port in a or kw.get("port") == sim.port:
            calls.append(1)
            if len(calls) == 1:
                await asyncio.sleep(3600)
        return await real(*a, **kw)
    loop.create_connection = hanging
    try:
        kind, res = await exchange(lan, 2)
        check(kind == "timeout" and len(sim.tx) == 0, f"hang: hanging connect times out ({kind})")
        await expect_recovery("after hang", sim, lan)
    finally:
        loop.create_connection = real
    await sim.stop()


async def s_device_level():
    sim = SimDevice()
    await sim.start()
    ac = AirConditioner(ip="127.0.0.1", port=sim.port, device_id=DEVICE_ID)
    sim.script.extend(["drop"] * 3)
    await ac.refresh()
    check(ac.online is False, "device: unanswered refresh leaves the device offline")
    check(len(sim.tx) == LAN.RETRIES, f"device: default budget transmissions (saw {len(sim.tx)})")
    sim.script.clear()
    await ac.refresh()
    check(ac.online is True, "device: next refresh with responsive device is online")
    check(len(sim.tx) == LAN.RETRIES + 1, f"device: recovery refresh transmits once (saw {len(sim.tx) - LAN.RETRIES})")
    await sim.stop()


async def main():
    await asyncio.gather(s_retry_counts(), s_timing(), s_faults(False), s_faults(True), s_hang(), s_device_level(), s_auth_faults())


if __name__ == "__main__":
    asyncio.run(asyncio.wait_for(main(), 29))
    if FAILURES:
        print(f"{len(FAILURES)} check(s) failed")
        sys.exit(1)
    print("demo: all checks passed")
    sys.exit(0)
