"""Demo 2: the receive path of the LAN protocols over real loopback TCP (V2 and V3) and when
fed directly. Exits 0 on the original code and with change2.patch applied."""
import asyncio
import hashlib
import logging
import os
import sys

from Crypto.Cipher import AES
from Crypto.Util import Padding

from msmart.lan import LAN, ProtocolError, _LanProtocol, _LanProtocolV3, _Packet

SIGN_KEY = b"xhdiwjnchekd4d512chdjx5d8e4c394D2D7S"
ENC_KEY = hashlib.md5(SIGN_KEY).digest()
DEVICE_ID = 0x112233445566

REQUEST = bytes.fromhex("aa21ac8d000000000003418100ff03ff000200000000000000000000000003016971")
RESP_A = bytes.fromhex("aa22ac00000000000303c0014566000000300010045cff2070000000000000008bed19")
RESP_B = bytes.fromhex("aa23ac00000000000303c00145660000003c0010045c6800000000000000000000018426")

TOKEN = bytes(range(64))
KEY = bytes(range(100, 132))


def v2_encode(frame: bytes) -> bytes:
    payload = AES.new(ENC_KEY, AES.MODE_ECB).encrypt(Padding.pad(frame, 16))
    head = b"\x5a\x5a\x01\x11" + (40 + len(payload) + 16).to_bytes(2, "little") + b"\x20\x80"
    head += bytes(12) + DEVICE_ID.to_bytes(8, "little") + bytes(12)
    return head + payload + hashlib.md5(head + payload + SIGN_KEY).digest()


def v2_decode(packet: bytes) -> bytes:
    assert packet[:2] == b"\x5a\x5a" and int.from_bytes(packet[4:6], "little") == len(packet)
    assert hashlib.md5(packet[:-16] + SIGN_KEY).digest() == packet[-16:]
    return Padding.unpad(AES.new(ENC_KEY, AES.MODE_ECB).decrypt(packet[40:-16]), 16)


def cbc(key, data, enc):
    c = AES.new(key, AES.MODE_CBC, iv=bytes(16))
    return c.encrypt(data) if enc else c.decrypt(data)


class V3Device:
    """Minimal V3 device: handshake, then answers each request with `answers` sent as `chunk` byte pieces."""

    def __init__(self, answers, chunk):
        self.answers, self.chunk = answers, chunk
        self.frames = []
        self.counters = []

    def encrypted(self, session, count, payload):
        body = count.to_bytes(2, "big") + payload
        pad = -len(body) % 16
        body += os.urandom(pad)
        header = b"\x83\x70" + (len(body) - 2 + 32).to_bytes(2, "big") + b"\x20" + bytes([pad << 4 | 0x3])
        return header + cbc(session, body, True) + hashlib.sha256(header + body).digest()

    async def handle(self, reader, writer):
        session = None
        count = 0
        try:
            while True:
                header = await reader.readexactly(6)
                size = int.from_bytes(header[2:4], "big")
                rest = await reader.readexactly(size + 2)
                kind = header[5] & 0xF
                if kind == 0x0:
                    self.counters.append(int.from_bytes(rest[:2], "big"))
                    assert rest[2:] == TOKEN
                    nonce = os.urandom(32)
                    session = bytes(a ^ b for a, b in zip(nonce, KEY))
                    reply = cbc(KEY, nonce, True) + hashlib.sha256(nonce).digest()
                    out = b"\x83\x70" + len(reply).to_bytes(2, "big") + b"\x20\x01" + bytes(2) + reply
                else:
                    assert kind == 0x6 and session is not None
                    plain = cbc(session, rest[:-32], False)
                    assert hashlib.sha256(header + plain).digest() == rest[-32:]
                    self.counters.append(int.from_bytes(plain[:2], "big"))
                    self.frames.append(v2_decode(plain[2:len(plain) - (header[5] >> 4)]))
                    out = b""
                    for frame in self.answers:
                        out += self.encrypted(session, count, v2_encode(frame))
                        count += 1
                for i in range(0, len(out), self.chunk):
                    writer.write(out[i:i + self.chunk])
                    await writer.drain()
                    if self.chunk < len(out):
                        await asyncio.sleep(0)
        except (asyncio.IncompleteReadError, ConnectionError):
            pass
        finally:
            writer.close()


async def v2_handle(reader, writer):
    """V2 device: a few unsolicited frames in separate segments, then the answer."""
    try:
        while True:
            data = await reader.read(4096)
            if not data:
                break
            assert v2_decode(data) == REQUEST
            for frame in (RESP_B, RESP_B, RESP_A):
                writer.write(v2_encode(frame))
                await writer.drain()
                await asyncio.sleep(0.01)
    except ConnectionError:
        pass
    finally:
        writer.close()


async def main() -> int:
    logging.getLogger("msmart").setLevel(logging.CRITICAL)
    failures = []

    def check(name, ok, detail=""):
        print(f"{'ok  ' if ok else 'FAIL'} {name} {detail}")
        if not ok:
            failures.append(name)

    # V2 over TCP
    server = await asyncio.start_server(v2_handle, "127.0.0.1", 0)
    lan = LAN("127.0.0.1", server.sockets[0].getsockname()[1], DEVICE_ID)
    first = await lan.send(REQUEST)
    await asyncio.sleep(0.1)
    second = await lan.send(REQUEST)
    got = first + second
    check("v2 frames", got[0] == RESP_B and got.count(RESP_A) >= 1 and set(got) == {RESP_A, RESP_B}, len(got))
    lan._disconnect()
    server.close()
    await server.wait_closed()

    # V3 over TCP, device output cut into pieces of various sizes
    for chunk in (1, 7, 64, 100000):
        device = V3Device([RESP_A, RESP_B], chunk)
        server = await asyncio.start_server(device.handle, "127.0.0.1", 0)
        lan = LAN("127.0.0.1", server.sockets[0].getsockname()[1], DEVICE_ID)
        await lan.authenticate(TOKEN, KEY)
        got = await lan.send(REQUEST)
        await asyncio.sleep(0.05)
        got += await lan.send(REQUEST)
        check(f"v3 chunk={chunk}", len(got) >= 3 and got == [RESP_A, RESP_B, RESP_A, RESP_B][:len(got)], len(got))
        check(f"v3 chunk={chunk} requests", device.frames == [REQUEST, REQUEST] and device.counters == [0, 1, 2],
              device.counters)
        lan._disconnect()
        server.close()
        await server.wait_closed()

    # Fed directly, without a transport
    proto = _LanProtocol()
    proto.data_received(v2_encode(RESP_A))
    check("direct v2", _Packet.decode(await proto.read()) == RESP_A)
    try:
        await proto.read(timeout=0)
        check("direct v2 empty", False)
    except asyncio.QueueEmpty:
        check("direct v2 empty", True)

    proto = _LanProtocolV3()
    proto._local_key = KEY
    stream = V3Device([], 1).encrypted(KEY, 9, v2_encode(RESP_B))
    for i in range(0, len(stream), 5):
        proto.data_received(stream[i:i + 5])
    check("direct v3", _Packet.decode(await proto.read()) == RESP_B)

    # The way a stream transport feeds a buffered protocol, where supported
    if isinstance(proto, asyncio.BufferedProtocol):
        for cls in (_LanProtocol, _LanProtocolV3):
            proto = cls()
            proto._local_key = KEY
            data = v2_encode(RESP_A) if cls is _LanProtocol else stream
            for part in (data[:33], data[33:]) if cls is _LanProtocolV3 else (data,):
                buf = proto.get_buffer(-1)
                assert len(buf) >= len(part)
                memoryview(buf)[:len(part)] = part
                proto.buffer_updated(len(part))
            check(f"buffered {cls.__name__}", _Packet.decode(await proto.read()) in (RESP_A, RESP_B))

    # Rejections are unchanged
    proto = _LanProtocol()
    proto.data_received(v2_encode(RESP_A)[:-1])
    try:
        _Packet.decode(await proto.read())
        check("truncated rejected", False)
    except ProtocolError:
        check("truncated rejected", True)

    return 1 if failures else 0


if __name__ == "__main__":
    sys.exit(asyncio.run(main()))
