"""Demo 2: exchanges that time out or are cancelled; the next exchange recovers on a new connection."""
import asyncio
import logging
import sys
import time

from msmart.device import AirConditioner as AC
from msmart.lan import _Packet

STATE = bytes.fromhex(
    "aa23ac00000000000303c00145660000003c0010045c6b20000000000000000000020d79")


class FakeV2Device:
    """A V2 unit on loopback. Answers every request with a state response unless silent."""

    def __init__(self) -> None:
        self.silent = False
        self.connections = 0
        self.closed = 0
        self.requests = []  # (connection number, frame)
        self._server = None

    async def start(self) -> int:
        self._server = await asyncio.start_server(self._serve, "127.0.0.1", 0)
        return self._server.sockets[0].getsockname()[1]

    async def stop(self) -> None:
        self._server.close()

    async def _serve(self, reader, writer) -> None:
        self.connections += 1
        conn = self.connections
        try:
            while True:
                head = await reader.readexactly(6)
                length = int.from_bytes(head[4:6], "little")
                rest = await reader.readexactly(length - 6)
                frame = _Packet.decode(head + rest)
                self.requests.append((conn, frame))
                if not self.silent:
                    writer.write(_Packet.encode(1234, STATE))
                    await writer.drain()
        except (asyncio.IncompleteReadError, ConnectionError):
            pass
        finally:
            self.closed += 1
            writer.close()


async def main() -> int:
    fake = FakeV2Device()
    port = await fake.start()
    dev = AC(ip="127.0.0.1", port=port, device_id=1234)

    # 1. Plain refresh
    await dev.refresh()
    assert dev.online and dev.supported
    assert dev.power_state is True and dev.target_temperature == 21.0
    assert fake.connections == 1 and len(fake.requests) == 1

    # 2. Silent device: 3 transmissions 2 s apart, then reported offline, no exception
    fake.silent = True
    n = len(fake.requests)
    t0 = time.monotonic()
    await dev.refresh()
    elapsed = time.monotonic() - t0
    sent = fake.requests[n:]
    assert len(sent) == 3, len(sent)
    assert len({f for _c, f in sent}) == 1, "retransmissions repeat the request"
    assert 5.5 < elapsed < 7.5, elapsed
    assert not dev.online

    # 3. Recovery without user intervention, on a new connection
    fake.silent = False
    await dev.refresh()
    assert dev.online and fake.connections == 2

    # 4. The task running an exchange is cancelled while it waits for the silent device.
    #    Whether the operation ends by returning or by CancelledError is up to the
    #    library; either way it ends promptly and the link is dropped.
    fake.silent = True
    task = asyncio.ensure_future(dev.refresh())
    await asyncio.sleep(0.3)
    task.cancel()
    t0 = time.monotonic()
    outcome = (await asyncio.gather(task, return_exceptions=True))[0]
    assert outcome is None or isinstance(outcome, asyncio.CancelledError), outcome
    assert time.monotonic() - t0 < 1.0
    await asyncio.sleep(0.1)
    assert fake.closed == fake.connections, "connection dropped after the cancelled read"

    # 5. ... and the next exchange succeeds on a new connection
    fake.silent = False
    before = fake.connections
    await dev.refresh()
    assert dev.online and fake.connections == before + 1
    assert dev.target_temperature == 21.0

    # 6. Same with a deadline around the operation
    fake.silent = True
    t0 = time.monotonic()
    try:
        await asyncio.wait_for(dev.refresh(), timeout=0.3)
        ended = "returned"
    except (TimeoutError, asyncio.TimeoutError):
        ended = "timeout"
    assert time.monotonic() - t0 < 1.5
    fake.silent = False
    await dev.refresh()
    assert dev.online

    # 7. Message ids of the distinct requests seen by the device advance by one
    ids = []
    for _c, f in fake.requests:
        if not ids or f[-3] != ids[-1]:
            ids.append(f[-3])
    for a, b in zip(ids, ids[1:]):
        assert b == (a + 1) & 0xFF, (a, b)

    dev._lan._disconnect()
    await fake.stop()
    print("demo2 ok: cancelled refresh ended with %r, deadline case %s" %
          (outcome, ended))
    return 0


if __name__ == "__main__":
    logging.basicConfig(level=logging.CRITICAL)
    sys.exit(asyncio.run(main()))
