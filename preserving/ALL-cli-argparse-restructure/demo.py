"""Demonstration for change 4 (argument parsing in msmart/cli.py).

Runs msmart-ng in-process through cli.main() with the command line in sys.argv,
a fake device behind LAN.send / LAN.authenticate and a fake Discover.discover,
and checks that what the user typed is what reaches the library: host, port,
device id, token and key bytes, region / account / password / packet count,
the flags, and the setting=value pairs; and that command lines that can not be
understood end with a non-zero exit before any I/O.
Exits 0 on success.
"""
import contextlib
import io
import logging
import sys

import msmart.cli as cli
from msmart.device import AirConditioner as AC
from msmart.discover import Discover
from msmart.lan import LAN

logging.disable(logging.CRITICAL)

STATE = bytes.fromhex(
    "aa23ac00000000000303c00145660000003c0010045c6b20000000000000000000020d79")

TOKEN = bytes((7 * i + 3) & 0xFF for i in range(64))
KEY = bytes((11 * i + 5) & 0xFF for i in range(32))


class Recorder:
    def __init__(self):
        self.endpoints = set()
        self.frames = []
        self.auth = []
        self.discover = []

    @property
    def io(self):
        return bool(self.frames or self.auth or self.discover)


R = None


async def _send(self, data, retries=3):
    R.endpoints.add((self._ip, self._port, self._device_id))
    R.frames.append(bytes(data))
    body = data[10:-1]
    if body[0] in (0x40, 0x41) and body[1] != 0x21:
        return [STATE]
    return []


async def _authenticate(self, token=None, key=None, retries=3):
    conv = (lambda x: bytes.fromhex(x) if isinstance(x, str) else x)
    R.endpoints.add((self._ip, self._port, self._device_id))
    R.auth.append((conv(token), conv(key)))


async def _discover(**kwargs):
    R.discover.append(kwargs)
    dev = AC(ip="10.0.0.7", port=6444, device_id=99, sn="SN", name="net_ac_0001", version=2)
    if kwargs.get("auto_connect", True):
        await Discover.connect(dev)
    return [dev]


LAN.send = _send
LAN.authenticate = _authenticate
Discover.discover = staticmethod(_discover)


def run_cli(argv):
    global R
    R = Recorder()
    sys.argv = ["msmart-ng"] + argv
    sink = io.StringIO()
    try:
        with contextlib.redirect_stderr(sink), contextlib.redirect_stdout(sink):
            cli.main()
        status = 0
    except SystemExit as e:
        status = e.code if e.code is not None else 0
    except Exception as e:
        status = e
    R.output = sink.getvalue()
    return status, R


failures = []


def check(cond, what):
    if not cond:
        failures.append(what)
        print("FAIL:", what)


def set_frames(r):
    return [f for f in r.frames if f[9] == 0x02 and f[10] == 0x40]


# --- manual connection arguments reach the device object ---------------------
status, r = run_cli(["query", "192.168.1.20"])
check(status == 0 and r.endpoints == {("192.168.1.20", 6444, 0)} and r.auth == [], f"query: {status!r} {r.endpoints}")

status, r = run_cli(["query", "ac.lan", "--id", "15393162840672"])
check(status == 0 and r.endpoints == {("ac.lan", 6444, 15393162840672)}, f"query --id: {status!r} {r.endpoints}")

for hexer in (bytes.hex, lambda b: b.hex().upper()):
    status, r = run_cli(["control", "192.168.1.20", "--id", "1234", "--token", hexer(TOKEN), "--key", hexer(KEY), "eco=1"])
    check(status == 0 and r.auth == [(TOKEN, KEY)] and r.endpoints == {("192.168.1.20", 6444, 1234)},
          f"control credentials: {status!r} {r.auth} {r.endpoints}")
    check(len(set_frames(r)) == 1, "control credentials: one set-state command")

# options may precede the positionals and flags may be combined
status, r = run_cli(["control", "-d", "--capabilities", "--id", "7", "192.168.1.20", "turbo=1", "sleep=0"])
check(status == 0 and r.endpoints == {("192.168.1.20", 6444, 7)} and len(set_frames(r)) == 1
      and any(f[10] == 0xB5 for f in r.frames), f"control --capabilities: {status!r}")
status, r = run_cli(["control", "192.168.1.20", "turbo=1"])
check(status == 0 and not any(f[10] == 0xB5 for f in r.frames), "control without --capabilities queried them")
status, r = run_cli(["query", "192.168.1.20", "--capabilities", "--auto"])
check(status == 0 and any(f[10] == 0xB5 for f in r.frames) and len(r.discover) == 1, f"query --capabilities --auto: {status!r}")

# the README example
status, r = run_cli(["control", "192.168.1.20", "operational_mode=cool", "target_temperature=20.5", "fan_speed=100",
                     "display_on=True", "beep=0"])
check(status == 0 and len(set_frames(r)) == 1, f"README example: {status!r}")
if set_frames(r):
    body = set_frames(r)[0][10:]
    check(body[1] & 0x40 == 0 and body[2] == (2 << 5) | 0x10 | (20 - 16) and body[3] == 100, f"README example: body {body.hex()}")

# --- discovery arguments -------------------------------------------------------
status, r = run_cli(["discover"])
d = r.discover[0] if r.discover else {}
check(status == 0 and len(r.discover) == 1 and d.get("region") == "US" and d.get("account") is None and d.get("password") is None
      and d.get("discovery_packets") == 3 and d.get("target", "255.255.255.255") == "255.255.255.255", f"discover: {status!r} {d}")

status, r = run_cli(["discover", "10.0.0.7", "--count", "5", "--region", "DE", "--account", "me@example.com", "--password", "pw"])
d = r.discover[0] if r.discover else {}
check(status == 0 and d.get("target") == "10.0.0.7" and d.get("discovery_packets") == 5 and d.get("region") == "DE"
      and d.get("account") == "me@example.com" and d.get("password") == "pw", f"discover single: {status!r} {d}")

status, r = run_cli(["control", "10.0.0.7", "--auto", "--region", "KR", "eco=0"])
d = r.discover[0] if r.discover else {}
check(status == 0 and len(r.discover) == 1 and d.get("target") == "10.0.0.7" and d.get("region") == "KR"
      and len(set_frames(r)) == 1 and r.endpoints == {("10.0.0.7", 6444, 99)}, f"control --auto: {status!r} {d} {r.endpoints}")

# --- --version / --help ----------------------------------------------------------
status, r = run_cli(["--version"])
check(status == 0 and not r.io and "msmart-ng" in r.output, f"--version: {status!r}")
for cmd in ([], ["discover"], ["query"], ["control"], ["download"]):
    status, r = run_cli(cmd + ["--help"])
    check(status == 0 and not r.io and "usage" in r.output.lower(), f"{cmd} --help: {status!r}")

# --- command lines that can't be understood: non-zero exit, no I/O -----------------
BAD = [
    [], ["frobnicate"], ["query"], ["control"], ["control", "192.168.1.20"], ["download"],
    ["query", "192.168.1.20", "--region", "XX"], ["discover", "--region"],
    ["query", "192.168.1.20", "--token", "xyz", "--key", "00" * 32],
    ["query", "192.168.1.20", "--token", "0" * 127, "--key", "00" * 32],
    ["query", "192.168.1.20", "--key", "not hex"],
    ["query", "192.168.1.20", "--id", "abc"], ["query", "192.168.1.20", "--id", "1.5"], ["query", "192.168.1.20", "--id"],
    ["discover", "--count", "many"], ["discover", "--count", "2.5"],
    ["query", "192.168.1.20", "--no-such-option"], ["query", "192.168.1.20", "extra"],
    ["control", "192.168.1.20", "--settings", "eco=1"],
    ["control", "192.168.1.20", "eco"], ["control", "192.168.1.20", "eco=1", "turbo"],
    ["control", "192.168.1.20", "eco=1=1"], ["control", "192.168.1.20", "=1"],
    ["control", "192.168.1.20", "bogus=1"], ["control", "192.168.1.20", "eco=1", "online=1"],
    ["control", "192.168.1.20", "operational_mode=frosty"], ["control", "192.168.1.20", "--auto", "target_temperature=warm"],
]
for argv in BAD:
    status, r = run_cli(argv)
    check(status != 0, f"{argv}: exit 0")
    check(not r.io, f"{argv}: I/O {len(r.frames)} frames, {r.auth}, {r.discover}")

print("demo4: %d failures" % len(failures))
sys.exit(1 if failures else 0)
