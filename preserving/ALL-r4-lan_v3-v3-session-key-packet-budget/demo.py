"""Demo 2: long V3 sessions - packet counter, session keys, re-handshakes.

Runs against the original code and against change2.patch; exits 0 on both.
"""
import asyncio
import datetime as dt
import logging
import os
import sys
from hashlib import sha256

from Crypto.Cipher import AES

import msmart.lan as lan_module
from msmart.lan import LAN, _Packet

TOKEN = bytes(range(64))
KEY = bytes(range(100, 132))


def xor(a, b):
    return bytes(x ^ y for x, y in zip(a, b))


def cbc(key):
    return AES.new(key, AES.MODE_CBC, iv=bytes(16))


class FakeV3Device:
    """Minimal independent V3 device on a loopback socket."""

    def __init__(self, ignore_handshakes=()):
        self.ignore_handshakes = set(ignore_handshakes)  # ordinals not answered
        self.log = []          # ("handshake"|"data", counter, connection no.)
        self.handshakes = 0
        self.connections = 0
        self.server = None

    async def start(self):
        self.server = await asyncio.start_server(self._client, "127.0.0.1", 0)
        return self.server.sockets[0].getsockname()[1]

    async def stop(self):
        self.server.close()
        await self.server.wait_closed()

    async def _client(self, reader, writer):
        self.connections += 1
        conn = self.connections
        session_key = None
        tx_count = 0
        try:
            while True:
                header = await reader.readexactly(6)
                assert header[:2] == b"\x83\x70" and header[4] == 0x20
                rest = await reader.readexactly(int.from_bytes(header[2:4], "big") + 2)
                ptype = header[5] & 0xF
                if ptype == 0x0:
                    self.log.append(("handshake", int.from_bytes(rest[:2], "big"), conn))
                    assert rest[2:] == TOKEN, "handshake must carry the configured token"
                    self.handshakes += 1
                    if self.handshakes in self.ignore_handshakes:
                        continue
                    nonce = os.urandom(32)
                    session_key = xor(nonce, KEY)
                    payload = cbc(KEY).encrypt(nonce) + sha256(nonce).digest()
                    writer.write(b"\x83\x70" + len(payload).to_bytes(2, "big") + b"\x20\x01" +
                                 bytes(2) + payload)
                elif ptype == 0x6:
                    assert session_key is not None, "data before handshake"
                    plain = cbc(session_key).decrypt(rest[:-32])
                    # Must be encrypted under the key of the latest handshake
                    assert sha256(header + plain).digest() == rest[-32:], "wrong session key"
                    pad = header[5] >> 4
                    self.log.append(("data", int.from_bytes(plain[:2], "big"), conn))
                    frame = _Packet.decode(plain[2:len(plain) - pad])
                    body = tx_count.to_bytes(2, "big") + _Packet.encode(7, b"\xaa" + frame)
                    tx_count = (tx_count + 1) & 0xFFFF
                    rpad = -len(body) % 16
                    body += os.urandom(rpad)
                    rheader = b"\x83\x70" + (len(body) - 2 + 32).to_bytes(2, "big") + \
                        b"\x20" + bytes([rpad << 4 | 0x3])
                    writer.write(rheader + cbc(session_key).encrypt(body) +
                                 sha256(rheader + body).digest())
                else:
                    raise AssertionError(f"unexpected packet type {ptype}")
                await writer.drain()
        except (asyncio.IncompleteReadError, ConnectionError):
            pass
        finally:
            writer.close()


def check_log(device):
    """The session discipline every run has to respect."""
    per_conn = {}
    for kind, counter, conn in device.log:
        per_conn.setdefault(conn, []).append((kind, counter))
    for conn, entries in per_conn.items():
        assert entries[0][0] == "handshake", "first packet of a connection is a handshake"
        counters = [c for _, c in entries]
        for prev, cur in zip(counters, counters[1:]):
            assert cur == prev + 1 or (cur == 0 and prev in (0xFFF, 0xFFFF)), (prev, cur)


class Clock(dt.datetime):
    offset = dt.timedelta(0)

    @classmethod
    def now(cls, tz=None):
        return dt.datetime.now(tz) + cls.offset


async def long_session():
    device = FakeV3Device()
    port = await device.start()
    lan = LAN("127.0.0.1", port, 7)
    await lan.authenticate(TOKEN, KEY)
    for i in range(4300):
        frame = i.to_bytes(2, "big") * 4
        assert await lan.send(frame) == [b"\xaa" + frame], i
    lan._disconnect()
    await device.stop()
    check_log(device)
    data = sum(1 for k, _, _ in device.log if k == "data")
    assert data == 4300 and device.connections == 1
    print(f"long session: {data} data packets, {device.handshakes} handshake(s), 1 connection")


async def unanswered_rehandshake_and_expiry():
    # The device does not answer the second handshake request it ever gets
    device = FakeV3Device(ignore_handshakes={2})
    port = await device.start()
    lan = LAN("127.0.0.1", port, 7)
    lan_module.datetime = Clock
    try:
        await lan.authenticate(TOKEN, KEY)
        for i in range(4100):
            frame = i.to_bytes(2, "big") * 3
            assert await lan.send(frame) == [b"\xaa" + frame], i
        before = device.handshakes
        # 13 hours later the next exchange starts with a new handshake
        Clock.offset += dt.timedelta(hours=13)
        assert await lan.send(b"after") == [b"\xaaafter"]
        assert device.handshakes > before
        kinds = [k for k, _, _ in device.log]
        last_handshake = len(kinds) - 1 - kinds[::-1].index("handshake")
        assert kinds[last_handshake + 1:] == ["data"]
    finally:
        lan_module.datetime = dt.datetime
        Clock.offset = dt.timedelta(0)
    lan._disconnect()
    await device.stop()
    check_log(device)
    print(f"silent handshake + expiry: {device.handshakes} handshake requests, "
          f"{device.connections} connection(s), all exchanges answered")


async def main():
    await long_session()
    await unanswered_rehandshake_and_expiry()


if __name__ == "__main__":
    logging.getLogger("msmart").setLevel(logging.ERROR)
    asyncio.run(main())
    sys.exit(0)
