"""Minimal conforming NetHome Plus server used by the demo scripts (httpx.MockTransport, no network)."""
import hashlib
import json
from urllib.parse import parse_qsl

import httpx

APP_KEY = "3742e9e5842d4ad59c2db887e12449f9"


class FakeNetHome:
    def __init__(self, accounts, tokens, script=None):
        self.accounts = dict(accounts)      # account -> password
        self.tokens = list(tokens)          # list of dict(udpId, token, key)
        self.script = list(script or [])    # per-request faults: "timeout", 500, ("api", code), None
        self.login_ids = {}
        self.sessions = set()
        self.requests = []                  # (path, fields)
        self.violations = []
        self.clients = 0
        self._n = 0

    # -- client factory handed to the library
    def client(self, *args, **kwargs):
        self.clients += 1
        return httpx.AsyncClient(transport=httpx.MockTransport(self.handle))

    def _reply(self, result=None, code=0, msg="ok"):
        body = {"errorCode": str(code), "msg": msg}
        if code == 0:
            body["result"] = result
        return httpx.Response(200, text=json.dumps(body))

    def handle(self, request: httpx.Request) -> httpx.Response:
        path = request.url.path
        pairs = parse_qsl(request.content.decode("utf-8"), keep_blank_values=True)
        fields = dict(pairs)
        self.requests.append((path, dict(fields)))
        if len(fields) != len(pairs):
            self.violations.append(f"{path}: duplicate form field")

        # Scripted faults
        fault = self.script.pop(0) if self.script else None
        if fault == "timeout":
            raise httpx.ReadTimeout("scripted timeout", request=request)
        if isinstance(fault, int):
            return httpx.Response(fault, text="scripted failure")
        if isinstance(fault, tuple):
            return self._reply(code=fault[1], msg="scripted api error")

        # Signature
        sign = fields.pop("sign", None)
        query = "&".join(f"{k}={v}" for k, v in sorted(fields.items()))
        expect = hashlib.sha256((path + query + APP_KEY).encode()).hexdigest()
        if sign != expect:
            self.violations.append(f"{path}: bad sign")
            return self._reply(code=3301, msg="bad sign")
        for f in ("appId", "src", "format", "clientType", "language", "deviceId", "stamp", "sessionId"):
            if f not in fields:
                self.violations.append(f"{path}: missing {f}")
        if fields.get("appId") != "1017" or len(fields.get("stamp", "")) != 14:
            self.violations.append(f"{path}: bad appId/stamp")

        if path == "/v1/user/login/id/get":
            acct = fields.get("loginAccount")
            if acct not in self.accounts:
                return self._reply(code=3102, msg="no such account")
            self._n += 1
            lid = f"lid{self._n:04d}-{hashlib.md5(acct.encode()).hexdigest()[:8]}"
            self.login_ids.setdefault(acct, []).append(lid)
            return self._reply({"loginId": lid})

        if path == "/v1/user/login":
            acct = fields.get("loginAccount")
            lids = self.login_ids.get(acct)
            if not lids:
                self.violations.append("login without login id")
                return self._reply(code=3101, msg="no login id")
            m1 = hashlib.sha256(self.accounts[acct].encode()).hexdigest()
            want = [hashlib.sha256((lid + m1 + APP_KEY).encode()).hexdigest() for lid in lids]
            if fields.get("password") not in want:
                return self._reply(code=3101, msg="bad password")
            self._n += 1
            sid = f"sess{self._n:04d}"
            self.sessions.add(sid)
            return self._reply({"sessionId": sid, "userId": "1"})

        if path == "/v1/iot/secure/getToken":
            if fields.get("sessionId") not in self.sessions:
                self.violations.append("getToken with bad session")
                return self._reply(code=3106, msg="invalid session")
            return self._reply({"tokenlist": self.tokens})

        return httpx.Response(404, text="nope")


# ---------------------------------------------------------------- demo 2
import asyncio
import hmac
import sys
import time

from msmart.cloud import ApiError, CloudError, NetHomePlusCloud, SmartHomeCloud

ACCOUNTS = {"user@example.com": "secret pw+1"}
UDPID = "4fbe0d4139de99dd88a0285e14657045"
TOKENS = [{"udpId": UDPID, "token": "T1", "key": "K1"}]


async def logged_in(script=None):
    srv = FakeNetHome(ACCOUNTS, TOKENS)
    c = NetHomePlusCloud("US", account="user@example.com", password="secret pw+1", get_async_client=srv.client)
    await c.login()
    assert len(srv.requests) == 2 and not srv.violations
    srv.requests.clear()
    srv.script = list(script or [])
    return srv, c


async def main():
    t0 = time.monotonic()

    # Timeouts are retried within the budget and stop at the first answer
    for script, sent in (([], 1), (["timeout"], 2), (["timeout", "timeout"], 3)):
        srv, c = await logged_in(script)
        assert await c.get_token(UDPID) == ("T1", "K1")
        assert len(srv.requests) == sent, (script, len(srv.requests))
        assert len({tuple(sorted(f.items())) for _, f in srv.requests}) == 1  # retransmissions are identical
        assert not srv.violations, srv.violations

    # Exhausted timeouts -> CloudError after exactly RETRIES attempts
    srv, c = await logged_in(["timeout"] * 5)
    try:
        await c.get_token(UDPID)
        raise SystemExit("expected CloudError")
    except ApiError:
        raise SystemExit("expected plain CloudError")
    except CloudError:
        pass
    assert len(srv.requests) == 3, len(srv.requests)

    # Custom budgets on the low-level call
    for budget in (1, 2, 4):
        srv, c = await logged_in(["timeout"] * 6)
        try:
            await c._post_request(c._base_url + "/v1/iot/secure/getToken", form_data={"a": 1}, retries=budget)
            raise SystemExit("expected CloudError")
        except CloudError:
            pass
        assert len(srv.requests) == budget, (budget, len(srv.requests))

    # HTTP failures surface immediately, also after a timeout
    for script, sent in (([500], 1), ([404], 1), (["timeout", 503], 2), (["timeout", "timeout", 502], 3)):
        srv, c = await logged_in(script)
        try:
            await c.get_token(UDPID)
            raise SystemExit("expected CloudError")
        except ApiError:
            raise SystemExit("expected plain CloudError")
        except CloudError:
            pass
        assert len(srv.requests) == sent, (script, len(srv.requests))

    # API error codes surface as ApiError with the code
    for script, sent in (([("api", 3106)], 1), (["timeout", ("api", 9999)], 2)):
        srv, c = await logged_in(script)
        try:
            await c.get_token(UDPID)
            raise SystemExit("expected ApiError")
        except ApiError as e:
            assert e.code == script[-1][1]
        assert len(srv.requests) == sent

    # After a failure the same instance keeps working
    srv, c = await logged_in(["timeout"] * 3)
    try:
        await c.get_token(UDPID)
    except CloudError:
        pass
    assert await c.get_token(UDPID) == ("T1", "K1")
    assert not srv.violations, srv.violations

    # Connection failure
    def refuse(request):
        raise httpx.ConnectError("refused", request=request)
    c = NetHomePlusCloud("US", get_async_client=lambda: httpx.AsyncClient(transport=httpx.MockTransport(refuse)))
    try:
        await c.login()
        raise SystemExit("expected CloudError")
    except CloudError:
        pass

    # SmartHome raw JSON requests are still signed over the exact bytes sent
    seen = []

    def smarthome(request):
        body = request.content.decode()
        rnd = request.headers["random"]
        want = hmac.new(b"PROD_VnoClJI9aikS8dyy", ("meicloud" + body + rnd).encode(), hashlib.sha256).hexdigest()
        assert request.headers["sign"] == want
        assert request.headers["content-type"].startswith("application/json")
        seen.append(json.loads(body))
        if request.url.params["alias"] == "/v1/user/login/id/get":
            return httpx.Response(200, text=json.dumps({"code": 0, "data": {"loginId": "L"}}))
        return httpx.Response(200, text=json.dumps({"code": "0", "data": {"mdata": {"accessToken": "AT"}}}))
    c = SmartHomeCloud("US", get_async_client=lambda: httpx.AsyncClient(transport=httpx.MockTransport(smarthome)))
    await c.login()
    assert c._access_token == "AT" and len(seen) == 2

    assert time.monotonic() - t0 < 20
    print("demo2 OK")


asyncio.run(main())
