"""Demo 3 for C19: token selection and two-endian V3 authentication against a model cloud and a model device.

Run: cd <worktree> && PYTHONPATH=<worktree> /venv/bin/python demo3.py
Exits 0 if the property holds in the representative cases exercised.
"""
import asyncio
import hashlib
import logging
import sys
from urllib.parse import parse_qsl, urlparse

import httpx
from Crypto.Cipher import AES
from Crypto.Util import Padding

from msmart.cloud import ApiError, CloudError, NetHomePlusCloud
from msmart.discover import Discover
from msmart.lan import Security

logging.disable(logging.CRITICAL)

APP_KEY = "3742e9e5842d4ad59c2db887e12449f9"


class ModelCloud:
    """A conforming model of the NetHome Plus server (order independent)."""

    def __init__(self, account, password, tokens):
        self.account = account
        self.password = password
        self.tokens = tokens  # list of dict entries returned as tokenlist
        self.login_id = "lid-" + hashlib.md5(account.encode()).hexdigest()[:12]
        self.session_id = "sess-" + hashlib.md5(password.encode()).hexdigest()[:12]
        self.faults = []  # consumed one per request
        self.requests = []  # (path, fields)
        self.violations = []

    def client(self, *args, **kwargs):
        return httpx.AsyncClient(transport=httpx.MockTransport(self.handle))

    def _ok(self, result):
        return httpx.Response(200, json={"errorCode": "0", "msg": "ok", "result": result})

    def handle(self, request: httpx.Request) -> httpx.Response:
        path = urlparse(str(request.url)).path
        ctype = request.headers.get("content-type", "")
        if request.method != "POST" or not ctype.startswith("application/x-www-form-urlencoded"):
            self.violations.append(f"bad method/content-type {request.method} {ctype}")
        pairs = parse_qsl(request.content.decode("utf-8"), keep_blank_values=True)
        fields = dict(pairs)
        if len(fields) != len(pairs):
            self.violations.append("duplicate form field")
        self.requests.append((path, fields))

        # Signature as verified by the server: over the sorted received fields
        sign = fields.pop("sign", None)
        query = "&".join(f"{k}={v}" for k, v in sorted(fields.items()))
        expect = hashlib.sha256((path + query + APP_KEY).encode()).hexdigest()
        if sign != expect:
            self.violations.append(f"bad sign on {path}")
        for k in ("appId", "src", "format", "clientType", "language", "deviceId", "stamp", "sessionId"):
            if k not in fields:
                self.violations.append(f"missing {k} on {path}")
        if fields.get("appId") != "1017" or fields.get("src") != "1017":
            self.violations.append("bad appId/src")
        stamp = fields.get("stamp", "")
        if len(stamp) != 14 or not stamp.isdigit():
            self.violations.append("bad stamp")

        # Inject faults
        if self.faults:
            fault = self.faults.pop(0)
            if fault == "timeout":
                raise httpx.ReadTimeout("model timeout", request=request)
            if fault == "connect":
                raise httpx.ConnectError("model connect error", request=request)
            if isinstance(fault, int) and fault >= 400:
                return httpx.Response(fault, text="model http failure")
            if isinstance(fault, tuple):
                return httpx.Response(200, json={"errorCode": str(fault[1]), "msg": "model api error"})

        if path == "/v1/user/login/id/get":
            if fields.get("loginAccount") != self.account:
                return httpx.Response(200, json={"errorCode": "3101", "msg": "no account"})
            return self._ok({"loginId": self.login_id})

        if path == "/v1/user/login":
            m1 = hashlib.sha256(self.password.encode()).hexdigest()
            pw = hashlib.sha256((self.login_id + m1 + APP_KEY).encode()).hexdigest()
            if fields.get("loginAccount") != self.account or fields.get("password") != pw:
                return httpx.Response(200, json={"errorCode": "3102", "msg": "bad password"})
            return self._ok({"sessionId": self.session_id, "userId": "1"})

        if path == "/v1/iot/secure/getToken":
            if fields.get("sessionId") != self.session_id:
                return httpx.Response(200, json={"errorCode": "3106", "msg": "bad session"})
            if "udpid" not in fields:
                self.violations.append("missing udpid")
            return self._ok({"tokenlist": self.tokens})

        return httpx.Response(404)


def entry(udpid, n):
    return {"udpId": udpid, "token": f"{n:02x}" * 64, "key": f"{n + 128:02x}" * 32}


async def expect_raises(coro, cls, what, failures):
    try:
        await coro
    except cls:
        return
    except Exception as e:  # pylint: disable=broad-except
        failures.append(f"{what}: raised {type(e).__name__} instead of {cls.__name__}")
        return
    failures.append(f"{what}: did not raise")


ENC_KEY = hashlib.md5(b"xhdiwjnchekd4d512chdjx5d8e4c394D2D7S").digest()


def ref_udpid(device_id: int, endian: str) -> str:
    """Independent computation of the udpid."""
    digest = hashlib.sha256(device_id.to_bytes(6, endian)).digest()
    return bytes(a ^ b for a, b in zip(digest[:16], digest[16:])).hex()


class ModelDevice:
    """Model V3 device accepting exactly one token and answering the handshake with its key."""

    def __init__(self, token_hex, key_hex):
        self.token = bytes.fromhex(token_hex)
        self.key = bytes.fromhex(key_hex)
        self.handshakes = []
        self.writers = []
        self.server = None
        self.port = None

    async def start(self):
        self.server = await asyncio.start_server(self._serve, "127.0.0.1", 0)
        self.port = self.server.sockets[0].getsockname()[1]

    async def stop(self):
        self.server.close()
        for writer in self.writers:
            writer.close()

    async def _serve(self, reader, writer):
        self.writers.append(writer)
        try:
            while True:
                header = await reader.readexactly(6)
                size = int.from_bytes(header[2:4], "big")
                rest = await reader.readexactly(size + 2)
                packet_id, payload = rest[:2], rest[2:]
                if header[:2] != b"\x83\x70" or header[4] != 0x20 or header[5] & 0xF != 0:
                    writer.write(b"\x83\x70\x00\x00\x20\x0f" + packet_id)
                    continue
                self.handshakes.append(payload.hex())
                if payload != self.token:
                    writer.write(b"\x83\x70\x00\x00\x20\x0f" + packet_id)
                    continue
                plain = hashlib.sha256(b"seed" + payload).digest()
                data = AES.new(self.key, AES.MODE_CBC, iv=bytes(16)).encrypt(plain) + hashlib.sha256(plain).digest()
                writer.write(b"\x83\x70" + len(data).to_bytes(2, "big") + b"\x20\x01" + packet_id + data)
        except (asyncio.IncompleteReadError, ConnectionError):
            pass
        finally:
            writer.close()

    def discovery_response(self, device_id: int) -> bytes:
        name = b"net_ff_ABCD"
        plain = bytes([1, 0, 0, 127]) + self.port.to_bytes(2, "little") + bytes(2)
        plain += b"000000P0000000Q1F0C9D153F2B10000"[:32].ljust(32, b"0")
        plain += bytes([len(name)]) + name + bytes(20)
        encrypted = AES.new(ENC_KEY, AES.MODE_ECB).encrypt(Padding.pad(plain, 16))
        v2 = b"\x5a\x5a\x01\x11" + bytes(16) + device_id.to_bytes(6, "little") + bytes(14) + encrypted + bytes(16)
        return b"\x83\x70" + bytes(6) + v2 + bytes(16)


async def main() -> int:
    failures = []
    account, password = "u@e.com", "pw"

    # 1. udpid derivation against an independent computation
    for device_id in (0, 1, 15393162840672, 0xFFFFFFFFFFFF, 0x0102030405FF, 151732605161920):
        for endian in ("little", "big"):
            if Security.udpid(device_id.to_bytes(6, endian)).hex() != ref_udpid(device_id, endian):
                failures.append(f"udpid mismatch for {device_id} {endian}")

    # 2. Discovery of a V3 device with auto connect
    device_id = 0x0000A1B2C3D4E5F6 & 0xFFFFFFFFFFFF
    little, big = ref_udpid(device_id, "little"), ref_udpid(device_id, "big")
    near = [little[:-1] + ("0" if little[-1] != "0" else "1"), little.upper(), big[1:] + big[0], little[::-1]]
    tokens = [entry(near[0], 10), entry(big, 20), entry(near[1], 11), entry(little, 30), entry(near[2], 12), entry(near[3], 13)]
    creds = {u: (e["token"], e["key"]) for e in tokens for u in [e["udpId"]]}

    async def discover_one(registered, tokenlist):
        """Run the per-device part of Discover.discover for a model device registered under one udpid."""
        device = ModelDevice(*registered)
        await device.start()
        model = ModelCloud(account, password, tokenlist)
        Discover._lock = asyncio.Lock()
        Discover._cloud = None
        Discover._get_async_client = model.client
        Discover._region, Discover._account, Discover._password = "US", account, password
        Discover._auto_connect = True
        try:
            dev = await Discover._get_device("127.0.0.1", 3, device.discovery_response(device_id))
            return dev, device, model
        finally:
            await device.stop()

    for name, udpid in (("little", little), ("big", big)):
        dev, device, model = await discover_one(creds[udpid], tokens)
        if dev is None or dev.id != device_id or (dev.token, dev.key) != creds[udpid]:
            failures.append(f"{name}: device not authenticated with the registered credentials")
        asked = [f.get("udpid") for p, f in model.requests if p == "/v1/iot/secure/getToken"]
        if not set(asked) <= {little, big} or udpid not in asked:
            failures.append(f"{name}: unexpected udpids requested {asked}")
        if any(h not in (creds[little][0], creds[big][0]) for h in device.handshakes):
            failures.append(f"{name}: device was offered a token of another entry")
        failures.extend(model.violations)

    # Device registered with credentials the cloud doesn't know: never authenticated
    dev, device, model = await discover_one(("ab" * 64, "cd" * 32), tokens)
    if dev is None or dev.token is not None or dev.key is not None:
        failures.append("unknown device: has credentials")
    failures.extend(model.violations)

    # Key of another entry for the right token: never authenticated with it
    dev, device, model = await discover_one((creds[little][0], creds[near[0]][1]), tokens)
    if dev is None or dev.token is not None:
        failures.append("wrong key: has credentials")

    # No entry at all -> cloud error
    try:
        await discover_one(creds[little], [entry(n, i) for i, n in enumerate(near)])
        failures.append("absent entries: no cloud error")
    except CloudError:
        pass

    # 3. Forced re-login keeps a verifiable flow and the session that get_token carries
    model = ModelCloud(account, password, tokens)
    cloud = NetHomePlusCloud("US", account=account, password=password, get_async_client=model.client)
    await cloud.login()
    await cloud.login()
    n = len(model.requests)
    if n != 2:
        failures.append(f"{n} requests for login + no-op login")
    await cloud.login(force=True)
    if model.requests[-1][0] != "/v1/user/login" or not n < len(model.requests) <= n + 2:
        failures.append("forced login flow")
    for u in (little, big):
        if await cloud.get_token(u) != creds[u]:
            failures.append("wrong creds after forced login")
    failures.extend(model.violations)

    for f in failures:
        print("FAIL:", f)
    print("demo3: %s" % ("FAILED" if failures else "ok"))
    return 1 if failures else 0


if __name__ == "__main__":
    sys.exit(asyncio.run(main()))
