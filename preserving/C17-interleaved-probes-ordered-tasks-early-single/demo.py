"""Demonstration 2 for C17 (datagram path): discovery reports each replying device with exactly its advertised identity.

Runs Discover.discover()/discover_single() against (a) an in-process fake datagram endpoint with several simulated
devices and (b) a real UDP responder on the loopback interface. Exits 0 when every check holds.
"""
import asyncio
import logging
import random
import socket
import sys

from msmart.device import AirConditioner, Device
from msmart.discover import Discover
from msmart.lan import Security

logging.disable(logging.CRITICAL)

PROBE = bytes.fromhex(
    "5a5a01114800920000000000000000000000000000000000000000000000000000000000000000007f75bd6b3e4f8b76"
    "2e849c6e578d6590036e9d4342a50f1f569eb8ec918e92e5")

FAILURES = []


def check(cond, msg):
    if not cond:
        FAILURES.append(msg)
        print("FAIL:", msg)


def build_reply(version, device_id, port, sn, name, reported_ip):
    body = bytes(reversed(socket.inet_aton(reported_ip)))
    body += port.to_bytes(4, "little")
    body += sn.encode().ljust(32, b"0")[:32]
    body += bytes([len(name)]) + name.encode()
    body += bytes(random.randrange(256) for _ in range(random.randrange(0, 30)))  # trailing fields
    enc = Security.encrypt_aes(body)
    length = 40 + len(enc) + 16
    header = b"\x5a\x5a\x01\x11" + length.to_bytes(2, "little") + b"\x7a\x80"
    header += bytes(4) + bytes(8) + device_id.to_bytes(6, "little") + bytes(2) + bytes(12)
    assert len(header) == 40
    packet = header + enc
    packet += Security.sign(packet)
    if version == 2:
        return packet
    v3 = b"\x83\x70" + len(packet).to_bytes(2, "big") + b"\x20\x0f\x00\x00" + packet
    return v3 + bytes(random.randrange(256) for _ in range(16))


class FakeSocket:
    def setsockopt(self, *args):
        pass


class FakeTransport:
    def __init__(self, protocol, devices):
        self.protocol = protocol
        self.devices = devices  # list of (ip, reply bytes, n_copies)
        self.sent = []
        self.closed = False
        self.answered = False

    def get_extra_info(self, name, default=None):
        return FakeSocket() if name == "socket" else default

    def sendto(self, data, addr=None):
        self.sent.append((bytes(data), addr))
        if not self.answered and addr[1] == 6445:
            self.answered = True
            loop = asyncio.get_running_loop()
            order = list(self.devices)
            random.shuffle(order)
            for i, (ip, reply, copies) in enumerate(order):
                for c in range(copies):
                    loop.call_later(0.01 * (i + 1) + 0.05 * c, self._deliver, reply, (ip, 6445))

    def _deliver(self, reply, addr):
        if not self.closed:
            self.protocol.datagram_received(reply, addr)

    def close(self):
        self.closed = True

    def is_closing(self):
        return self.closed

    def abort(self):
        self.closed = True


def verify(dev, exp):
    ip, version, device_id, port, sn, name, dtype = exp
    tag = f"{ip} v{version} type {dtype:#04x}"
    check(dev.ip == ip, f"{tag}: ip {dev.ip!r}")
    check(dev.port == port and isinstance(dev.port, int), f"{tag}: port {dev.port!r} != {port}")
    check(dev.id == device_id, f"{tag}: id {dev.id!r} != {device_id}")
    check(dev.sn == sn, f"{tag}: sn {dev.sn!r} != {sn!r}")
    check(dev.name == name, f"{tag}: name {dev.name!r} != {name!r}")
    check(dev.type == dtype, f"{tag}: type {dev.type!r} != {dtype}")
    check(dev.version == version, f"{tag}: version {dev.version!r}")
    if dtype == 0xAC:
        check(type(dev) is AirConditioner, f"{tag}: class {type(dev).__name__}")
    else:
        check(type(dev) is Device, f"{tag}: class {type(dev).__name__}")


def verify_probes(sent, target):
    check(len(sent) > 0, "no probe sent")
    check(all(d == PROBE for d, _ in sent), "probe bytes differ from the known probe")
    check({a[1] for _, a in sent} == {6445, 20086}, f"probe ports {sorted({a[1] for _, a in sent})}")
    check({a[0] for _, a in sent} == {target}, "probe target")


async def fake_network_case(rng):
    loop = asyncio.get_running_loop()
    expected = {}
    devices = []
    types = [0xAC, 0xAC, 0x00, 0x01, 0x0A, 0xA1, 0xAB, 0xAD, 0xDB, 0xE2, 0xFF, rng.randrange(256)]
    ids = [0, 1, 2**48 - 1, 0x0000FFFFFFFF, 0xFF0000000000] + [rng.randrange(2**48) for _ in range(7)]
    ports = [1, 255, 256, 6444, 65535] + [rng.randrange(1, 65536) for _ in range(7)]
    for n, dtype in enumerate(types):
        ip = f"10.{rng.randrange(256)}.{n}.{rng.randrange(1, 255)}"
        version = 2 + (n + rng.randrange(2)) % 2
        sn = "".join(rng.choice("0123456789ABCDEFGHJKLMNPQRSTUVWXYZ") for _ in range(32))
        fmt = "%02x" if n % 3 else "%02X"
        name = "net_" + (fmt % dtype) + "_" + "".join(rng.choice("0123456789ABCDEF") for _ in range(rng.choice([1, 4, 8])))
        reported = ip if n % 2 else f"192.168.{n}.{rng.randrange(256)}"
        reply = build_reply(version, ids[n], ports[n], sn, name, reported)
        devices.append((ip, reply, rng.choice([1, 1, 3])))
        expected[ip] = (ip, version, ids[n], ports[n], sn, name, dtype)

    transports = []

    async def fake_endpoint(factory, *args, **kwargs):
        protocol = factory()
        transport = FakeTransport(protocol, devices)
        transports.append(transport)
        protocol.connection_made(transport)
        return transport, protocol

    # Stray traffic from hosts that are not devices must not disturb the others
    devices.append(("10.250.0.1", b"hello, not a device", 2))
    devices.append(("10.250.0.2", bytes(rng.randrange(256) for _ in range(104)), 1))
    devices.append(("10.250.0.3", b"\x5a\x5a" + bytes(60), 1))

    loop.create_datagram_endpoint = fake_endpoint
    try:
        found = await Discover.discover(timeout=0.6, auto_connect=False, discovery_packets=rng.choice([1, 3, 5]))
    finally:
        del loop.create_datagram_endpoint

    check(len(found) == len(expected), f"reported {len(found)} devices, expected {len(expected)}")
    check(len({d.ip for d in found}) == len(found), "a device was reported more than once")
    for dev in found:
        if dev.ip not in expected:
            check(False, f"unexpected device {dev.ip}")
            continue
        verify(dev, expected[dev.ip])
    verify_probes(transports[0].sent, "255.255.255.255")


async def fake_single_case(rng, version, dtype):
    """discover_single() towards one host; the host answers every probe it sees."""
    loop = asyncio.get_running_loop()
    ip = "172.16.%d.%d" % (rng.randrange(256), rng.randrange(1, 255))
    device_id = rng.randrange(2**48)
    port = rng.randrange(1, 65536)
    sn = "".join(rng.choice("0123456789ABCDEFGHJKLMNPQRSTUVWXYZ") for _ in range(32))
    name = "net_%02x_%04X" % (dtype, rng.randrange(65536))
    reply = build_reply(version, device_id, port, sn, name, "192.168.1.77")
    transports = []

    async def fake_endpoint(factory, *args, **kwargs):
        protocol = factory()
        transport = FakeTransport(protocol, [(ip, reply, 3)])
        transports.append(transport)
        protocol.connection_made(transport)
        return transport, protocol

    loop.create_datagram_endpoint = fake_endpoint
    try:
        dev = await Discover.discover_single(ip, timeout=0.5, auto_connect=False)
    finally:
        del loop.create_datagram_endpoint

    check(dev is not None, f"single {ip}: not reported")
    if dev is not None:
        verify(dev, (ip, version, device_id, port, sn, name, dtype))
    verify_probes(transports[0].sent, ip)

    # A host that never answers yields nothing
    async def silent_endpoint(factory, *args, **kwargs):
        protocol = factory()
        transport = FakeTransport(protocol, [])
        protocol.connection_made(transport)
        return transport, protocol

    loop.create_datagram_endpoint = silent_endpoint
    try:
        dev = await Discover.discover_single(ip, timeout=0.2, auto_connect=False)
    finally:
        del loop.create_datagram_endpoint
    check(dev is None, f"single {ip}: silent host reported as {dev!r}")


class Responder(asyncio.DatagramProtocol):
    def __init__(self, reply):
        self.reply = reply
        self.seen = []

    def connection_made(self, transport):
        self.transport = transport

    def datagram_received(self, data, addr):
        self.seen.append(bytes(data))
        self.transport.sendto(self.reply, addr)


async def loopback_case(version, dtype):
    loop = asyncio.get_running_loop()
    reply = build_reply(version, 0x0000A1B2C3D4E5F6 & (2**48 - 1), 6444 + version,
                        "000000P0000000Q1B88C29C963BA0000", "net_%02x_63BA" % dtype, "10.100.1.239")
    transport = None
    for probe_port in (6445, 20086):
        try:
            transport, responder = await loop.create_datagram_endpoint(
                lambda: Responder(reply), local_addr=("127.0.0.1", probe_port))
            break
        except OSError as e:
            print(f"loopback port {probe_port} unavailable:", e)
    if transport is None:
        print("loopback case skipped")
        return
    try:
        dev = await Discover.discover_single("127.0.0.1", timeout=0.5, auto_connect=False)
    finally:
        transport.close()
    check(dev is not None, "loopback: no device reported")
    if dev is not None:
        verify(dev, ("127.0.0.1", version, 0xA1B2C3D4E5F6, 6444 + version,
                     "000000P0000000Q1B88C29C963BA0000", "net_%02x_63BA" % dtype, dtype))
    check(len(responder.seen) > 0 and all(p == PROBE for p in responder.seen), "loopback: probe bytes")


async def main():
    rng = random.Random(1717)
    for _ in range(4):
        await fake_network_case(rng)
    await fake_single_case(rng, 2, 0xAC)
    await fake_single_case(rng, 3, 0xAC)
    await fake_single_case(rng, 3, 0xCA)
    await fake_single_case(rng, 2, 0x00)
    await loopback_case(2, 0xAC)
    await loopback_case(3, 0xB1)


asyncio.run(main())
if FAILURES:
    print(f"{len(FAILURES)} check(s) failed")
    sys.exit(1)
print("all checks passed")
