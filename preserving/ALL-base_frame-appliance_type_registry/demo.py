"""Demo 2: appliance types, device identity and constants."""
import asyncio
import hashlib
import ipaddress
import json
import logging
import sys

from msmart.base_device import Device
from msmart.const import DEVICE_INFO_MSG, DISCOVERY_MSG, DeviceType, FrameType
from msmart.device import AirConditioner
from msmart.discover import Discover
from msmart.frame import Frame
from msmart.lan import Security

logging.basicConfig(level=logging.CRITICAL)


def check(cond, what):
    if not cond:
        print("FAIL:", what)
        sys.exit(1)
    print("ok:", what)


def reply(version, ip, port, device_id, sn, name):
    body = ipaddress.IPv4Address(ip).packed[::-1] + port.to_bytes(2, "little") + bytes(2)
    body += sn.encode().ljust(32, b"0")[:32] + bytes([len(name)]) + name.encode() + bytes(20)
    enc = Security.encrypt_aes(body)
    header = bytearray(40)
    header[0:2] = b"\x5a\x5a"
    header[4:6] = (40 + len(enc) + 16).to_bytes(2, "little")
    header[20:26] = device_id.to_bytes(6, "little")
    packet = bytes(header) + enc
    packet += Security.sign(packet)
    if version == 3:
        packet = b"\x83\x70" + bytes(6) + packet + bytes(16)
    return packet


async def main():
    # Constants that go on the wire are fixed
    check(len(DISCOVERY_MSG) == 72 and hashlib.sha256(DISCOVERY_MSG).hexdigest()[:16] == "1a14e849cbf4524c",
          "discovery probe bytes")
    check(len(DEVICE_INFO_MSG) == 56 and hashlib.sha256(DEVICE_INFO_MSG).hexdigest()[:16] == "790454563832ed67",
          "device info message bytes")
    check(DeviceType.AIR_CONDITIONER == 0xAC and DeviceType(0xAC) is DeviceType.AIR_CONDITIONER, "AC type is 0xAC")
    check((FrameType.CONTROL, FrameType.QUERY, FrameType.REPORT) == (2, 3, 4), "frame types")
    frame = Frame(DeviceType.AIR_CONDITIONER, FrameType.QUERY).tobytes(b"\x01\x02")
    check(frame[0] == 0xAA and frame[1] == len(frame) - 1 and frame[2] == 0xAC and frame[9] == 3
          and sum(frame[1:]) & 0xFF == 0, "frame header carries appliance and frame type")

    Discover._auto_connect = False
    n = 0
    for version in (2, 3):
        for type_byte in (0xAC, 0xA1, 0xFD, 0x42, 0x00, 0xFF):
            n += 1
            ip, port, dev_id = f"10.1.2.{n}", 6444 + n, 0x010203040500 + n
            sn, name = f"000000P0000000Q1{n:016d}", f"net_{type_byte:02x}_{n:04X}"
            dev = await Discover._get_device(ip, version, reply(version, "10.9.9.9", port, dev_id, sn, name))
            check(dev is not None and type(dev) is (AirConditioner if type_byte == 0xAC else Device),
                  f"V{version} type 0x{type_byte:02X}: class {type(dev).__name__}")
            check((dev.ip, dev.port, dev.id, dev.sn, dev.name, dev.version) == (ip, port, dev_id, sn, name, version),
                  "  identity as advertised")
            check(dev.type == type_byte and int(dev.type) == type_byte and hex(dev.type) == hex(type_byte)
                  and isinstance(dev.type, int), "  appliance type as advertised")
            d = dev.to_dict()
            check({k: d[k] for k in ("ip", "port", "id", "name", "sn", "type", "online", "supported", "key", "token")}
                  == {"ip": ip, "port": port, "id": dev_id, "name": name, "sn": sn, "type": type_byte,
                      "online": False, "supported": False, "key": None, "token": None}, "  to_dict identity fields")
            json.dumps({k: v for k, v in d.items() if isinstance(v, (int, str, bool, type(None)))})
            check(str(dev) == str(d) and repr(dev), "  printable")

    dev = Device(ip="1.2.3.4", port=1, device_id=2, device_type=DeviceType.AIR_CONDITIONER)
    check(dev.type is DeviceType.AIR_CONDITIONER, "explicit DeviceType kept")
    print("demo 2 passed")

asyncio.run(main())
