"""Minimal conforming NetHome Plus server used by the demo scripts (httpx.MockTransport, no network)."""
import hashlib
import json
from urllib.parse import parse_qsl

import httpx

APP_KEY = "3742e9e5842d4ad59c2db887e12449f9"


class FakeNetHome:
    def __init__(self, accounts, tokens, script=None):
        self.accounts = dict(accounts)      # account -> password
        self.tokens = list(tokens)          # list of dict(udpId, token, key)
        self.script = list(script or [])    # per-request faults: "timeout", 500, ("api", code), None
        self.login_ids = {}
        self.sessions = set()
        self.requests = []                  # (path, fields)
        self.violations = []
        self.clients = 0
        self._n = 0

    # -- client factory handed to the library
    def client(self, *args, **kwargs):
        self.clients += 1
        return httpx.AsyncClient(transport=httpx.MockTransport(self.handle))

    def _reply(self, result=None, code=0, msg="ok"):
        body = {"errorCode": str(code), "msg": msg}
        if code == 0:
            body["result"] = result
        return httpx.Response(200, text=json.dumps(body))

    def handle(self, request: httpx.Request) -> httpx.Response:
        path = request.url.path
        pairs = parse_qsl(request.content.decode("utf-8"), keep_blank_values=True)
        fields = dict(pairs)
        self.requests.append((path, dict(fields)))
        if len(fields) != len(pairs):
            self.violations.append(f"{path}: duplicate form field")

        # Scripted faults
        fault = self.script.pop(0) if self.script else None
        if fault == "timeout":
            raise httpx.ReadTimeout("scripted timeout", request=request)
        if isinstance(fault, int):
            return httpx.Response(fault, text="scripted failure")
        if isinstance(fault, tuple):
            return self._reply(code=fault[1], msg="scripted api error")

        # Signature
        sign = fields.pop("sign", None)
        query = "&".join(f"{k}={v}" for k, v in sorted(fields.items()))
        expect = hashlib.sha256((path + query + APP_KEY).encode()).hexdigest()
        if sign != expect:
            self.violations.append(f"{path}: bad sign")
            return self._reply(code=3301, msg="bad sign")
        for f in ("appId", "src", "format", "clientType", "language", "deviceId", "stamp", "sessionId"):
            if f not in fields:
                self.violations.append(f"{path}: missing {f}")
        if fields.get("appId") != "1017" or len(fields.get("stamp", "")) != 14:
            self.violations.append(f"{path}: bad appId/stamp")

        if path == "/v1/user/login/id/get":
            acct = fields.get("loginAccount")
            if acct not in self.accounts:
                return self._reply(code=3102, msg="no such account")
            self._n += 1
            lid = f"lid{self._n:04d}-{hashlib.md5(acct.encode()).hexdigest()[:8]}"
            self.login_ids.setdefault(acct, []).append(lid)
            return self._reply({"loginId": lid})

        if path == "/v1/user/login":
            acct = fields.get("loginAccount")
            lids = self.login_ids.get(acct)
            if not lids:
                self.violations.append("login without login id")
                return self._reply(code=3101, msg="no login id")
            m1 = hashlib.sha256(self.accounts[acct].encode()).hexdigest()
            want = [hashlib.sha256((lid + m1 + APP_KEY).encode()).hexdigest() for lid in lids]
            if fields.get("password") not in want:
                return self._reply(code=3101, msg="bad password")
            self._n += 1
            sid = f"sess{self._n:04d}"
            self.sessions.add(sid)
            return self._reply({"sessionId": sid, "userId": "1"})

        if path == "/v1/iot/secure/getToken":
            if fields.get("sessionId") not in self.sessions:
                self.violations.append("getToken with bad session")
                return self._reply(code=3106, msg="invalid session")
            return self._reply({"tokenlist": self.tokens})

        return httpx.Response(404, text="nope")


# ---------------------------------------------------------------- demo 3
import asyncio
import logging
import random

from msmart.cloud import ApiError, CloudError, NetHomePlusCloud

logging.basicConfig(level=logging.DEBUG, stream=open("/dev/null", "w"))

ACCOUNTS = {"user@example.com": "pw"}


def near_misses(udpid, rng):
    out = {udpid.upper(), udpid[:-1], udpid + "0", udpid[1:], " " + udpid, udpid[::-1]}
    for _ in range(4):
        i = rng.randrange(len(udpid))
        out.add(udpid[:i] + rng.choice("0123456789abcdef") + udpid[i + 1:])
    out.discard(udpid)
    return sorted(out)


async def main():
    rng = random.Random(3)
    for trial in range(40):
        udpid = "%032x" % rng.getrandbits(128)
        others = near_misses(udpid, rng) + ["%032x" % rng.getrandbits(128) for _ in range(rng.randint(0, 3))]
        rng.shuffle(others)
        entries = [{"udpId": u, "token": "T-" + u, "key": "K-" + u} for u in others]
        position = rng.choice(["absent", "first", "middle", "last"])
        match = {"udpId": udpid, "token": "TOKEN%d" % trial, "key": "KEY%d" % trial}
        if position == "first":
            entries.insert(0, match)
        elif position == "middle":
            entries.insert(len(entries) // 2, match)
        elif position == "last":
            entries.append(match)
        if trial % 5 == 0:
            # Extra field order / extra fields in entries
            entries = [dict(reversed(list(e.items())), extra=1) for e in entries]

        srv = FakeNetHome(ACCOUNTS, entries)
        c = NetHomePlusCloud("US", account="user@example.com", password="pw", get_async_client=srv.client)
        await c.login()
        assert c._session_id in srv.sessions and c._session
        try:
            got = await c.get_token(udpid)
            assert position != "absent", "returned credentials of another entry"
            assert got == (match["token"], match["key"]), got
        except ApiError:
            raise SystemExit("unexpected ApiError")
        except CloudError:
            assert position == "absent"
        # Each of the other ids gets its own credentials too
        u = others[0]
        assert await c.get_token(u) == ("T-" + u, "K-" + u)
        assert not srv.violations, srv.violations

    # Empty list and API errors
    srv = FakeNetHome(ACCOUNTS, [])
    c = NetHomePlusCloud("US", account="user@example.com", password="pw", get_async_client=srv.client)
    await c.login()
    for script, exc in (([], CloudError), ([("api", 3106)], ApiError), ([("api", 1)], ApiError)):
        srv.script = list(script)
        try:
            await c.get_token("ab" * 16)
            raise SystemExit("expected error")
        except exc as e:
            if script:
                assert isinstance(e, ApiError) and e.code == script[0][1] and e.message == "scripted api error"
                assert str(script[0][1]) in str(e)

    # Unknown account and wrong password are API errors; nothing is stored
    for acct, pw, code in (("nobody@example.com", "pw", 3102), ("user@example.com", "bad", 3101)):
        srv = FakeNetHome(ACCOUNTS, [])
        c = NetHomePlusCloud("US", account=acct, password=pw, get_async_client=srv.client)
        try:
            await c.login()
            raise SystemExit("expected ApiError")
        except ApiError as e:
            assert e.code == code
        assert not c._session and c._session_id == ""

    # A server that answers with something that is not an API reply makes the call fail (some exception)
    def junk(request):
        return httpx.Response(200, text="<html>maintenance</html>")
    c = NetHomePlusCloud("US", get_async_client=lambda: httpx.AsyncClient(transport=httpx.MockTransport(junk)))
    try:
        await c.login()
        raise SystemExit("expected failure")
    except Exception:
        pass
    assert not c._session
    print("demo3 OK")


asyncio.run(main())
