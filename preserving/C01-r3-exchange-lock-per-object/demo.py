"""Demo for change 1 (exchange lock / cancel-safe clean-up).

Drives AirConditioner.apply()/refresh() against a small in-process device (V2 and V3) over loopback TCP.
Exits 0 when every applied state reached the device and every refresh reported the device's state.
"""
import asyncio
import logging
import random
import sys
from hashlib import sha256

from Crypto.Util.strxor import strxor

import msmart.crc8 as crc8
from msmart.device import AirConditioner as AC
from msmart.frame import Frame
from msmart.lan import Security, _Packet

FIELDS = ("power_state", "operational_mode", "target_temperature", "fan_speed", "swing_mode", "eco", "turbo",
          "sleep", "fahrenheit", "freeze_protection", "follow_me", "purifier", "target_humidity", "aux_mode")


class SimDevice:
    """A very small Midea AC: keeps the last state it was set to and reports it."""

    def __init__(self, version, device_id, token=None, key=None, rng=None, chunk=None, unsolicited=0.0,
                 duplicate=0.0):
        self.version, self.device_id, self.token, self.key = version, device_id, token, key
        self.rng = rng or random.Random(0)
        self.chunk = chunk            # None = whole writes, int = max segment size
        self.unsolicited = unsolicited
        self.duplicate = duplicate
        self.display_on = True
        self.set_count = 0
        self.connections = 0
        self.state = dict(power=False, mode=1, temp=17.0, fan=102, swing=0, eco=False, turbo=False, sleep=False,
                          fahrenheit=False, freeze=False, follow_me=False, purifier=False, humidity=40,
                          aux=False, indep_aux=False)
        self.server = None
        self.port = None

    async def start(self):
        self.server = await asyncio.start_server(self._client, "127.0.0.1", 0)
        self.port = self.server.sockets[0].getsockname()[1]
        return self

    async def stop(self):
        self.server.close()

    # ---- frames
    def _frame(self, frame_type, payload):
        payload = bytes(payload) + bytes([self.rng.randrange(256)])
        payload += bytes([crc8.calculate(payload)])
        hdr = bytearray(10)
        hdr[0], hdr[1], hdr[2], hdr[9] = 0xAA, len(payload) + 10, 0xAC, frame_type
        frame = bytearray(hdr + payload)
        frame.append(Frame.checksum(frame[1:]))
        return bytes(frame)

    def _state_frame(self, frame_type=0x03):
        s = self.state
        p = bytearray(24)
        p[0] = 0xC0
        p[1] = 1 if s["power"] else 0
        whole = int(s["temp"])
        half = 0x10 if s["temp"] - whole else 0
        if 17 <= whole <= 30:
            p[2] = ((whole - 16) & 0xF) | half
        else:
            p[2] = half
            p[13] = (whole - 12) & 0x1F
        p[2] |= (s["mode"] & 7) << 5
        p[3] = s["fan"]
        p[7] = s["swing"] & 0xF
        p[8] = (0x20 if s["turbo"] else 0) | (0x40 if s["indep_aux"] else 0) | (0x80 if s["follow_me"] else 0)
        p[9] = (0x10 if s["eco"] else 0) | (0x20 if s["purifier"] else 0) | (0x08 if s["aux"] else 0)
        p[10] = (1 if s["sleep"] else 0) | (2 if s["turbo"] else 0) | (4 if s["fahrenheit"] else 0)
        p[11] = p[12] = 0xFF
        p[14] = 0x00 if self.display_on else 0x70
        p[19] = s["humidity"] & 0x7F
        p[21] = 0x80 if s["freeze"] else 0
        return self._frame(frame_type, p)

    def _noise_frame(self):
        # An unsolicited report the client has no use for (unknown id 0xA1)
        return self._frame(0x04, bytes([0xA1]) + bytes(self.rng.randrange(256) for _ in range(18)))

    def _handle_frame(self, frame):
        assert frame[0] == 0xAA and frame[2] == 0xAC
        assert Frame.checksum(frame[1:-1]) == frame[-1]
        body = frame[10:-1]
        assert crc8.calculate(body[:-1]) == body[-1]
        d = body
        if frame[9] == 0x02 and d[0] == 0x40:
            alt = d[18] & 0x1F
            temp = float(alt + 12) if alt else float((d[2] & 0xF) + 16)
            temp += 0.5 if d[2] & 0x10 else 0.0
            self.state = dict(power=bool(d[1] & 1), mode=(d[2] >> 5) & 7, temp=temp, fan=d[3], swing=d[7] & 0xF,
                              eco=bool(d[9] & 0x80), turbo=bool(d[10] & 2) or bool(d[8] & 0x20),
                              sleep=bool(d[10] & 1), fahrenheit=bool(d[10] & 4), freeze=bool(d[21] & 0x80),
                              follow_me=bool(d[8] & 0x80), purifier=bool(d[9] & 0x20), humidity=d[19] & 0x7F,
                              aux=bool(d[9] & 0x08), indep_aux=bool(d[22] & 0x08))
            self.set_count += 1
            return [self._state_frame(0x02)]
        if frame[9] == 0x03 and d[0] == 0x41 and d[1] == 0x81:
            return [self._state_frame(0x03)]
        return []  # anything else: stay silent

    # ---- transport
    def _v2_packet(self, frame):
        return _Packet.encode(self.device_id, frame)

    def _v3_packet(self, local_key, count, data):
        rem = (len(data) + 2) % 16
        pad = 16 - rem if rem else 0
        pad_bytes = bytes(self.rng.randrange(256) for _ in range(pad))
        header = b"\x83\x70" + (len(data) + pad + 32).to_bytes(2, "big") + b"\x20" + bytes([pad << 4 | 0x3])
        plain = count.to_bytes(2, "big") + data + pad_bytes
        return header + Security.encrypt_aes_cbc(local_key, plain) + sha256(header + plain).digest()

    async def _write(self, writer, data):
        if not self.chunk:
            writer.write(data)
            await writer.drain()
            return
        i = 0
        while i < len(data):
            n = self.rng.randint(1, self.chunk)
            writer.write(data[i:i + n])
            await writer.drain()
            await asyncio.sleep(0)
            i += n

    async def _client(self, reader, writer):
        self.connections += 1
        local_key = None
        count = 0
        try:
            while True:
                if self.version == 3:
                    hdr = await reader.readexactly(6)
                    assert hdr[:2] == b"\x83\x70" and hdr[4] == 0x20, hdr.hex()
                    rest = await reader.readexactly(int.from_bytes(hdr[2:4], "big") + 2)
                    ptype = hdr[5] & 0xF
                    if ptype == 0x0:
                        assert rest[2:] == self.token, "wrong token"
                        plain = bytes(self.rng.randrange(256) for _ in range(32))
                        payload = Security.encrypt_aes_cbc(self.key, plain) + sha256(plain).digest()
                        local_key = strxor(plain, self.key)
                        await self._write(writer, b"\x83\x70" + (64).to_bytes(2, "big") + b"\x20\x01"
                                          + count.to_bytes(2, "big") + payload)
                        continue
                    assert ptype == 0x6 and local_key is not None
                    enc, rx_hash = rest[:-32], rest[-32:]
                    plain = Security.decrypt_aes_cbc(local_key, enc)
                    assert sha256(hdr + plain).digest() == rx_hash
                    packet = plain[2:len(plain) - (hdr[5] >> 4)]
                else:
                    hdr = await reader.readexactly(6)
                    assert hdr[:2] == b"\x5a\x5a"
                    packet = hdr + await reader.readexactly(int.from_bytes(hdr[4:6], "little") - 6)

                assert int.from_bytes(packet[20:28], "little") == self.device_id
                frame = _Packet.decode(packet)
                out = []
                # Unsolicited frames ahead of the reply only where the client is certain to see the reply in the
                # same exchange (V3, unsegmented); behind the reply always.
                if self.version == 3 and not self.chunk and self.rng.random() < self.unsolicited:
                    out.append(self._noise_frame())
                replies = self._handle_frame(frame)
                out += replies
                if replies and self.rng.random() < self.duplicate:
                    out.append(replies[-1])
                if self.rng.random() < self.unsolicited:
                    out.append(self._noise_frame())
                blob = b""
                for f in out:
                    count = (count + 1) & 0xFFF
                    p = self._v2_packet(f)
                    if self.version == 3:
                        blob += self._v3_packet(local_key, count, p)
                    else:
                        # V2 has no framing of its own: one packet per segment
                        writer.write(p)
                        await writer.drain()
                        await asyncio.sleep(0.02)
                if self.version == 3:
                    await self._write(writer, blob)
        except (asyncio.IncompleteReadError, ConnectionError, asyncio.CancelledError):
            pass
        finally:
            writer.close()


def random_state(rng):
    return dict(
        power_state=rng.random() < 0.5,
        operational_mode=rng.choice([AC.OperationalMode.AUTO, AC.OperationalMode.COOL, AC.OperationalMode.DRY,
                                     AC.OperationalMode.HEAT, AC.OperationalMode.FAN_ONLY]),
        target_temperature=rng.randrange(34, 61) / 2.0,
        fan_speed=rng.choice(list(AC.FanSpeed.list())),
        swing_mode=rng.choice(list(AC.SwingMode.list())),
        eco=rng.random() < 0.5, turbo=rng.random() < 0.5, sleep=rng.random() < 0.5,
        fahrenheit=rng.random() < 0.5, freeze_protection=rng.random() < 0.5, follow_me=rng.random() < 0.5,
        purifier=rng.random() < 0.5, target_humidity=rng.randrange(30, 71),
        aux_mode=rng.choice(list(AC.AuxHeatMode.list())),
    )


def device_view(sim):
    s = sim.state
    aux = AC.AuxHeatMode.AUX_ONLY if s["indep_aux"] else AC.AuxHeatMode.AUX_HEAT if s["aux"] else AC.AuxHeatMode.OFF
    return dict(power_state=s["power"], operational_mode=s["mode"], target_temperature=s["temp"], fan_speed=s["fan"],
                swing_mode=s["swing"], eco=s["eco"], turbo=s["turbo"], sleep=s["sleep"], fahrenheit=s["fahrenheit"],
                freeze_protection=s["freeze"], follow_me=s["follow_me"], purifier=s["purifier"],
                target_humidity=s["humidity"], aux_mode=aux)


def client_view(dev):
    return {f: getattr(dev, f) for f in FIELDS}


def same(a, b):
    return all(int(a[f]) == int(b[f]) if f != "target_temperature" else float(a[f]) == float(b[f]) for f in FIELDS)


FAILURES = []


def check(cond, what):
    if not cond:
        FAILURES.append(what)
        print("FAIL:", what)


async def new_client(sim):
    dev = AC(ip="127.0.0.1", port=sim.port, device_id=sim.device_id)
    if sim.version == 3:
        await dev.authenticate(sim.token.hex(), sim.key.hex())
    return dev


async def settle():
    """Let trailing unsolicited frames of the last exchange arrive before the next operation starts."""
    await asyncio.sleep(0.1)


async def apply_state(dev, state):
    for k, v in state.items():
        setattr(dev, k, v)
    await dev.apply()
    await settle()


async def refresh(dev):
    await dev.refresh()
    await settle()


async def scenario(version, seed):
    rng = random.Random(seed)
    token = bytes(rng.randrange(256) for _ in range(64))
    key = bytes(rng.randrange(256) for _ in range(32))
    sim = await SimDevice(version, rng.randrange(1, 2 ** 48), token, key, rng=random.Random(seed + 1),
                          chunk=rng.choice([None, 7, 40]) if version == 3 else None, unsolicited=0.4, duplicate=0.3).start()
    a = await new_client(sim)
    b = await new_client(sim)

    # 1. sequential apply / read back from a second client
    for _ in range(4):
        want = random_state(rng)
        await apply_state(a, want)
        check(same(device_view(sim), want), f"v{version} seed {seed}: applied state did not reach the device")
        check(same(client_view(a), want), f"v{version} seed {seed}: applying client does not show the applied state")
        sim.display_on = rng.random() < 0.5
        await refresh(b)
        check(same(client_view(b), device_view(sim)), f"v{version} seed {seed}: refresh differs from device")
        check(b.display_on == sim.display_on, f"v{version} seed {seed}: display differs")

    # 2. two tasks refresh the same object at once; afterwards it must show the device's state
    want = random_state(rng)
    await apply_state(b, want)
    await asyncio.gather(a.refresh(), a.refresh())
    await settle()
    check(same(client_view(a), device_view(sim)), f"v{version} seed {seed}: concurrent refresh differs from device")

    # 3. an operation is abandoned (cancelled) part way; the next sequential operations must be exact
    task = asyncio.ensure_future(a.refresh())
    await asyncio.sleep(0)
    task.cancel()
    try:
        await task
    except (asyncio.CancelledError, TimeoutError):
        pass
    await settle()
    want = random_state(rng)
    await apply_state(a, want)
    check(same(device_view(sim), want), f"v{version} seed {seed}: state after an abandoned operation did not reach device")
    await refresh(b)
    check(same(client_view(b), want), f"v{version} seed {seed}: refresh after an abandoned operation differs")

    # 4. an apply and a refresh of two different objects overlap
    want = random_state(rng)
    for k, v in want.items():
        setattr(a, k, v)
    await asyncio.gather(a.apply(), b.refresh())
    await settle()
    check(same(device_view(sim), want), f"v{version} seed {seed}: overlapped apply did not reach device")
    await refresh(b)
    check(same(client_view(b), want), f"v{version} seed {seed}: refresh after overlapped apply differs")

    await sim.stop()


async def main():
    for version in (2, 3):
        for seed in range(2):
            await asyncio.wait_for(scenario(version, seed * 10 + version), timeout=25)


if __name__ == "__main__":
    logging.basicConfig(level=logging.CRITICAL)
    asyncio.run(main())
    print("demo: %d failure(s)" % len(FAILURES))
    sys.exit(1 if FAILURES else 0)
