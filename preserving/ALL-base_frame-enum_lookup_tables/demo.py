"""Demo 4: MideaIntEnum conversions and the deprecated decorator."""
import asyncio
import logging
import sys
import warnings
from unittest.mock import patch

import msmart.crc8 as crc8
from msmart.device import AirConditioner as AC
from msmart.frame import Frame
from msmart.utils import MideaIntEnum, deprecated

warnings.simplefilter("ignore")
logging.basicConfig(level=logging.CRITICAL)

ENUMS = [AC.AuxHeatMode, AC.BreezeMode, AC.FanSpeed, AC.OperationalMode, AC.RateSelect, AC.SwingAngle, AC.SwingMode]


def check(cond, what):
    if not cond:
        print("FAIL:", what)
        sys.exit(1)
    print("ok:", what)


def oracle_value(enum, value, default=None):
    for member in enum.__members__.values():
        if type(value) in (int, float, bool) and member.value == value:
            return member
    return enum.DEFAULT if default is None else default


def state_frame(mode, fan, swing):
    base = bytearray.fromhex("aa23ac00000000000303c00145660000003c0010045c6b20000000000000000000020d79")
    payload = base[10:-1]
    payload[2] = (payload[2] & 0x1F) | (mode << 5)
    payload[3] = fan
    payload[7] = (payload[7] & 0xF0) | swing
    payload[-1] = crc8.calculate(payload[:-1])
    frame = base[:10] + payload
    return bytes(frame) + bytes([Frame.checksum(frame[1:])])


async def main():
    values = list(range(-3, 300)) + [1234567, None, "", "2", "AUTO", 2.0, 2.5, True, False, b"\x02", (2,), [2]]
    for enum in ENUMS:
        ok = all(enum.get_from_value(v) is oracle_value(enum, v) for v in values)
        ok = ok and all(type(enum.get_from_value(v)) is enum for v in values)
        members = list(enum)
        ok = ok and all(enum.get_from_value(v, members[-1]) is oracle_value(enum, v, members[-1]) for v in values)
        ok = ok and all(enum.get_from_value(v, int(members[-1])) is oracle_value(enum, v, members[-1]) for v in values)
        check(ok, f"{enum.__name__}.get_from_value agrees with the member table for {len(values)} inputs")

        ok = all(enum.get_from_name(m.name) is m for m in members)
        ok = ok and enum.get_from_name("DEFAULT") is enum.DEFAULT
        ok = ok and all(enum.get_from_name(n) is enum.DEFAULT for n in ("INVALID_NAME", "", None, "123", "_", "AUTO1"))
        ok = ok and all(enum.get_from_name(n, members[-1]) is members[-1] for n in ("INVALID_NAME", "", None))
        ok = ok and enum.list() == members and isinstance(enum.list(), list) and enum.list() is not enum.list()
        ok = ok and issubclass(enum, MideaIntEnum) and all(isinstance(m, int) for m in members)
        check(ok, f"{enum.__name__}.get_from_name / list")

    # The conversions as used when a state response is decoded
    for custom in (True, False):
        dev = AC("0.0.0.0", 0, 0)
        dev._supports_custom_fan_speed = custom
        ok = True
        for mode in range(8):
            for fan in (0, 1, 20, 40, 50, 60, 80, 100, 101, 102, 127):
                for swing in (0x0, 0x3, 0x5, 0xC, 0xF):
                    with patch("msmart.base_device.Device._send_command", return_value=[state_frame(mode, fan, swing)]):
                        await dev.refresh()
                    ok = ok and dev.online and dev.supported
                    ok = ok and dev.operational_mode is oracle_value(AC.OperationalMode, mode)
                    ok = ok and dev.swing_mode is oracle_value(AC.SwingMode, swing)
                    if custom and fan not in list(AC.FanSpeed):
                        ok = ok and dev.fan_speed == fan and type(dev.fan_speed) is int
                    else:
                        ok = ok and dev.fan_speed is oracle_value(AC.FanSpeed, fan)
        check(ok, f"refresh maps every reported mode / fan / swing value to the member or the default (custom fan {custom})")

    # Deprecated aliases keep working and say so once per function
    class Handler(logging.Handler):
        records = []

        def emit(self, record):
            Handler.records.append(record.getMessage())

    handler = Handler()
    for name in ("msmart", __name__):
        logging.getLogger(name).addHandler(handler)
        logging.getLogger(name).setLevel(logging.DEBUG)
        logging.getLogger(name).propagate = False

    dev = AC("0.0.0.0", 0, 0)
    for _ in range(3):
        dev.eco_mode = True
        check(dev.eco is True and dev.eco_mode is True, "deprecated eco_mode setter/getter act on eco")
        dev.turbo_mode = False
    check(dev.supports_eco_mode == dev.supports_eco and dev.sleep_mode == dev.sleep, "deprecated getters return the new value")
    for name, new in (("eco_mode", "eco"), ("turbo_mode", "turbo"), ("supports_eco_mode", "supports_eco")):
        hits = [m for m in Handler.records if f"'{name}' is deprecated" in m and f"'{new}'" in m]
        expected = 2 if name == "eco_mode" else 1  # getter and setter are separate functions
        check(len(hits) == expected, f"{name}: deprecation logged once per function ({len(hits)})")

    @deprecated("new_thing")
    def old_thing(a, b=2):
        """Doc."""
        return a + b

    check(old_thing(1) == 3 and old_thing(1, b=5) == 6 and old_thing.__name__ == "old_thing" and old_thing.__doc__ == "Doc.",
          "decorated function keeps behaviour, name and doc")
    hits = [m for m in Handler.records if "'old_thing' is deprecated. Please use 'new_thing' instead." in m]
    check(len(hits) == 1, "plain function: deprecation logged once")
    print("demo 4 passed")

asyncio.run(main())
