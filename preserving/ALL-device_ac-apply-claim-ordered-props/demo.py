"""Demo for change 2 (apply: property changes claimed up front, ordered write, buzzer first).

Drives setters / apply / refresh against a small simulated device that keeps state and
properties. Independent of the order of entries inside a property write. Passes on the
original code and with the change applied.
"""
import asyncio
import logging
import struct
import sys

import msmart.crc8 as crc8
from msmart.const import FrameType
from msmart.device import AirConditioner as AC
from msmart.device.AC.command import PropertyId
from msmart.frame import Frame

logging.disable(logging.CRITICAL)


def frame(body: bytes, frame_type=FrameType.QUERY) -> bytes:
    body = bytes(body)
    body += bytes([crc8.calculate(body)])
    hdr = bytearray(10)
    hdr[0], hdr[1], hdr[2], hdr[9] = 0xAA, len(body) + 10, 0xAC, frame_type
    f = bytearray(hdr + body)
    f.append(Frame.checksum(f[1:]))
    return bytes(f)


class SimDevice:
    """Keeps the last written control body and a property store."""

    def __init__(self, props: dict):
        self.props = dict(props)       # id -> raw bytes
        self.control = None            # last 0x40 body
        self.sent = []
        self.writes = []               # list of parsed property writes [(id, raw), ...]
        self.token = None
        self.key = None

    def state_frame(self) -> bytes:
        b = bytearray(24)
        b[0] = 0xC0
        c = self.control
        if c is not None:
            b[1] = c[1] & 0x1
            b[2] = c[2]
            b[3] = c[3]
            b[7] = c[7]
            b[8] = c[8] & 0xA0 | (0x40 if c[22] & 0x08 else 0)
            b[9] = (0x10 if c[9] & 0x80 else 0) | (c[9] & 0x28)
            b[10] = c[10] & 0x7
            b[13] = c[18] & 0x1F
            b[19] = c[19]
            b[21] = c[21]
        b[11] = b[12] = 0xFF
        return frame(b)

    def props_frame(self, rid: int, ids) -> bytes:
        b = bytearray([rid, 0])
        n = 0
        for pid in ids:
            if pid in self.props:
                raw = self.props[pid]
                b += struct.pack("<H", pid) + bytes([0x00, len(raw)]) + raw
                n += 1
        b[1] = n
        b += bytes([0x09])
        return frame(b)

    async def send(self, data: bytes, retries: int = 3):
        assert data[0] == 0xAA and data[1] == len(data) - 1 and data[2] == 0xAC
        assert Frame.checksum(data[1:-1]) == data[-1]
        assert crc8.calculate(data[10:-2]) == data[-2]
        self.sent.append(data)
        await asyncio.sleep(0)
        body = data[10:-2]  # without crc, with message id
        if body[0] == 0x40:
            assert data[9] == FrameType.CONTROL
            self.control = bytes(body)
            return [self.state_frame()]
        if body[0] == 0x41:
            return [self.state_frame()]
        if body[0] == 0xB1:
            n = body[1]
            ids = [struct.unpack("<H", body[2 + 2 * i:4 + 2 * i])[0] for i in range(n)]
            return [self.props_frame(0xB1, ids)]
        if body[0] == 0xB0:
            assert data[9] == FrameType.CONTROL
            n = body[1]
            rest = body[2:-1]
            items = []
            for _ in range(n):
                pid, size = struct.unpack("<H", rest[0:2])[0], rest[2]
                raw = bytes(rest[3:3 + size])
                assert len(raw) == size
                items.append((pid, raw))
                rest = rest[3 + size:]
            assert len(rest) == 0, "trailing bytes in property write"
            self.writes.append(items)
            for pid, raw in items:
                if pid == PropertyId.IECO:
                    self.props[pid] = bytes([raw[1], raw[2]])  # number, switch
                elif pid != PropertyId.BUZZER:
                    self.props[pid] = raw
            return [self.props_frame(0xB0, [p for p, _ in items])]
        return []


def check_ids(sent):
    ids = [f[-3] for f in sent]
    for a, b in zip(ids, ids[1:]):
        assert b == (a + 1) & 0xFF, ids


def only_write(sim: SimDevice, n_before: int) -> dict:
    """Exactly one property write since n_before; each id once; returns it as a dict."""
    assert len(sim.writes) == n_before + 1, (len(sim.writes), n_before)
    items = sim.writes[-1]
    d = dict(items)
    assert len(d) == len(items), "duplicate id in one write"
    return d


async def main():
    # --- Profile A: breeze control, 5 level rate select, iECO, both angles
    advertised = {PropertyId.SWING_UD_ANGLE: b"\x00", PropertyId.SWING_LR_ANGLE: b"\x00",
                  PropertyId.RATE_SELECT: b"\x64", PropertyId.BREEZE_CONTROL: b"\x01",
                  PropertyId.IECO: b"\x01\x00", PropertyId.SELF_CLEAN: b"\x00"}
    sim = SimDevice(advertised)
    dev = AC("10.0.0.2", 77, 6444)
    dev._lan = sim
    dev._supported_properties.update(advertised.keys())

    await dev.refresh()
    assert dev.online

    # Apply with nothing changed: state write only
    await dev.apply()
    assert len(sim.writes) == 0
    assert sum(1 for f in sim.sent if f[10] == 0x40) == 1

    # Change state and three properties, with the buzzer on
    dev.beep = True
    dev.power_state = True
    dev.operational_mode = AC.OperationalMode.HEAT
    dev.target_temperature = 23.5
    dev.fan_speed = 47
    dev.swing_mode = AC.SwingMode.BOTH
    dev.eco = True
    dev.vertical_swing_angle = AC.SwingAngle.POS_4
    dev.rate_select = AC.RateSelect.LEVEL_2
    dev.breeze_mild = True
    n_state = sum(1 for f in sim.sent if f[10] == 0x40)
    await dev.apply()
    assert sum(1 for f in sim.sent if f[10] == 0x40) == n_state + 1
    w = only_write(sim, 0)
    assert w == {PropertyId.BUZZER: b"\x01", PropertyId.SWING_UD_ANGLE: bytes([75]),
                 PropertyId.RATE_SELECT: bytes([20]), PropertyId.BREEZE_CONTROL: bytes([3])}, w
    c = sim.control
    assert c[1] & 0x40 and c[1] & 0x1 and (c[2] >> 5) == 4 and (c[2] & 0x1F) == 0x10 | 7
    assert c[3] == 47 and (c[7] & 0xF) == 0xF and c[9] & 0x80

    # Next apply: nothing pending -> no property write
    await dev.apply()
    assert len(sim.writes) == 1

    # Read back on a fresh client instance
    other = AC("10.0.0.2", 77, 6444)
    other._lan = sim
    other._supported_properties.update(advertised.keys())
    await other.refresh()
    assert other.vertical_swing_angle == AC.SwingAngle.POS_4
    assert other.rate_select == AC.RateSelect.LEVEL_2
    assert other.breeze_mild and not other.breeze_away and not other.breezeless
    assert other.target_temperature == 23.5 and other.fan_speed == 47
    assert other.operational_mode == AC.OperationalMode.HEAT and other.eco is True

    # Same setting changed twice before one apply: one entry, last value
    dev.beep = False
    dev.horizontal_swing_angle = AC.SwingAngle.POS_1
    dev.horizontal_swing_angle = AC.SwingAngle.POS_5
    dev.ieco = True
    dev.breezeless = True
    await dev.apply()
    w = only_write(sim, 1)
    assert w == {PropertyId.BUZZER: b"\x00", PropertyId.SWING_LR_ANGLE: bytes([100]),
                 PropertyId.IECO: bytes([0, 1, 1]) + bytes(10),
                 PropertyId.BREEZE_CONTROL: bytes([4])}, w
    await dev.refresh()
    assert dev.horizontal_swing_angle == AC.SwingAngle.POS_5 and dev.ieco is True
    assert dev.breezeless and not dev.breeze_mild and not dev.breeze_away
    assert dev.vertical_swing_angle == AC.SwingAngle.POS_4

    # Self clean goes out as its own single write with the buzzer
    await dev.start_self_clean()
    w = only_write(sim, 2)
    assert w == {PropertyId.BUZZER: b"\x00", PropertyId.SELF_CLEAN: b"\x01"}, w
    await dev.refresh()
    assert dev.self_clean_active is True

    await dev.apply()
    assert len(sim.writes) == 3
    check_ids(sim.sent)

    # --- Profile B: legacy breeze away / breezeless, 2 level rate select
    advertised = {PropertyId.BREEZE_AWAY: b"\x01", PropertyId.BREEZELESS: b"\x00",
                  PropertyId.RATE_SELECT: b"\x64"}
    sim = SimDevice(advertised)
    dev = AC("10.0.0.3", 78, 6444)
    dev._lan = sim
    dev._supported_properties.update(advertised.keys())
    await dev.refresh()

    dev.breeze_away = True
    dev.rate_select = AC.RateSelect.GEAR_75
    await dev.apply()
    w = only_write(sim, 0)
    assert w == {PropertyId.BUZZER: b"\x00", PropertyId.BREEZE_AWAY: b"\x02",
                 PropertyId.RATE_SELECT: bytes([75])}, w
    await dev.refresh()
    assert dev.breeze_away and not dev.breezeless and not dev.breeze_mild
    assert dev.rate_select == AC.RateSelect.GEAR_75

    dev.breeze_away = False
    await dev.apply()
    w = only_write(sim, 1)
    assert w == {PropertyId.BUZZER: b"\x00", PropertyId.BREEZE_AWAY: b"\x01"}, w
    await dev.refresh()
    assert not dev.breeze_away and not dev.breezeless

    # Device that never answers: apply returns, the write was still attempted once,
    # and a later apply does not repeat it
    class Silent(SimDevice):
        async def send(self, data, retries=3):
            await super().send(data, retries)
            raise TimeoutError("No response from host.")

    sim = Silent({PropertyId.IECO: b"\x01\x00"})
    dev = AC("10.0.0.4", 79, 6444)
    dev._lan = sim
    dev._supported_properties.add(PropertyId.IECO)
    dev.ieco = True
    await dev.apply()
    assert len(sim.writes) == 1 and dict(sim.writes[0])[PropertyId.IECO][2] == 1
    await dev.apply()
    assert len(sim.writes) == 1
    check_ids(sim.sent)

    print("demo2 OK")


if __name__ == "__main__":
    asyncio.run(main())
    sys.exit(0)
