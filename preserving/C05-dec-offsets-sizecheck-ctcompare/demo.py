"""C05 demonstration 2: encrypted response decoder - every length, every bit flip, stream path.

An independent V3 implementation (written here from the protocol description, using
only pycryptodome AES and hashlib) decodes the requests built by the library and
builds responses the library has to decode. Exits 0 when everything holds.
"""
import logging
import os
import random
import sys
from hashlib import sha256

from Crypto.Cipher import AES

from msmart.lan import ProtocolError, _LanProtocolV3, _Packet

REQ, RSP = 0x6, 0x3

logging.disable(logging.CRITICAL)


def ref_decode_request(key: bytes, packet: bytes):
    """Independent decoder. Returns (counter, payload) after checking every field."""
    assert packet[:2] == b"\x83\x70", "marker"
    size = int.from_bytes(packet[2:4], "big")
    assert packet[4] == 0x20, "magic"
    pad, ptype = packet[5] >> 4, packet[5] & 0xF
    assert ptype == REQ, f"type {ptype}"
    assert len(packet) == size + 8, f"size field {size} vs packet {len(packet)}"
    body, tag = packet[6:-32], packet[-32:]
    assert len(body) % 16 == 0 and len(body) >= 16, "block alignment"
    plain = AES.new(key, AES.MODE_CBC, iv=bytes(16)).decrypt(body)
    assert sha256(packet[:6] + plain).digest() == tag, "tag"
    assert 0 <= pad <= 15 and pad <= len(plain) - 2, "pad"
    data = plain[2:len(plain) - pad]
    # size field covers data + pad + tag, not the counter
    assert size == len(data) + pad + 32, "size/pad consistency"
    # minimal padding
    assert pad == (16 - (len(data) + 2) % 16) % 16, "pad amount"
    return int.from_bytes(plain[:2], "big"), data


def ref_encode_response(key: bytes, counter: int, data: bytes, ptype: int = RSP) -> bytes:
    """Independent encoder for a device response."""
    pad = (16 - (len(data) + 2) % 16) % 16
    header = b"\x83\x70" + (len(data) + pad + 32).to_bytes(2, "big") + \
        b"\x20" + bytes([pad << 4 | ptype])
    plain = counter.to_bytes(2, "big") + data + os.urandom(pad)
    body = AES.new(key, AES.MODE_CBC, iv=bytes(16)).encrypt(plain)
    return header + body + sha256(header + plain).digest()


def proto_with_key(key: bytes) -> _LanProtocolV3:
    p = _LanProtocolV3()
    p._local_key = key
    return p


def check_requests(rng: random.Random) -> None:
    residues = set()
    for length in range(0, 301):
        key = rng.randbytes(32)
        p = proto_with_key(key)
        data = rng.randbytes(length)
        counters = {0, 4095, rng.randrange(4096), length % 4096}
        for counter in counters:
            for form in (bytes, bytearray, memoryview):
                packet = p._encode_encrypted_request(counter, form(data))
                assert isinstance(packet, bytes)
                got_counter, got = ref_decode_request(key, packet)
                assert got_counter == counter, (length, counter, got_counter)
                assert got == data, (length, counter)
        residues.add((length + 2) % 16)
    assert residues == set(range(16))

    # Every counter value with one key, three lengths (pad 0, 1, 15)
    key = rng.randbytes(32)
    p = proto_with_key(key)
    for length in (14, 13, 15):
        data = rng.randbytes(length)
        for counter in range(4096):
            c, d = ref_decode_request(key, p._encode_encrypted_request(counter, data))
            assert (c, d) == (counter, data)


def check_responses(rng: random.Random) -> None:
    for length in range(0, 301):
        key = rng.randbytes(32)
        p = proto_with_key(key)
        data = rng.randbytes(length)
        packet = ref_encode_response(key, rng.randrange(4096), data)
        with memoryview(packet) as mv:
            assert p._process_packet(mv) == data, length


def rejected(p: _LanProtocolV3, packet: bytes) -> bool:
    """True when the packet is refused with a ProtocolError on the way LAN.send takes."""
    try:
        with memoryview(packet) as mv:
            out = p._process_packet(mv)
        _Packet.decode(out)
    except ProtocolError:
        return True
    return False


def check_tamper(rng: random.Random) -> None:
    for length in (0, 1, 13, 14, 15, 16, 30, 46, 104):
        key = rng.randbytes(32)
        p = proto_with_key(key)
        data = rng.randbytes(length)
        packet = ref_encode_response(key, rng.randrange(4096), data)
        with memoryview(packet) as mv:
            assert p._process_packet(mv) == data
        for bit in range(len(packet) * 8):
            bad = bytearray(packet)
            bad[bit // 8] ^= 1 << (bit % 8)
            assert rejected(p, bytes(bad)), (length, bit)


def check_wire(rng: random.Random) -> None:
    """Requests as written to the transport by write(): counter advances, all decodable."""
    class Transport:
        def __init__(self):
            self.sent = []

        def is_closing(self):
            return False

        def write(self, data):
            self.sent.append(bytes(data))

        def get_extra_info(self, name):
            return ("192.0.2.1", 6444)

        def close(self):
            pass

    key = rng.randbytes(32)
    p = proto_with_key(key)
    t = Transport()
    p.connection_made(t)
    start = p._packet_id
    datas = [rng.randbytes(rng.randrange(0, 301)) for _ in range(40)]
    for d in datas:
        p.write(d)
    assert len(t.sent) == len(datas)
    for i, (d, pkt) in enumerate(zip(datas, t.sent)):
        c, got = ref_decode_request(key, pkt)
        assert got == d
        assert c == (start + i) & 0xFFF


def check_decoder_forms(rng: random.Random) -> None:
    """bytes and memoryview input, direct decoder call and type dispatch agree."""
    for length in range(0, 301, 7):
        key = rng.randbytes(32)
        p = proto_with_key(key)
        data = rng.randbytes(length)
        packet = ref_encode_response(key, rng.randrange(4096), data)
        with memoryview(packet) as mv:
            assert p._decode_encrypted_response(mv) == data
            out = p._process_packet(mv)
        assert out == data and isinstance(out, bytes)
        with memoryview(bytearray(packet)) as mv:
            assert p._process_packet(mv) == data
        # the library's own requests go through its own decoder as well (as the repo test does)
        req = p._encode_encrypted_request(length, data)
        with memoryview(req) as mv:
            assert p._decode_encrypted_response(mv) == data


def check_malformed(rng: random.Random) -> None:
    """Truncated / extended / wrong-key packets are refused with ProtocolError."""
    key = rng.randbytes(32)
    p = proto_with_key(key)
    for length in (0, 14, 40):
        packet = ref_encode_response(key, 7, rng.randbytes(length))
        variants = [packet[:-1], packet[:-16], packet[:-32], packet + b"\x00",
                    packet + bytes(16), packet[:6] + packet[22:]]
        for bad in variants:
            if len(bad) < 6:
                continue
            assert rejected(p, bad), (length, len(bad))
        other = proto_with_key(rng.randbytes(32))
        assert rejected(other, packet)


def check_stream(rng: random.Random) -> None:
    """Responses delivered through data_received in arbitrary chunks are read back in order."""
    import asyncio

    async def run() -> None:
        key = rng.randbytes(32)
        p = proto_with_key(key)
        datas = [rng.randbytes(n) for n in (0, 1, 13, 14, 15, 16, 29, 30, 104, 300)]
        stream = b"".join(ref_encode_response(key, i, d) for i, d in enumerate(datas))
        pos = 0
        while pos < len(stream):
            n = rng.randrange(1, 60)
            p.data_received(stream[pos:pos + n])
            pos += n
        for d in datas:
            assert await p.read(timeout=1) == d
        # a tampered packet in the stream is refused by read()
        bad = bytearray(ref_encode_response(key, 1, datas[5]))
        bad[20] ^= 0x10
        p.data_received(bytes(bad))
        try:
            await p.read(timeout=1)
        except ProtocolError:
            pass
        else:
            raise AssertionError("tampered packet accepted")

    asyncio.run(run())


def main() -> int:
    rng = random.Random(0xC05)
    check_requests(rng)
    check_responses(rng)
    check_tamper(rng)
    check_wire(rng)
    check_decoder_forms(rng)
    check_malformed(rng)
    check_stream(rng)

    # No key: encoder and decoder both refuse with ProtocolError
    p = _LanProtocolV3()
    for f in (lambda: p._encode_encrypted_request(1, b"abc"),
              lambda: p._process_packet(memoryview(ref_encode_response(bytes(32), 0, b"abc")))):
        try:
            f()
        except ProtocolError:
            pass
        else:
            print("missing ProtocolError without key")
            return 1

    print("demo2 OK")
    return 0


if __name__ == "__main__":
    sys.exit(main())
