"""C09 demonstration: whatever the peer sends, LAN.send / LAN.authenticate end in decoded frames,
a ProtocolError (incl. AuthenticationError) or a TimeoutError, and device-level operations never crash.

A byte-level adversarial peer is simulated with a TCP server on the loopback interface. The peer
implements enough of the V2/V3 protocol (independently of the library) to answer with valid traffic and
with grammar-aware mutations of it. All cases run concurrently, total runtime is roughly 10 seconds.

EMPHASIS selects which extra cases are added (framer segmentation, V2 codec boundaries, transport paths).
"""
import asyncio
import logging
import os
import random
import sys
from hashlib import md5, sha256

from Crypto.Cipher import AES

from msmart.device import AirConditioner
from msmart.lan import LAN, AuthenticationError, ProtocolError

EMPHASIS = "transport"

logging.disable(logging.CRITICAL)

SIGN_KEY = b"xhdiwjnchekd4d512chdjx5d8e4c394D2D7S"
ENC_KEY = md5(SIGN_KEY).digest()
FRAME = bytes.fromhex(
    "aa23ac00000000000303c00145660000003c0010045c6800000000000000000000018426")
TOKEN = bytes(range(64))
KEY = bytes(range(100, 132))
RNG = random.Random(0xC09)


def rnd(n: int) -> bytes:
    return bytes(RNG.getrandbits(8) for _ in range(n))


# ---------------------------------------------------------------- independent packet builders
def pkcs7(data: bytes) -> bytes:
    n = 16 - len(data) % 16
    return data + bytes([n]) * n


def v2_packet(frame: bytes = FRAME, *, payload=None, length=None, sign=True, start=b"\x5a\x5a") -> bytes:
    enc = AES.new(ENC_KEY, AES.MODE_ECB).encrypt(
        pkcs7(frame)) if payload is None else payload
    total = 40 + len(enc) + 16 if length is None else length
    hdr = start + b"\x01\x11" + (total & 0xFFFF).to_bytes(2, "little") + b"\x20\x80"
    hdr += bytes(4) + bytes(8) + (1).to_bytes(8, "little") + bytes(12)
    body = hdr + enc
    return body + (md5(body + SIGN_KEY).digest() if sign else rnd(16))


def v2_signed_prefix(length: int) -> bytes:
    """A packet whose length field is `length` and whose last 16 bytes correctly sign the rest."""
    body = bytearray(b"\x5a\x5a\x01\x11" + length.to_bytes(2, "little") + rnd(max(0, length - 22)))
    body = bytes(body[:max(6, length - 16)])
    return body + md5(body + SIGN_KEY).digest()


def cbc(key: bytes):
    return AES.new(key, AES.MODE_CBC, iv=bytes(16))


def v3_handshake(key: bytes = KEY, *, plain=None, good_hash=True, ptype=1, size=None, magic=0x20, body=None):
    plain = rnd(32) if plain is None else plain
    if body is None:
        body = cbc(key).encrypt(plain) + (sha256(plain).digest() if good_hash else rnd(32))
    sz = len(body) if size is None else size
    local_key = bytes(a ^ b for a, b in zip(plain, key))
    return b"\x83\x70" + sz.to_bytes(2, "big") + bytes([magic, ptype]) + b"\x00\x01" + body, local_key


def v3_encrypted(local_key: bytes, inner: bytes, *, ptype=3, pad=None, size=None, good_hash=True,
                 magic=0x20, cipher=None, start=b"\x83\x70") -> bytes:
    p = (16 - (len(inner) + 2) % 16) % 16
    plain = b"\x00\x07" + inner + rnd(p)
    if cipher is not None:
        # Correct signature over arbitrary ciphertext (when it is block aligned)
        plain = cbc(local_key).decrypt(cipher + bytes((-len(cipher)) % 16))[:len(cipher)]
    else:
        cipher = cbc(local_key).encrypt(plain)
    sz = len(cipher) - 2 + 32 if size is None else size
    header = start + (sz & 0xFFFF).to_bytes(2, "big") + \
        bytes([magic, ((p if pad is None else pad) << 4) | ptype])
    digest = sha256(header + plain).digest() if good_hash else rnd(32)
    return header + cipher + digest


# ---------------------------------------------------------------- simulated peer
class Peer:
    """TCP peer. `hs(key)` -> (handshake reply bytes, local key); `resp(local_key, n)` -> reply or list of chunks."""

    def __init__(self, version, resp, hs=None):
        self.version, self.resp, self.hs = version, resp, hs or (lambda: v3_handshake())
        self.local_key = None
        self.requests = 0
        self.server = None

    async def start(self) -> int:
        self.server = await asyncio.start_server(self._handle, "127.0.0.1", 0)
        return self.server.sockets[0].getsockname()[1]

    async def stop(self) -> None:
        self.server.close()

    async def _handle(self, reader, writer) -> None:
        try:
            while True:
                data = await reader.read(65536)
                if not data:
                    break
                if self.version == 3 and data[:2] == b"\x83\x70" and data[5] & 0xF == 0:
                    reply, self.local_key = self.hs()
                else:
                    self.requests += 1
                    reply = self.resp(self.local_key or bytes(32), self.requests)
                for chunk in (reply if isinstance(reply, list) else [reply]):
                    if chunk:
                        writer.write(chunk)
                        await writer.drain()
                        await asyncio.sleep(0.01)
        except (ConnectionError, OSError):
            pass
        finally:
            writer.close()


ALLOWED = (ProtocolError, TimeoutError)  # AuthenticationError is a ProtocolError
results = []


async def run_case(name, version, resp, *, hs=None, op="send", expect=None):
    peer = Peer(version, resp, hs)
    port = await peer.start()
    outcome = None
    try:
        if op in ("send", "send3", "auth"):
            lan = LAN("127.0.0.1", port, 1)
            try:
                if version == 3:
                    await lan.authenticate(TOKEN, KEY)
                    outcome = "authenticated"
                if op == "send":
                    frames = await lan.send(FRAME)
                    assert isinstance(frames, list) and all(isinstance(f, bytes) for f in frames)
                    outcome = "frames" if frames else "empty"
                if op == "send3":
                    # Three exchanges on the same LAN object, each must end in an allowed way on its own
                    parts = []
                    for _ in range(3):
                        try:
                            frames = await lan.send(FRAME, retries=1)
                            assert isinstance(frames, list) and all(isinstance(f, bytes) for f in frames)
                            parts.append(f"frames{len(frames)}")
                        except ALLOWED as e:
                            parts.append("timeout" if isinstance(e, TimeoutError) else type(e).__name__)
                        await asyncio.sleep(0.1)
                    outcome = "/".join(parts)
            except ALLOWED as e:
                outcome = "timeout" if isinstance(e, TimeoutError) else type(e).__name__
            finally:
                try:
                    lan._disconnect()
                except Exception:  # pylint: disable=broad-except
                    pass
        else:
            dev = AirConditioner(ip="127.0.0.1", port=port, device_id=1)
            try:
                if version == 3:
                    await dev.authenticate(TOKEN.hex(), KEY.hex())
                await dev.refresh()  # Must never raise
                outcome = "online" if dev.online else "offline"
            except AuthenticationError:
                outcome = "AuthenticationError"
            finally:
                try:
                    dev._lan._disconnect()
                except Exception:  # pylint: disable=broad-except
                    pass
    except BaseException as e:  # pylint: disable=broad-except
        outcome = f"ESCAPED {type(e).__name__}: {e}"
    finally:
        await peer.stop()

    ok = not outcome.startswith("ESCAPED") and (expect is None or outcome in expect)
    results.append((ok, name, outcome, expect))


def cases():
    good2 = v2_packet()
    c = []
    # ---- valid traffic yields frames
    c.append(("v2 valid", 2, lambda k, n: good2, dict(expect=("frames",))))
    c.append(("v3 valid", 3, lambda k, n: v3_encrypted(k, good2), dict(expect=("frames",))))
    c.append(("v2 device valid", 2, lambda k, n: good2, dict(op="device", expect=("online",))))
    c.append(("v3 device valid", 3, lambda k, n: v3_encrypted(k, good2), dict(op="device", expect=("online",))))
    # ---- V2 malformed
    c.append(("v2 random", 2, lambda k, n: rnd(80), {}))
    c.append(("v2 short", 2, lambda k, n: b"\x5a\x5a\x01", {}))
    c.append(("v2 bad sign", 2, lambda k, n: v2_packet(sign=False), {}))
    c.append(("v2 truncated", 2, lambda k, n: good2[:-5], {}))
    c.append(("v2 signed garbage payload", 2, lambda k, n: v2_packet(payload=rnd(48)), {}))
    c.append(("v2 signed payload not block multiple", 2, lambda k, n: v2_packet(payload=rnd(37)), {}))
    c.append(("v2 signed empty payload", 2, lambda k, n: v2_packet(payload=b""), {}))
    for length in (0, 6, 15, 16, 17, 40, 55, 56, 57, 71):
        c.append((f"v2 signed length={length}", 2, lambda k, n, L=length: v2_signed_prefix(L), {}))
    c.append(("v2 length 0xffff", 2, lambda k, n: v2_packet(length=0xFFFF), {}))
    c.append(("v2 device garbage", 2, lambda k, n: v2_packet(payload=rnd(32)), dict(op="device", expect=("offline",))))
    c.append(("v2 device silent", 2, lambda k, n: b"", dict(op="device", expect=("offline",))))
    # ---- V3 handshake phase
    c.append(("v3 hs bad hash", 3, lambda k, n: b"", dict(op="auth", hs=lambda: v3_handshake(good_hash=False))))
    c.append(("v3 hs short body", 3, lambda k, n: b"", dict(op="auth", hs=lambda: v3_handshake(body=rnd(63)))))
    c.append(("v3 hs long body", 3, lambda k, n: b"", dict(op="auth", hs=lambda: v3_handshake(body=rnd(65)))))
    c.append(("v3 hs empty body", 3, lambda k, n: b"", dict(op="auth", hs=lambda: v3_handshake(body=b""))))
    c.append(("v3 hs bad magic", 3, lambda k, n: b"", dict(op="auth", hs=lambda: v3_handshake(magic=0x21))))
    c.append(("v3 hs silent", 3, lambda k, n: b"", dict(op="auth", hs=lambda: (b"", None), expect=("timeout",))))
    c.append(("v3 hs random", 3, lambda k, n: b"", dict(op="auth", hs=lambda: (rnd(72), None))))
    for t in range(16):
        c.append((f"v3 hs type {t:x}", 3, lambda k, n: b"", dict(op="auth", hs=lambda t=t: v3_handshake(ptype=t))))
        c.append((f"v3 hs encrypted-looking type {t:x}", 3, lambda k, n: b"",
                  dict(op="auth", hs=lambda t=t: (v3_encrypted(bytes(32), good2, ptype=t), None))))
    c.append(("v3 device hs garbage", 3, lambda k, n: b"",
              dict(op="device", hs=lambda: v3_handshake(good_hash=False), expect=("AuthenticationError",))))
    # ---- V3 data phase
    for t in range(16):
        c.append((f"v3 data type {t:x}", 3, lambda k, n, t=t: v3_encrypted(k, good2, ptype=t), {}))
    for pad in range(16):
        c.append((f"v3 pad nibble {pad}", 3, lambda k, n, p=pad: v3_encrypted(k, good2, pad=p), {}))
    c.append(("v3 bad hash", 3, lambda k, n: v3_encrypted(k, good2, good_hash=False), {}))
    c.append(("v3 bad magic", 3, lambda k, n: v3_encrypted(k, good2, magic=0), {}))
    c.append(("v3 signed random cipher", 3, lambda k, n: v3_encrypted(k, b"", cipher=rnd(64)), {}))
    c.append(("v3 signed empty cipher", 3, lambda k, n: v3_encrypted(k, b"", cipher=b""), {}))
    for clen in (1, 15, 17, 31, 33):
        c.append((f"v3 cipher len {clen}", 3, lambda k, n, L=clen: v3_encrypted(k, b"", cipher=rnd(L)), {}))
    for size in (0, 1, 23, 24, 25, 30, 31, 32, 33, 47, 48):
        c.append((f"v3 size field {size}", 3, lambda k, n, s=size: v3_encrypted(k, good2, size=s), {}))
    c.append(("v3 size field 0xffff", 3, lambda k, n: v3_encrypted(k, good2, size=0xFFFF), dict(expect=("timeout",))))
    c.append(("v3 inner garbage", 3, lambda k, n: v3_encrypted(k, rnd(70)), {}))
    c.append(("v3 inner bad sign", 3, lambda k, n: v3_encrypted(k, v2_packet(sign=False)), {}))
    c.append(("v3 inner bad padding", 3, lambda k, n: v3_encrypted(k, v2_packet(payload=rnd(32))), {}))
    c.append(("v3 inner empty", 3, lambda k, n: v3_encrypted(k, b""), {}))
    c.append(("v3 random", 3, lambda k, n: rnd(120), {}))
    c.append(("v3 raw v2 packet", 3, lambda k, n: good2, {}))
    c.append(("v3 device garbage", 3, lambda k, n: v3_encrypted(k, rnd(70)), dict(op="device", expect=("offline",))))
    c.append(("v3 device wrong type", 3, lambda k, n: v3_encrypted(k, good2, ptype=0xF), dict(op="device", expect=("offline",))))
    c.append(("v3 device silent", 3, lambda k, n: b"", dict(op="device", expect=("offline",))))

    if EMPHASIS == "framer":
        pkt = lambda k: v3_encrypted(k, good2)
        c.append(("v3 bytewise", 3, lambda k, n: [bytes([b]) for b in pkt(k)], dict(expect=("frames",))))
        c.append(("v3 junk before", 3, lambda k, n: b"\x00\x11\x83" + pkt(k), dict(expect=("frames",))))
        c.append(("v3 junk then packet later", 3, lambda k, n: [b"\xaa" * 40, b"\x55\x83", pkt(k)], dict(expect=("frames",))))
        c.append(("v3 marker split over chunks", 3, lambda k, n: [b"\x01\x02\x83", pkt(k)[1:]], dict(expect=("frames",))))
        c.append(("v3 marker split 83|83 70", 3, lambda k, n: [b"\x83", b"\x83", pkt(k)[1:]], {}))
        c.append(("v3 two packets one chunk", 3, lambda k, n: pkt(k) + pkt(k), dict(expect=("frames",))))
        c.append(("v3 two packets odd split", 3, lambda k, n: [(pkt(k) + pkt(k))[:101], (pkt(k) + pkt(k))[101:]], {}))
        c.append(("v3 good then garbage", 3, lambda k, n: pkt(k) + rnd(50), {}))
        c.append(("v3 garbage packet then good", 3, lambda k, n: v3_encrypted(k, good2, good_hash=False) + pkt(k), {}))
        c.append(("v3 header only", 3, lambda k, n: pkt(k)[:6], dict(expect=("timeout",))))
        c.append(("v3 five bytes", 3, lambda k, n: pkt(k)[:5], dict(expect=("timeout",))))
        c.append(("v3 many markers", 3, lambda k, n: b"\x83\x70" * 40, {}))

        def hs_bytewise():
            reply, local_key = v3_handshake()
            return [bytes([b]) for b in reply], local_key
        c.append(("v3 hs bytewise", 3, lambda k, n: pkt(k), dict(expect=("frames",), hs=hs_bytewise)))
        for i in range(25):
            blob = lambda k, i=i: b"".join(RNG.choice([pkt(k), rnd(RNG.randrange(1, 20)), b"\x83", b"\x83\x70", pkt(k)[:RNG.randrange(1, 60)]])
                                           for _ in range(RNG.randrange(1, 5)))

            def chunks(k, n, blob=blob):
                data = blob(k)
                cuts = sorted(RNG.randrange(0, len(data) + 1) for _ in range(RNG.randrange(0, 4)))
                return [data[a:b] for a, b in zip([0] + cuts, cuts + [len(data)])]
            c.append((f"v3 random segmentation {i}", 3, chunks, {}))

    if EMPHASIS == "v2codec":
        # Every length field value around the header/sign/block boundaries, correctly signed, over V2 and inside V3
        for length in list(range(0, 90, 3)) + [72, 73, 87, 88, 89, 103, 104, 105]:
            c.append((f"v2 signed prefix length={length}", 2, lambda k, n, L=length: v2_signed_prefix(L), {}))
            c.append((f"v3 inner signed prefix length={length}", 3,
                      lambda k, n, L=length: v3_encrypted(k, v2_signed_prefix(L)), {}))
        # Correctly signed random ciphertext of every size from 0 to 2 blocks
        for plen in range(0, 34):
            c.append((f"v2 signed random payload {plen}", 2, lambda k, n, L=plen: v2_packet(payload=rnd(L)), {}))
        # Valid packet followed by trailing bytes, valid packet with a length field one too large / small
        c.append(("v2 trailing bytes", 2, lambda k, n: good2 + rnd(9), dict(expect=("frames",))))
        c.append(("v2 length+1", 2, lambda k, n: v2_packet(length=len(good2) + 1), {}))
        c.append(("v2 length-1", 2, lambda k, n: v2_packet(length=len(good2) - 1), {}))
        c.append(("v2 length-16", 2, lambda k, n: v2_packet(length=len(good2) - 16), {}))
        for start in (b"\x5a\x00", b"\x00\x5a", b"\xaa\x23", b"\x83\x70", b"\xff\xff"):
            c.append((f"v2 start {start.hex()}", 2, lambda k, n, s=start: v2_packet(start=s), {}))
        # Header fields at boundary values, re-signed
        def resigned(fill):
            body = bytearray(good2[:-16])
            body[6:40] = bytes([fill]) * 34
            return bytes(body) + md5(bytes(body) + SIGN_KEY).digest()
        for fill in (0x00, 0x7F, 0x80, 0xFF):
            c.append((f"v2 header filled {fill:02x}", 2, lambda k, n, f=fill: resigned(f), dict(expect=("frames",))))
        c.append(("v2 frame of 0 bytes", 2, lambda k, n: v2_packet(frame=b""), dict(expect=("empty", "frames"))))
        c.append(("v2 frame of 16 bytes", 2, lambda k, n: v2_packet(frame=rnd(16)), dict(expect=("frames",))))
        c.append(("v2 device frame garbage", 2, lambda k, n: v2_packet(frame=rnd(16)), dict(op="device", expect=("offline",))))
        c.append(("v2 two packets", 2, lambda k, n: good2 + good2, dict(expect=("frames",))))
        for i in range(40):
            def mutated(k, n):
                pkt = bytearray(good2)
                for _ in range(RNG.randrange(1, 4)):
                    pkt[RNG.randrange(len(pkt))] = RNG.choice([0, 1, 0x7F, 0x80, 0xFF, RNG.getrandbits(8)])
                if RNG.random() < 0.5:
                    L = int.from_bytes(pkt[4:6], "little")
                    if 16 <= L <= len(pkt):
                        pkt[L - 16:L] = md5(bytes(pkt[:L - 16]) + SIGN_KEY).digest()
                return bytes(pkt)
            c.append((f"v2 random mutation {i}", 2, mutated, {}))
            c.append((f"v3 inner random mutation {i}", 3, lambda k, n, m=mutated: v3_encrypted(k, m(k, n)), {}))

    if EMPHASIS == "transport":
        pkt = lambda k: v3_encrypted(k, good2)
        # Sporadic data queued before the request is sent: the reply to request n carries extra packets
        c.append(("v3 extra good packets", 3, lambda k, n: pkt(k) * 3, dict(expect=("frames",))))
        c.append(("v3 good then bad hash", 3, lambda k, n: pkt(k) + v3_encrypted(k, good2, good_hash=False), {}))
        c.append(("v3 good then error type", 3, lambda k, n: pkt(k) + v3_encrypted(k, good2, ptype=0xF), {}))
        c.append(("v3 good then handshake type", 3, lambda k, n: pkt(k) + v3_handshake()[0], {}))
        c.append(("v2 good then garbage", 2, lambda k, n: [good2, rnd(60)], {}))
        # Device level: first query poisoned with a late bad packet, second query sees it in the sporadic read
        c.append(("v3 device late bad packet", 3, lambda k, n: [pkt(k), v3_encrypted(k, good2, good_hash=False)], dict(op="device")))
        c.append(("v3 device late error packet", 3, lambda k, n: [pkt(k), v3_encrypted(k, good2, ptype=0xF)], dict(op="device")))
        c.append(("v2 device late garbage", 2, lambda k, n: [good2, rnd(70)], dict(op="device")))
        # Histories: a late bad packet is found by the next exchange's sporadic read, then the link recovers
        c.append(("v3 history late bad hash", 3, lambda k, n: [pkt(k), v3_encrypted(k, good2, good_hash=False)] if n == 1 else pkt(k), dict(op="send3")))
        c.append(("v3 history late error type", 3, lambda k, n: [pkt(k), v3_encrypted(k, good2, ptype=0xF)] if n == 1 else pkt(k), dict(op="send3")))
        c.append(("v3 history late garbage inner", 3, lambda k, n: [pkt(k), v3_encrypted(k, rnd(33))] if n == 1 else pkt(k), dict(op="send3")))
        c.append(("v2 history late garbage", 2, lambda k, n: [good2, rnd(64)] if n == 1 else good2, dict(op="send3")))
        c.append(("v2 history bad then good", 2, lambda k, n: v2_packet(sign=False) if n == 1 else good2, dict(op="send3")))
        c.append(("v3 history bad then good", 3, lambda k, n: v3_encrypted(k, good2, magic=0) if n == 1 else pkt(k), dict(op="send3")))
        c.append(("v3 history silent then good", 3, lambda k, n: b"" if n == 1 else pkt(k), dict(op="send3")))
        c.append(("v3 history all good", 3, lambda k, n: pkt(k), dict(op="send3", expect=("frames1/frames1/frames1",))))
        # Pad nibble larger than the decrypted payload
        for inner in (b"", rnd(1), rnd(5), rnd(13), rnd(14)):
            for pad in (0, 1, 14, 15):
                c.append((f"v3 inner {len(inner)} bytes pad {pad}", 3,
                          lambda k, n, i=inner, p=pad: v3_encrypted(k, i, pad=p), {}))
        # Handshake replies of every body length around the expected 64 bytes
        for blen in (0, 1, 31, 32, 33, 48, 62, 63, 65, 66, 80, 96, 128):
            c.append((f"v3 hs body {blen}", 3, lambda k, n: b"", dict(op="auth", hs=lambda L=blen: v3_handshake(body=rnd(L)))))
            c.append((f"v3 device hs body {blen}", 3, lambda k, n: b"",
                      dict(op="device", hs=lambda L=blen: v3_handshake(body=rnd(L)), expect=("AuthenticationError",))))
        c.append(("v3 hs valid then data error", 3, lambda k, n: v3_encrypted(k, good2, ptype=0xF), {}))
        c.append(("v3 hs error packet", 3, lambda k, n: b"", dict(op="auth", hs=lambda: (v3_encrypted(bytes(32), b"", ptype=0xF), None))))
        c.append(("v3 hs two replies", 3, lambda k, n: pkt(k), dict(hs=lambda: (lambda r: (r[0] + v3_handshake()[0], r[1]))(v3_handshake()))))
        c.append(("v3 hs reply plus encrypted", 3, lambda k, n: pkt(k), dict(hs=lambda: (lambda r: (r[0] + v3_encrypted(r[1], good2), r[1]))(v3_handshake()))))
        c.append(("v3 hs reply plus garbage packet", 3, lambda k, n: pkt(k), dict(hs=lambda: (lambda r: (r[0] + v3_encrypted(r[1], rnd(40)), r[1]))(v3_handshake()))))
        c.append(("v3 device hs reply plus garbage packet", 3, lambda k, n: pkt(k),
                  dict(op="device", hs=lambda: (lambda r: (r[0] + v3_encrypted(r[1], rnd(40)), r[1]))(v3_handshake()))))
    return c


async def main() -> int:
    await asyncio.gather(*(run_case(name, ver, resp, **kw) for name, ver, resp, kw in cases()))
    bad = [r for r in results if not r[0]]
    tally = {}
    for _, _, outcome, _ in results:
        tally[outcome] = tally.get(outcome, 0) + 1
    print(f"{len(results)} cases, outcomes: {tally}")
    if "-v" in sys.argv:
        for _, name, outcome, _ in sorted(results, key=lambda r: r[1]):
            print(f"  {name}: {outcome}")
    for _, name, outcome, expect in bad:
        print(f"FAIL {name}: outcome={outcome} expected={expect}")
    return 1 if bad else 0


if __name__ == "__main__":
    sys.exit(asyncio.run(main()))
