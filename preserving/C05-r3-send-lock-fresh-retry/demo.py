"""Demonstration for change 1 (send-lock-fresh-retry) of property C05.

Exercises the V3 encrypted packet codec against an independent implementation, both
directly (encode/decode/_process_packet) and through LAN.send against a fake V3 unit
on the loopback interface: sequential exchanges, a retransmission after a lost request,
two overlapping callers, and tampered responses.  Exits 0 when everything holds.
"""
import asyncio
import hashlib
import logging
import os
import random
import struct
import sys

from Crypto.Cipher import AES

from msmart.lan import LAN, ProtocolError, _LanProtocolV3

logging.disable(logging.CRITICAL)

SIGN_KEY = b"xhdiwjnchekd4d512chdjx5d8e4c394D2D7S"
ENC_KEY = hashlib.md5(SIGN_KEY).digest()
FAILURES = []


def check(cond, what):
    if not cond:
        FAILURES.append(what)
        print("FAIL:", what)


# ---------------------------------------------------------------- independent codec
def cbc(key):
    return AES.new(key, AES.MODE_CBC, iv=bytes(16))


def ref_decode_request(key, packet):
    """Independent decoder of an encrypted request -> (counter, payload)."""
    assert packet[:2] == b"\x83\x70", "marker"
    size = struct.unpack(">H", packet[2:4])[0]
    assert packet[4] == 0x20, "magic"
    pad, ptype = packet[5] >> 4, packet[5] & 0xF
    assert ptype == 0x6, "type"
    assert len(packet) == size + 8, "size field"
    body, tag = packet[6:-32], packet[-32:]
    assert len(body) % 16 == 0, "block alignment"
    plain = cbc(key).decrypt(body)
    assert hashlib.sha256(packet[:6] + plain).digest() == tag, "tag"
    assert 0 <= pad < 16 and len(plain) - 2 - pad >= 0, "pad"
    assert size == (len(plain) - 2 - pad) + pad + 32, "size/pad consistent"
    return struct.unpack(">H", plain[:2])[0], plain[2:len(plain) - pad]


def ref_encode_response(key, counter, payload):
    """Independent encoder of an encrypted response."""
    pad = (-(len(payload) + 2)) % 16
    header = b"\x83\x70" + struct.pack(">H", len(payload) + pad + 32) + \
        b"\x20" + bytes([pad << 4 | 0x3])
    plain = struct.pack(">H", counter) + payload + os.urandom(pad)
    return header + cbc(key).encrypt(plain) + hashlib.sha256(header + plain).digest()


def ref_v2_encode(frame, device_id=0):
    padn = 16 - len(frame) % 16
    enc = AES.new(ENC_KEY, AES.MODE_ECB).encrypt(frame + bytes([padn]) * padn)
    length = 40 + len(enc) + 16
    header = b"\x5a\x5a\x01\x11" + struct.pack("<H", length) + b"\x20\x00" + bytes(4) + \
        bytes(8) + struct.pack("<Q", device_id) + bytes(12)
    packet = header + enc
    return packet + hashlib.md5(packet + SIGN_KEY).digest()


def ref_v2_decode(packet):
    assert packet[:2] == b"\x5a\x5a"
    length = struct.unpack("<H", packet[4:6])[0]
    packet = packet[:length]
    assert hashlib.md5(packet[:-16] + SIGN_KEY).digest() == packet[-16:], "v2 sign"
    plain = AES.new(ENC_KEY, AES.MODE_ECB).decrypt(packet[40:-16])
    return plain[:-plain[-1]]


# ---------------------------------------------------------------- direct checks
def direct_checks(rng):
    lengths = list(range(0, 40)) + rng.sample(range(40, 301), 24) + [300]
    for n in lengths:
        key = os.urandom(32)
        counter = rng.randrange(4096)
        payload = os.urandom(n)
        proto = _LanProtocolV3()
        proto._local_key = key
        packet = proto._encode_encrypted_request(counter, payload)
        try:
            c, p = ref_decode_request(key, bytes(packet))
            check((c, p) == (counter, payload), f"request roundtrip n={n}")
            check(packet[5] >> 4 == (-(n + 2)) % 16, f"pad nibble n={n}")
        except AssertionError as e:
            check(False, f"request n={n}: {e}")

        resp = ref_encode_response(key, counter, payload)
        with memoryview(resp) as mv:
            check(proto._process_packet(mv) == payload, f"response n={n}")

    # Every single bit flip of a few responses is rejected with a ProtocolError
    for n in (0, 14, 15, 30, 45):
        key = os.urandom(32)
        payload = os.urandom(n)
        proto = _LanProtocolV3()
        proto._local_key = key
        resp = ref_encode_response(key, 7, payload)
        for bit in range(len(resp) * 8):
            bad = bytearray(resp)
            bad[bit // 8] ^= 1 << (bit % 8)
            try:
                with memoryview(bytes(bad)) as mv:
                    out = proto._process_packet(mv)
                # 3 -> 1 in the type nibble turns it into a handshake response: not an
                # *encrypted response* any more, and it never yields the payload
                check(bit // 8 == 5 and out != payload, f"flip bit {bit} n={n} accepted")
            except ProtocolError:
                pass
            except Exception as e:  # pylint: disable=broad-except
                check(False, f"flip bit {bit} n={n}: {type(e).__name__}")


# ---------------------------------------------------------------- fake V3 unit
class FakeUnit:
    """Independent V3 unit: handshake + encrypted exchanges on 127.0.0.1."""

    def __init__(self, token, key):
        self.token, self.key = token, key
        self.local_key = None
        self.requests = []       # (connection no, counter, v2 payload)
        self.connections = 0
        self.drop_next = 0       # number of requests to ignore
        self.tamper_next = None  # bit index to flip in next response
        self.overlap = 0         # requests seen while another is being answered
        self._busy = False
        self.delay = 0.0
        self.server = None

    async def start(self):
        self.server = await asyncio.start_server(self._serve, "127.0.0.1", 0)
        return self.server.sockets[0].getsockname()[1]

    async def stop(self):
        self.server.close()
        await self.server.wait_closed()

    async def _serve(self, reader, writer):
        self.connections += 1
        conn = self.connections
        try:
            while True:
                head = await reader.readexactly(6)
                size = struct.unpack(">H", head[2:4])[0]
                rest = await reader.readexactly(size + 2)
                packet = head + rest
                ptype = head[5] & 0xF
                if ptype == 0x0:
                    check(rest[2:] == self.token, "handshake carries the token")
                    plain = os.urandom(32)
                    self.local_key = bytes(a ^ b for a, b in zip(plain, self.key))
                    body = cbc(self.key).encrypt(plain) + hashlib.sha256(plain).digest()
                    writer.write(b"\x83\x70" + struct.pack(">H", len(body)) + b"\x20\x01" +
                                 rest[:2] + body)
                    continue
                try:
                    counter, payload = ref_decode_request(self.local_key, packet)
                except AssertionError as e:
                    check(False, f"unit cannot decode request: {e}")
                    continue
                self.requests.append((conn, counter, payload))
                if self._busy:
                    self.overlap += 1
                if self.drop_next:
                    self.drop_next -= 1
                    continue
                self._busy = True
                await asyncio.sleep(self.delay)
                self._busy = False
                frame = ref_v2_decode(payload)
                resp = ref_encode_response(
                    self.local_key, counter, ref_v2_encode(b"\xaa" + frame[::-1]))
                if self.tamper_next is not None:
                    bad = bytearray(resp)
                    bad[self.tamper_next // 8] ^= 1 << (self.tamper_next % 8)
                    resp, self.tamper_next = bytes(bad), None
                writer.write(resp)
        except (asyncio.IncompleteReadError, ConnectionError):
            pass
        finally:
            writer.close()


async def lan_checks(rng):
    token, key = os.urandom(64), os.urandom(32)
    unit = FakeUnit(token, key)
    port = await unit.start()
    lan = LAN("127.0.0.1", port, 1234)
    await lan.authenticate(token, key)

    # Sequential exchanges, every padding residue
    for n in range(16):
        frame = os.urandom(20 + n)
        out = await lan.send(frame)
        check(out == [b"\xaa" + frame[::-1]], f"send result n={n}")
        check(ref_v2_decode(unit.requests[-1][2]) == frame, f"unit saw the frame n={n}")
    counters = [c for _, c, _ in unit.requests]
    check(counters == list(range(counters[0], counters[0] + 16)), "counters advance by one")

    # A lost request is retransmitted and still decodes to the same frame
    unit.drop_next = 1
    before = len(unit.requests)
    frame = os.urandom(33)
    out = await lan.send(frame)
    check(out == [b"\xaa" + frame[::-1]], "result after a retransmission")
    seen = unit.requests[before:]
    check(len(seen) == 2 and all(ref_v2_decode(p) == frame for _, _, p in seen),
          "both transmissions carry the frame")

    # Two overlapping callers: every request on the wire is well formed
    unit.delay = 0.05
    frames = [os.urandom(25), os.urandom(26)]
    before = len(unit.requests)
    results = await asyncio.gather(*(lan.send(f) for f in frames), return_exceptions=True)
    unit.delay = 0.0
    check(len(unit.requests) - before >= 2, "both overlapping requests reached the unit")
    wanted = {b"\xaa" + f[::-1] for f in frames}
    got = [r for res in results if isinstance(res, list) for r in res]
    check(set(got) <= wanted, "overlapping callers only receive genuine responses")

    # Tampered responses (ciphertext, tag) are rejected with a ProtocolError
    for bit in (6 * 8 + 3, 40 * 8, -1):
        frame = os.urandom(30)
        probe = ref_encode_response(unit.local_key, 0, ref_v2_encode(b"\xaa" + frame))
        unit.tamper_next = bit % (len(probe) * 8)
        try:
            out = await lan.send(frame)
            check(False, f"tampered response accepted: {out}")
        except ProtocolError:
            pass
        # The object keeps working afterwards
        out = await lan.send(frame)
        check(out == [b"\xaa" + frame[::-1]], "exchange after a rejected response")

    lan._disconnect()
    await unit.stop()


def main():
    rng = random.Random(5)
    direct_checks(rng)
    asyncio.run(lan_checks(rng))
    print("FAILURES:", len(FAILURES))
    return 1 if FAILURES else 0


if __name__ == "__main__":
    sys.exit(main())
