"""Demonstration for property C01 (end-to-end fidelity of apply()/refresh()).

Drives AirConditioner.apply()/refresh() against a small simulated device that is
attached through an in-memory transport (no sockets).  The simulated device
implements the V2 packet layer, the V3 (8370) layer including the key
handshake, and the AC state frames.  It interleaves unsolicited and duplicated
responses and, for V3, cuts its byte stream at arbitrary places.

Focus of this demo: V3 stream reassembly (segmentation, leading garbage, split
start-of-packet marker, many packets in one segment).

Run: PYTHONPATH=<worktree> /venv/bin/python demo.py      (exit code 0 == OK)
"""
import asyncio
import logging
import random
import sys
from hashlib import md5, sha256

from Crypto.Cipher import AES
from Crypto.Util import Padding
from Crypto.Util.strxor import strxor

import msmart.crc8 as crc8
import msmart.lan as lan_mod
from msmart.device import AirConditioner as AC

logging.disable(logging.CRITICAL)

SIGN_KEY = b"xhdiwjnchekd4d512chdjx5d8e4c394D2D7S"
ENC_KEY = md5(SIGN_KEY).digest()

FOCUS = "v3-framing"


# ----------------------------------------------------------------------------
# Simulated device
# ----------------------------------------------------------------------------
class SimDevice:
    def __init__(self, rng, *, version, device_id, token=None, key=None):
        self.rng = rng
        self.version = version
        self.device_id = device_id
        self.token = token
        self.key = key
        self.state = dict(power=False, temp=24.0, mode=2, fan=102, swing=0, eco=False, turbo=False,
                          sleep=False, fahrenheit=False, freeze=False, follow_me=False, purifier=False,
                          humidity=40, aux=False, indep_aux=False, display=True)
        self.set_count = 0
        self.errors = []

    # -- frame layer -------------------------------------------------------
    @staticmethod
    def _frame(frame_type, body):
        body = bytes(body)
        body += bytes([crc8.calculate(body)])
        frame = bytearray([0xAA, 10 + len(body), 0xAC, 0, 0, 0, 0, 0, 3, frame_type]) + body
        frame.append((~sum(frame[1:]) + 1) & 0xFF)
        return bytes(frame)

    def _state_frame(self, frame_type=0x03):
        s = self.state
        p = bytearray(23)
        p[0] = 0xC0
        p[1] = 0x01 if s["power"] else 0
        whole = int(s["temp"])
        half = 0x10 if s["temp"] - whole else 0
        if 17 <= whole <= 30:
            p[2] = (whole - 16) | half | (s["mode"] << 5)
        else:
            p[2] = half | (s["mode"] << 5)
            p[13] = (whole - 12) & 0x1F
        p[3] = s["fan"]
        p[4], p[5] = 0x7F, 0x7F
        p[7] = 0x30 | s["swing"]
        p[8] = (0x20 if s["turbo"] else 0) | (0x40 if s["indep_aux"] else 0) | (0x80 if s["follow_me"] else 0)
        p[9] = (0x10 if s["eco"] else 0) | (0x20 if s["purifier"] else 0) | (0x08 if s["aux"] else 0)
        p[10] = (0x01 if s["sleep"] else 0) | (0x02 if s["turbo"] else 0) | (0x04 if s["fahrenheit"] else 0)
        p[11] = 0x62  # indoor
        p[12] = 0x6E  # outdoor
        p[14] = 0x00 if s["display"] else 0x70
        p[19] = s["humidity"] & 0x7F
        p[21] = 0x80 if s["freeze"] else 0
        p[22] = self.rng.randrange(256)  # message id
        return self._frame(frame_type, p)

    def _handle_frame(self, frame):
        """Return list of response frames for a request frame."""
        if frame[0] != 0xAA or len(frame) != frame[1] + 1 or (sum(frame[1:]) & 0xFF) != 0:
            self.errors.append("bad frame %s" % frame.hex())
            return []
        body = frame[10:-1]
        if crc8.calculate(body[:-1]) != body[-1]:
            self.errors.append("bad crc %s" % frame.hex())
            return []
        p = body[:-2]  # strip message id and crc
        s = self.state
        if p[0] == 0x40:
            self.set_count += 1
            s["power"] = bool(p[1] & 0x01)
            alt = p[18] & 0x1F
            s["temp"] = float(alt + 12 if alt else (p[2] & 0x0F) + 16) + (0.5 if p[2] & 0x10 else 0.0)
            s["mode"] = p[2] >> 5
            s["fan"] = p[3]
            s["swing"] = p[7] & 0x0F
            s["follow_me"] = bool(p[8] & 0x80)
            s["turbo"] = bool(p[8] & 0x20) or bool(p[10] & 0x02)
            s["eco"] = bool(p[9] & 0x80)
            s["purifier"] = bool(p[9] & 0x20)
            s["aux"] = bool(p[9] & 0x08)
            s["sleep"] = bool(p[10] & 0x01)
            s["fahrenheit"] = bool(p[10] & 0x04)
            s["humidity"] = p[19] & 0x7F
            s["freeze"] = bool(p[21] & 0x80)
            s["indep_aux"] = bool(p[22] & 0x08)
            return [self._state_frame(0x02)]
        if p[0] == 0x41:
            if p[1] & 0x80:  # state query
                return [self._state_frame(0x03)]
            if p[1] == 0x21:  # group query: not supported by this unit, stay silent
                return []
            if p[4] == 0x02 and p[6] == 0x02:  # display toggle
                s["display"] = not s["display"]
                return [self._state_frame(0x03)]
        if p[0] == 0xB5:
            return []
        self.errors.append("unknown request %s" % frame.hex())
        return []

    # -- V2 packet layer ---------------------------------------------------
    def _v2_encode(self, frame):
        enc = AES.new(ENC_KEY, AES.MODE_ECB).encrypt(Padding.pad(frame, 16))
        length = 40 + len(enc) + 16
        hdr = b"\x5a\x5a\x01\x11" + length.to_bytes(2, "little") + b"\x20\x80" + bytes(4) + bytes(8)
        hdr += self.device_id.to_bytes(8, "little") + bytes(12)
        pkt = hdr + enc
        return pkt + md5(pkt + SIGN_KEY).digest()

    def _v2_decode(self, pkt):
        if pkt[:2] != b"\x5a\x5a" or int.from_bytes(pkt[4:6], "little") != len(pkt):
            self.errors.append("bad v2 packet %s" % pkt.hex())
            return None
        if md5(pkt[:-16] + SIGN_KEY).digest() != pkt[-16:]:
            self.errors.append("bad v2 signature")
            return None
        if int.from_bytes(pkt[20:28], "little") != self.device_id:
            self.errors.append("wrong device id")
            return None
        return Padding.unpad(AES.new(ENC_KEY, AES.MODE_ECB).decrypt(pkt[40:-16]), 16)

    def _unsolicited(self):
        """Frames a device may send at any time: heartbeat-like and duplicated state reports."""
        out = []
        r = self.rng.random()
        if r < 0.3:
            out.append(self._state_frame(0x05))  # unsolicited state notification
        elif r < 0.5:
            out.append(self._frame(0x05, bytes([0xA0, 0x00, 0x01, 0x02, 0x03, 0x04])))  # unknown report
        return out

    def _reply_frames(self, frame):
        before = self._unsolicited()  # reflects the state before the request
        replies = self._handle_frame(frame)
        if replies and self.rng.random() < 0.4:
            replies = replies + replies[-1:]  # duplicated response
        after = self._unsolicited()
        return before + replies + after


class SimTransport:
    """In-memory asyncio transport connecting a msmart protocol object with a SimDevice."""

    def __init__(self, loop, protocol, device, rng):
        self.loop = loop
        self.protocol = protocol
        self.device = device
        self.rng = rng
        self.closing = False
        self.rx = bytearray()
        self.wire = bytearray()  # everything the client ever wrote
        self.local_key = None
        self.resp_count = 0

    # asyncio.Transport API used by msmart
    def get_extra_info(self, name, default=None):
        return ("192.0.2.1", 6444) if name == "peername" else default

    def is_closing(self):
        return self.closing

    def close(self):
        self.closing = True

    def write(self, data):
        assert not self.closing
        self.rx += data
        self.wire += data
        if self.device.version == 3:
            self._process_v3()
        else:
            self._process_v2()

    # delivery to the client
    def _deliver(self, chunks):
        for chunk in chunks:
            self.loop.call_soon(self._deliver_one, bytes(chunk))

    def _deliver_one(self, chunk):
        if not self.closing:
            self.protocol.data_received(chunk)

    def _process_v2(self):
        while len(self.rx) >= 6:
            length = int.from_bytes(self.rx[4:6], "little")
            if len(self.rx) < length:
                return
            pkt, self.rx = bytes(self.rx[:length]), self.rx[length:]
            frame = self.device._v2_decode(pkt)
            if frame is None:
                continue
            # V2 protocol object has no reassembly: one packet per segment
            self._deliver([self.device._v2_encode(f) for f in self.device._reply_frames(frame)])

    # -- V3 layer ----------------------------------------------------------
    def _v3_encode(self, payload):
        remainder = (len(payload) + 2) % 16
        pad = 16 - remainder if remainder else 0
        hdr = b"\x83\x70" + (len(payload) + pad + 32).to_bytes(2, "big") + b"\x20" + bytes([pad << 4 | 0x3])
        self.resp_count += 1
        plain = self.resp_count.to_bytes(2, "big") + payload + bytes(self.rng.randrange(256) for _ in range(pad))
        enc = AES.new(self.local_key, AES.MODE_CBC, iv=bytes(16)).encrypt(plain)
        return hdr + enc + sha256(hdr + plain).digest()

    def _process_v3(self):
        dev = self.device
        while len(self.rx) >= 6:
            if self.rx[:2] != b"\x83\x70" or self.rx[4] != 0x20:
                dev.errors.append("bad v3 header %s" % self.rx[:6].hex())
                self.rx.clear()
                return
            total = int.from_bytes(self.rx[2:4], "big") + 8
            if len(self.rx) < total:
                return
            pkt, self.rx = bytes(self.rx[:total]), self.rx[total:]
            ptype = pkt[5] & 0x0F
            if ptype == 0x0:  # handshake request
                if pkt[8:] != dev.token:
                    dev.errors.append("bad token")
                    continue
                rand = bytes(self.rng.randrange(256) for _ in range(32))
                self.local_key = strxor(rand, dev.key)
                body = AES.new(dev.key, AES.MODE_CBC, iv=bytes(16)).encrypt(rand) + sha256(rand).digest()
                reply = b"\x83\x70" + len(body).to_bytes(2, "big") + b"\x20\x01" + bytes(2) + body
                self._deliver(self._segment(reply))
            elif ptype == 0x6:  # encrypted request
                pad = pkt[5] >> 4
                plain = AES.new(self.local_key, AES.MODE_CBC, iv=bytes(16)).decrypt(pkt[6:-32])
                if sha256(pkt[:6] + plain).digest() != pkt[-32:]:
                    dev.errors.append("bad v3 hash")
                    continue
                v2 = plain[2:len(plain) - pad]
                frame = dev._v2_decode(v2)
                if frame is None:
                    continue
                stream = b"".join(self._v3_encode(dev._v2_encode(f)) for f in dev._reply_frames(frame))
                self._deliver(self._segment(stream))
            else:
                dev.errors.append("unexpected v3 type %d" % ptype)

    def _segment(self, stream):
        """Cut the device's byte stream at arbitrary places; sometimes prepend line noise."""
        if not stream:
            return []
        mode = self.rng.randrange(5)
        if mode == 0:
            return [stream]
        if mode == 1:  # byte by byte for the first bytes (splits the 8370 marker), rest in one
            return [stream[i:i + 1] for i in range(8)] + [stream[8:]]
        if mode == 2:  # noise in front that ends with half a marker
            return [b"\x00\x11\x83", stream[:1], stream[1:]]
        cuts = sorted(self.rng.sample(range(1, len(stream)), min(len(stream) - 1, self.rng.randrange(1, 6))))
        return [stream[a:b] for a, b in zip([0] + cuts, cuts + [len(stream)])]


def attach(ac, device, rng, transports):
    """Make ac._lan connect to the simulated device instead of a socket."""
    lan = ac._lan

    async def _connect():
        cls = lan_mod._LanProtocolV3 if lan._protocol_version == 3 else lan_mod._LanProtocol
        protocol = cls()
        transport = SimTransport(asyncio.get_running_loop(), protocol, device, rng)
        protocol.connection_made(transport)
        lan._protocol = protocol
        transports.append(transport)

    lan._connect = _connect


# ----------------------------------------------------------------------------
# Scenario
# ----------------------------------------------------------------------------
def random_target(rng):
    return dict(
        power=rng.random() < 0.5,
        temp=rng.choice([16.0, 16.5, 17.0, 17.5, 21.5, 24.0, 29.5, 30.0, rng.randrange(32, 61) / 2]),
        mode=rng.choice(list(AC.OperationalMode)),
        fan=rng.choice(list(AC.FanSpeed) + [1, 33, 57, 99]),
        swing=rng.choice(list(AC.SwingMode)),
        eco=rng.random() < 0.5, turbo=rng.random() < 0.5, sleep=rng.random() < 0.5,
        fahrenheit=rng.random() < 0.5, freeze=rng.random() < 0.5, follow_me=rng.random() < 0.5,
        purifier=rng.random() < 0.5, humidity=rng.randrange(0, 101),
        aux=rng.choice(list(AC.AuxHeatMode)),
    )


def set_attributes(ac, t):
    ac.power_state = t["power"]
    ac.target_temperature = t["temp"]
    ac.operational_mode = t["mode"]
    ac.fan_speed = t["fan"]
    ac.swing_mode = t["swing"]
    ac.eco = t["eco"]
    ac.turbo = t["turbo"]
    ac.sleep = t["sleep"]
    ac.fahrenheit = t["fahrenheit"]
    ac.freeze_protection = t["freeze"]
    ac.follow_me = t["follow_me"]
    ac.purifier = t["purifier"]
    ac.target_humidity = t["humidity"]
    ac.aux_mode = t["aux"]


def view(ac):
    return dict(power=ac.power_state, temp=ac.target_temperature, mode=int(ac.operational_mode),
                fan=int(ac.fan_speed), swing=int(ac.swing_mode), eco=ac.eco, turbo=ac.turbo, sleep=ac.sleep,
                fahrenheit=ac.fahrenheit, freeze=ac.freeze_protection, follow_me=ac.follow_me,
                purifier=ac.purifier, humidity=ac.target_humidity, aux=int(ac.aux_mode), display=ac.display_on)


def device_view(dev):
    s = dev.state
    aux = 2 if s["indep_aux"] else 1 if s["aux"] else 0
    return dict(power=s["power"], temp=s["temp"], mode=s["mode"], fan=s["fan"], swing=s["swing"], eco=s["eco"],
                turbo=s["turbo"], sleep=s["sleep"], fahrenheit=s["fahrenheit"], freeze=s["freeze"],
                follow_me=s["follow_me"], purifier=s["purifier"], humidity=s["humidity"], aux=aux,
                display=s["display"])


def target_view(t, display):
    v = {k: (int(x) if not isinstance(x, (bool, float)) else x) for k, x in t.items()}
    v["display"] = display
    return v


async def scenario(version, seed, rounds):
    rng = random.Random(seed)
    device_id = rng.choice([1, 123456, 0xFFFFFFFFFFFF, rng.getrandbits(47)])
    token = bytes(rng.randrange(256) for _ in range(64)) if version == 3 else None
    key = bytes(rng.randrange(256) for _ in range(32)) if version == 3 else None
    dev = SimDevice(rng, version=version, device_id=device_id, token=token, key=key)
    transports = []

    async def client():
        ac = AC(ip="192.0.2.1", port=6444, device_id=device_id)
        attach(ac, dev, rng, transports)
        if version == 3:
            await ac.authenticate(token.hex() if rng.random() < 0.5 else token, key)
        return ac

    writer = await client()
    for i in range(rounds):
        target = random_target(rng)
        set_attributes(writer, target)
        sets_before = dev.set_count
        await writer.apply()
        assert dev.set_count == sets_before + 1, "device did not receive exactly one set command"
        want = target_view(target, dev.state["display"])
        assert device_view(dev) == want, f"device state differs\n dev={device_view(dev)}\nwant={want}"
        assert view(writer) == want, f"writer view differs\n got={view(writer)}\nwant={want}"

        if i % 3 == 0:
            await writer.toggle_display()
            assert writer.display_on == dev.state["display"]

        if i % 6 == 0:
            reader = await client()  # any client instance
        else:
            reader = writer
        await reader.refresh()
        assert reader.online and reader.supported
        assert view(reader) == device_view(dev), f"refresh differs\n got={view(reader)}\n dev={device_view(dev)}"

    assert not dev.errors, dev.errors
    return transports


async def main():
    await scenario(2, 101, 24)
    await scenario(3, 202, 24)
    await scenario(3, 303, 12)
    print("demo (%s): OK" % FOCUS)


if __name__ == "__main__":
    try:
        asyncio.run(main())
    except AssertionError as e:
        print("FAILED:", e)
        sys.exit(1)
