"""Demo for change 2 (refresh applies answers as they arrive): property-protocol settings are written
once, correctly encoded and read back equal; also around a refresh that is abandoned half way.

Run: PYTHONPATH=<worktree> /venv/bin/python demo2.py   (exit 0 on original and changed code)
"""
import asyncio
import logging
import struct
import sys

from msmart.device import AirConditioner as AC
from msmart.device.AC.command import PropertyId
from msmart.frame import Frame

logging.disable(logging.CRITICAL)

STATE_PAYLOAD = bytes.fromhex(
    "aa23ac00000000000303c00145660000003c0010045c6b20000000000000000000020d79")[10:-2]


def frame(frame_type: int, payload: bytes) -> bytes:
    """Build a device->client frame around payload (payload CRC byte is a checksum)."""
    data = payload + bytes([Frame.checksum(payload)])
    hdr = bytearray(10)
    hdr[0], hdr[1], hdr[2], hdr[9] = 0xAA, len(data) + 10, 0xAC, frame_type
    out = bytearray(hdr + data)
    out.append(Frame.checksum(out[1:]))
    return bytes(out)


class SimUnit:
    """Very small simulated unit speaking the 0x40/0x41/0xB0/0xB1 bodies; plugged in as LAN.send."""

    def __init__(self) -> None:
        self.store = {}      # PropertyId -> raw value bytes as the unit reports them
        self.writes = []     # list of dict(id -> raw written bytes), one per 0xB0 body
        self.bodies = []     # first body byte of each request, in order
        self.busy = 0
        self.max_busy = 0

    async def send(self, data: bytes, retries: int = 3):
        self.busy += 1
        self.max_busy = max(self.max_busy, self.busy)
        try:
            await asyncio.sleep(0)  # let other tasks interleave like a real socket would
            await asyncio.sleep(0)
            return self._handle(data)
        finally:
            self.busy -= 1

    def _handle(self, data: bytes):
        assert data[0] == 0xAA and Frame.checksum(data[1:-1]) == data[-1]
        body = data[10:-3]  # strip message id, CRC and frame checksum
        self.bodies.append(body[0])
        if body[0] in (0x40, 0x41):
            return [frame(0x03 if body[0] == 0x41 else 0x02, STATE_PAYLOAD)]
        if body[0] == 0xB1:
            ids = [struct.unpack_from("<H", body, 2 + 2 * i)[0] for i in range(body[1])]
            return [frame(0x03, self._props(0xB1, ids))]
        if body[0] == 0xB0:
            written, pos = {}, 2
            for _ in range(body[1]):
                (pid,) = struct.unpack_from("<H", body, pos)
                size = body[pos + 2]
                written[pid] = bytes(body[pos + 3:pos + 3 + size])
                pos += 3 + size
            assert pos == len(body), "0xB0 body has trailing/missing bytes"
            self.writes.append(written)
            for pid, raw in written.items():
                if pid == PropertyId.BUZZER:
                    continue
                if pid == PropertyId.IECO:
                    assert len(raw) == 13 and raw[0] == 0 and raw[1] == 1
                    self.store[pid] = bytes([raw[1], raw[2]])  # number, switch
                else:
                    assert len(raw) == 1
                    self.store[pid] = raw
                    # a legacy unit runs one breeze function at a time
                    if pid == PropertyId.BREEZE_AWAY and raw == b"\x02":
                        self.store[PropertyId.BREEZELESS] = b"\x00"
                    if pid == PropertyId.BREEZELESS and raw != b"\x00":
                        self.store[PropertyId.BREEZE_AWAY] = b"\x01"
            return [frame(0x02, self._props(0xB0, [p for p in written if p != PropertyId.BUZZER]))]
        return []

    def _props(self, rid: int, ids) -> bytes:
        out = bytearray([rid, len(ids)])
        for pid in ids:
            raw = self.store.get(pid, b"\x00\x00" if pid == PropertyId.IECO else
                                 (b"\x01" if pid in (PropertyId.BREEZE_AWAY, PropertyId.BREEZE_CONTROL) else b"\x00"))
            out += struct.pack("<H", pid) + bytes([0x00, len(raw)]) + raw
        return bytes(out)


class Caps:
    """Stand-in capabilities object: everything off unless given."""

    def __init__(self, **kw) -> None:
        self.__dict__.update(dict(min_temperature=16, max_temperature=30, rate_select_levels=None,
                                  energy_stats=False, fan_custom=True), **kw)

    def __getattr__(self, name):
        return False


def make(**caps):
    dev = AC(ip="127.0.0.1", port=6444, device_id=1234)
    unit = SimUnit()
    dev._lan.send = unit.send
    dev._update_capabilities(Caps(**caps))
    return dev, unit


def prop_writes(unit, pid):
    return [w[pid] for w in unit.writes if pid in w]


def check(cond, msg):
    if not cond:
        print("FAIL:", msg)
        sys.exit(1)


async def sequential():
    # breeze-control profile with 5-level rate select, iECO and both angles
    dev, unit = make(breeze_control=True, rate_select_levels=5, ieco=True,
                     swing_vertical_angle=True, swing_horizontal_angle=True)
    dev.vertical_swing_angle = AC.SwingAngle.POS_4
    dev.horizontal_swing_angle = AC.SwingAngle.POS_2
    dev.rate_select = AC.RateSelect.LEVEL_3
    dev.breeze_mild = True
    dev.ieco = True
    await dev.apply()
    check(len(unit.writes) == 1, "one property write for one apply")
    w = unit.writes[0]
    check(w[PropertyId.SWING_UD_ANGLE] == b"\x4b" and w[PropertyId.SWING_LR_ANGLE] == b"\x19", "angles encoded")
    check(w[PropertyId.RATE_SELECT] == b"\x28" and w[PropertyId.BREEZE_CONTROL] == b"\x03", "rate/breeze encoded")
    check(w[PropertyId.IECO] == bytes([0, 1, 1]) + bytes(10), "ieco encoded")
    check(PropertyId.BREEZE_AWAY not in w and PropertyId.BREEZELESS not in w, "advertised id only")
    await dev.apply()
    check(len(unit.writes) == 1, "apply without change sends no property write")
    await dev.refresh()
    check(dev.vertical_swing_angle == AC.SwingAngle.POS_4 and dev.horizontal_swing_angle == AC.SwingAngle.POS_2
          and dev.rate_select == AC.RateSelect.LEVEL_3 and dev.breeze_mild and dev.ieco, "read back equal")
    check([dev.breeze_away, dev.breeze_mild, dev.breezeless].count(True) <= 1, "one breeze mode")

    # legacy profile
    dev, unit = make(breeze_away=True, breezeless=True, rate_select_levels=2)
    dev.breeze_away = True
    dev.rate_select = AC.RateSelect.GEAR_50
    await dev.apply()
    check(unit.writes[0][PropertyId.BREEZE_AWAY] == b"\x02" and PropertyId.BREEZE_CONTROL not in unit.writes[0],
          "legacy breeze away id and encoding")
    dev.breezeless = True
    await dev.apply()
    await dev.apply()
    check(prop_writes(unit, PropertyId.BREEZELESS) == [b"\x01"], "breezeless written once")
    check(len(prop_writes(unit, PropertyId.BREEZE_AWAY)) == 1, "breeze away not repeated")
    await dev.refresh()
    check([dev.breeze_away, dev.breeze_mild, dev.breezeless].count(True) <= 1, "one breeze mode (legacy)")
    check(dev.rate_select == AC.RateSelect.GEAR_50, "rate read back")
    await dev.start_self_clean()
    check(prop_writes(unit, PropertyId.SELF_CLEAN) == [b"\x01"], "self clean written once")


async def abandoned_refresh():
    # The unit is changed behind our back, a refresh is abandoned after its first exchange, then
    # the user changes a setting, applies and refreshes.
    dev, unit = make(breeze_control=True, rate_select_levels=5, swing_horizontal_angle=True, humidity=True)
    dev.enable_energy_usage_requests = True
    dev.rate_select = AC.RateSelect.LEVEL_2
    await dev.apply()
    await dev.refresh()
    check(dev.rate_select == AC.RateSelect.LEVEL_2, "read back")

    seen = []
    orig_send = unit.send

    async def slow_send(data, retries=3):
        seen.append((data[10], dev.online))
        if data[10] == 0xB1:
            await asyncio.sleep(3600)  # the property query never completes
        return await orig_send(data)

    dev._lan.send = slow_send
    dev._online = False
    task = asyncio.ensure_future(dev.refresh())
    for _ in range(50):
        await asyncio.sleep(0)
    task.cancel()
    await asyncio.gather(task, return_exceptions=True)
    print("info: online flag seen by each exchange of the abandoned refresh:", seen,
          "-> online afterwards:", dev.online)
    check(dev.rate_select == AC.RateSelect.LEVEL_2, "abandoned refresh did not disturb the property settings")

    dev._lan.send = orig_send
    n = len(unit.writes)
    await dev.apply()
    check(len(unit.writes) == n, "nothing pending after an abandoned refresh")
    dev.horizontal_swing_angle = AC.SwingAngle.POS_3
    dev.breezeless = True
    await dev.apply()
    check(unit.writes[-1][PropertyId.SWING_LR_ANGLE] == b"\x32" and
          unit.writes[-1][PropertyId.BREEZE_CONTROL] == b"\x04" and len(unit.writes) == n + 1, "written once")
    await dev.refresh()
    check(dev.online and dev.horizontal_swing_angle == AC.SwingAngle.POS_3 and dev.breezeless
          and not dev.breeze_away and not dev.breeze_mild and dev.rate_select == AC.RateSelect.LEVEL_2,
          "read back equal after the next complete refresh")


async def silent_unit():
    # No answer at all: offline, settings untouched; answers again: online and read back
    dev, unit = make(ieco=True)
    dev.ieco = True
    await dev.apply()

    async def nothing(data, retries=3):
        return []
    dev._lan.send = nothing
    dev._online = True
    await dev.refresh()
    check(dev.online is False and dev.ieco is True, "silent unit -> offline, state kept")
    dev._lan.send = unit.send
    await dev.refresh()
    check(dev.online is True and dev.ieco is True, "online again and ieco read back")
    check(len(prop_writes(unit, PropertyId.IECO)) == 1, "ieco written exactly once")


asyncio.run(sequential())
asyncio.run(abandoned_refresh())
asyncio.run(silent_unit())
print("demo2 OK")
